---------------------------- MODULE SignedValue ----------------------------
(***************************************************************************)
(* Signed values (property C23): tornado.web.create_signed_value /         *)
(* decode_signed_value, format versions 1 and 2, plain secrets and         *)
(* key-versioned secret dictionaries.                                      *)
(*                                                                         *)
(* Tokens are byte sequences.  The MAC is symbolic (DESIGN 3.6): the       *)
(* signature of the id-th signing operation [alg, key, msg] (msg = the     *)
(* FLAT byte sequence fed to the MAC) is rendered as the symbols           *)
(* 1000*id + 1 .. 1000*id + W(alg), one symbol per hex digit.  A passed    *)
(* signature verifies iff it is exactly the symbol string of a table entry *)
(* with the same algorithm, key and flat message - so an ambiguity of the  *)
(* flat message (v1 has no delimiters) is visible to TLC, while nothing    *)
(* else about HMAC is assumed.  999 (FLIP) stands for "a different hex     *)
(* digit at this position".                                                *)
(*                                                                         *)
(* Create / Decode follow the documented formats.  Two verdicts are        *)
(* computed for every scenario: res = what the format's decoder returns,   *)
(* want = what property C23 demands (the original value for the unmodified *)
(* token decoded with the same name / secret inside the validity window,   *)
(* None for every other input).  res # want on the specification itself is *)
(* a design-level violation (F11, version 1).                              *)
(***************************************************************************)
EXTENDS ByteOps

CONSTANTS Names,        \* set of names (byte strings)
          Values,       \* set of values (byte strings)
          Times,        \* creation times (seconds, >= 1)
          Versions,     \* subset of {1, 2}
          SignCfgs,     \* secret configuration ids used for signing
          SignKvs,      \* key versions used for signing
          DecCfgs,      \* secret configuration ids used for decoding
          MaxAges,      \* max_age_days values
          MinVersions,  \* min_version values
          EditBytes,    \* replacement / inserted bytes
          SigPos,       \* signature digit positions that are edited (subset of 1..64)
          ShiftFwd,     \* name/token boundary shifts: up to ShiftFwd bytes from the token front to the name end,
          ShiftBack,    \*   up to ShiftBack bytes from the name end to the token front
          ArbAlpha,     \* alphabet of arbitrary strings
          ArbLen,       \* maximal length of arbitrary strings
          Modes,        \* subset of {"tok", "arb"}
          LongReps,     \* values Rep(k), k \in LongReps, are also signed (identity tamper, one decode)
          LongLens,     \* arbitrary inputs "1" x n followed by "|" / "|a|b", n \in LongLens (digit runs beyond int limits)
          W1, W2        \* number of hex digits of the v1 (SHA-1: 40) and v2 (SHA-256: 64) signature

(* constant sets that a cfg file cannot express (sequences); selected with `Names <- NamesA` ... *)
NamesA  == {<<110>>, <<110, 46>>}                                   \* "n", "n."
NamesB  == {<<110>>, <<110, 46>>, <<110, 89>>, <<>>}                \* + "nY", ""
ValuesA == {<<>>, <<97>>, <<97, 98, 99, 211, 77, 52>>, <<215, 109, 248>>}   \* "", "a", b64 = "YWJj0000", b64 = "1234"
(* k repetitions of the three bytes whose base64 is "1234": a legitimate value with a long all-digit payload *)
Rep(k) == [i \in 1..(3 * k) |-> <<215, 109, 248>>[((i - 1) % 3) + 1]]
ValuesV1 == {<<>>, <<97>>}
ValuesB == ValuesA \cup {<<97, 98>>, <<0, 255, 124, 58>>, <<215, 109, 248, 215, 109, 248>>}

PIPE  == 124
COLON == 58
FLIP  == 999
Day   == 86400
Shifts == {k \in (0 - ShiftBack)..ShiftFwd : k # 0}
W(alg) == IF alg = 1 THEN W1 ELSE W2

None    == <<"none">>
Lenient == <<"lenient">>       \* signature and all checks passed but the value field is not canonical
                               \* base64: the result is whatever the lenient library decoder yields (or None)
Val(v)  == <<"val", v>>

(* secret configurations; keys are small integers, the harness maps them to real secrets *)
SCfg(id) == CASE id = 1 -> [form |-> "plain", key |-> 1, keys |-> (0 :> 0)]
              [] id = 2 -> [form |-> "plain", key |-> 2, keys |-> (0 :> 0)]
              [] id = 3 -> [form |-> "dict",  key |-> 0, keys |-> (0 :> 1 @@ 1 :> 2)]
              [] id = 4 -> [form |-> "dict",  key |-> 0, keys |-> (0 :> 2 @@ 2 :> 1)]
IsDict(id) == SCfg(id).form = "dict"
SignKey(id, kv) == IF IsDict(id) THEN SCfg(id).keys[kv] ELSE SCfg(id).key
DecKey(id, kv)  == IF IsDict(id) THEN (IF kv \in DOMAIN SCfg(id).keys THEN SCfg(id).keys[kv] ELSE 0)
                   ELSE SCfg(id).key

SigSyms(id, alg) == [i \in 1..W(alg) |-> 1000 * id + i]
SigOK(passed, alg, key, msg, sigs) ==
    /\ key # 0
    /\ \E id \in 1..Len(sigs) : sigs[id] = [alg |-> alg, key |-> key, msg |-> msg] /\ passed = SigSyms(id, alg)

----------------------------------------------------------------------------
(* create_signed_value: id = index the new signature gets in the table *)
Field(s) == Dec(Len(s)) \o <<COLON>> \o s
Prefix2(kv, ts, name, b64v) ==
    <<50, PIPE>> \o Field(Dec(kv)) \o <<PIPE>> \o Field(ts) \o <<PIPE>> \o Field(name) \o <<PIPE>>
                 \o Field(b64v) \o <<PIPE>>
Create(c, id) ==
    LET b64v == B64Enc(c.value)
        ts   == Dec(c.t)
        key  == SignKey(c.scfg, c.kv) IN
    IF c.ver = 1
      THEN [tok |-> b64v \o <<PIPE>> \o ts \o <<PIPE>> \o SigSyms(id, 1),
            sig |-> [alg |-> 1, key |-> key, msg |-> c.name \o b64v \o ts]]
      ELSE LET p == Prefix2(c.kv, ts, c.name, b64v) IN
           [tok |-> p \o SigSyms(id, 2), sig |-> [alg |-> 2, key |-> key, msg |-> p]]

----------------------------------------------------------------------------
(* decode_signed_value *)
GetVersion(tok) ==
    LET p == Index(tok, PIPE) IN
    IF p <= 1 THEN 1
    ELSE LET d == SubSeq(tok, 1, p - 1) IN
         IF AllDigits(d) /\ d[1] # 48 /\ (\A i \in (p + 1)..(Len(tok) - 1) : tok[i] # 10)
           THEN (IF Len(d) > 3 THEN 1 ELSE ToNat(d))
           ELSE 1

ValueOf(b64v) == IF B64Canonical(b64v) THEN Val(B64Dec(b64v)) ELSE Lenient

DecodeV1(dcfg, name, tok, now, maxAge, sigs) ==
    LET parts == Split(tok, PIPE) IN
    IF Len(parts) # 3 THEN None
    ELSE IF IsDict(dcfg) THEN None      \* version 1 carries no key version: nothing verifies under a key dictionary
    ELSE IF ~SigOK(parts[3], 1, SCfg(dcfg).key, name \o parts[1] \o parts[2], sigs) THEN None
    ELSE IF ~(Len(parts[2]) > 0 /\ AllDigits(parts[2])) THEN None
    ELSE LET ts == ToNat(parts[2]) IN
         IF ts < now - maxAge * Day THEN None
         ELSE IF ts > now + 31 * Day THEN None
         ELSE IF parts[2][1] = 48 THEN None
         ELSE ValueOf(parts[1])

(* one length-prefixed field "n:bytes|" (decimal, no leading zeros) *)
Consume(s) ==
    LET c == Index(s, COLON) IN
    IF c <= 1 THEN [ok |-> FALSE, val |-> <<>>, rest |-> <<>>]
    ELSE LET ld == SubSeq(s, 1, c - 1) IN
         IF ~AllDigits(ld) \/ (Len(ld) > 1 /\ ld[1] = 48) \/ Len(ld) > 9 THEN [ok |-> FALSE, val |-> <<>>, rest |-> <<>>]
         ELSE LET n == ToNat(ld)
                  r == Drop(s, c) IN
              IF Len(r) < n + 1 \/ r[n + 1] # PIPE THEN [ok |-> FALSE, val |-> <<>>, rest |-> <<>>]
              ELSE [ok |-> TRUE, val |-> SubSeq(r, 1, n), rest |-> Drop(r, n + 1)]

DecodeV2(dcfg, name, tok, now, maxAge, sigs) ==
    LET f1 == Consume(Drop(tok, 2)) IN
    IF ~f1.ok THEN None ELSE
    LET f2 == Consume(f1.rest) IN
    IF ~f2.ok THEN None ELSE
    LET f3 == Consume(f2.rest) IN
    IF ~f3.ok THEN None ELSE
    LET f4 == Consume(f3.rest) IN
    IF ~f4.ok THEN None ELSE
    LET passed == f4.rest
        signed == SubSeq(tok, 1, Len(tok) - Len(passed)) IN
    IF ~(Len(f1.val) > 0 /\ AllDigits(f1.val) /\ Len(f1.val) <= 9) THEN None
    ELSE LET key == DecKey(dcfg, ToNat(f1.val)) IN
         IF ~SigOK(passed, 2, key, signed, sigs) THEN None
         ELSE IF f3.val # name THEN None
         ELSE IF ~(Len(f2.val) > 0 /\ AllDigits(f2.val)) THEN None
         ELSE IF ToNat(f2.val) < now - maxAge * Day THEN None
         ELSE ValueOf(f4.val)

Decode(dcfg, name, tok, now, maxAge, minVer, sigs) ==
    IF Len(tok) = 0 THEN None
    ELSE LET v == GetVersion(tok) IN
         IF v < minVer THEN None
         ELSE IF v = 1 THEN DecodeV1(dcfg, name, tok, now, maxAge, sigs)
         ELSE IF v = 2 THEN DecodeV2(dcfg, name, tok, now, maxAge, sigs)
         ELSE None

----------------------------------------------------------------------------
(* Scenarios: create (initial states), then tamper + decode (one step), or an arbitrary
   string built byte by byte (every prefix is decoded). *)
VARIABLES sc,     \* [mode, cr, tam, de]
          itok,   \* the issued token (kept only in the "create" state)
          arb,    \* mode "arb": the arbitrary string; mode "create": the flat message fed to the MAC
          exp     \* [res, want, len, sum, ver]: verdicts; length, checksum and detected format version of
                  \* the token handed to the decoder

vars == <<sc, itok, arb, exp>>
Sum(tok) == FoldLeft(LAMBDA acc, x : (acc * 31 + x) % 1000003, 7, tok)

Creates ==
    {c \in [name : Names, value : Values, t : Times, ver : Versions, scfg : SignCfgs, kv : SignKvs] :
        /\ c.ver = 1 => (~IsDict(c.scfg) /\ c.kv = 0)
        /\ IsDict(c.scfg) => c.kv \in DOMAIN SCfg(c.scfg).keys}

MaxOf(S) == CHOOSE x \in S : \A y \in S : x >= y
LongCreates == {[name |-> CHOOSE n \in Names : TRUE, value |-> Rep(k), t |-> MaxOf(Times), ver |-> v, scfg |-> 1, kv |-> 0] :
                  k \in LongReps, v \in Versions}
IsLong(c) == Len(c.value) > 100
IsSig(x) == x >= 1000
Pos(tok) == {i \in 1..Len(tok) : ~IsSig(tok[i]) \/ (tok[i] % 1000) \in SigPos}
NoTam == [op |-> "id", i |-> 0, b |-> 0]
LeadLit(tok) == LET sg == {i \in 1..Len(tok) : IsSig(tok[i])} IN
                IF sg = {} THEN Len(tok) ELSE (CHOOSE i \in sg : \A j \in sg : i <= j) - 1
Pipes(tok) == {i \in 1..Len(tok) : tok[i] = PIPE}

TamperOps(tok, name) ==
    {NoTam}
    \cup {[op |-> "edit", i |-> i, b |-> b] : i \in {j \in Pos(tok) : ~IsSig(tok[j])}, b \in EditBytes}
    \cup {[op |-> "edit", i |-> i, b |-> b] : i \in {j \in Pos(tok) : IsSig(tok[j])},
                                               b \in {FLIP} \cup {x \in EditBytes : ~IsHexDigit(x)}}
    \cup {[op |-> "ins", i |-> i, b |-> b] : i \in Pos(tok) \cup {Len(tok) + 1}, b \in EditBytes}
    \cup {[op |-> "del", i |-> i, b |-> 0] : i \in Pos(tok)}
    \cup {[op |-> "swap", i |-> i, b |-> j] : i \in 1..(Count(tok, PIPE) + 1), j \in 1..(Count(tok, PIPE) + 1)}
    \cup {[op |-> "move", i |-> i, b |-> j] : i \in Pipes(tok), j \in Pos(tok)}
    \cup {[op |-> "shift", i |-> k, b |-> 0] : k \in {s \in Shifts : IF s > 0 THEN s <= LeadLit(tok) ELSE -s <= Len(name)}}

Apply(tok, o) ==
    CASE o.op = "id"   -> tok
      [] o.op = "edit" -> [tok EXCEPT ![o.i] = o.b]
      [] o.op = "ins"  -> SubSeq(tok, 1, o.i - 1) \o <<o.b>> \o SubSeq(tok, o.i, Len(tok))
      [] o.op = "del"  -> SubSeq(tok, 1, o.i - 1) \o SubSeq(tok, o.i + 1, Len(tok))
      [] o.op = "swap" -> LET p == Split(tok, PIPE) IN Join([p EXCEPT ![o.i] = p[o.b], ![o.b] = p[o.i]], PIPE)
      [] o.op = "move" -> LET d == SubSeq(tok, 1, o.i - 1) \o SubSeq(tok, o.i + 1, Len(tok))   \* delete the pipe ...
                              j == IF o.b > o.i THEN o.b - 1 ELSE o.b IN                         \* ... re-insert before old position b
                          SubSeq(d, 1, j - 1) \o <<PIPE>> \o SubSeq(d, j, Len(d))
      [] o.op = "shift" -> IF o.i > 0 THEN Drop(tok, o.i) ELSE tok   \* negative: see ShiftedTok
ShiftedName(name, tok, k) == IF k > 0 THEN name \o Take(tok, k) ELSE SubSeq(name, 1, Len(name) + k)
ShiftedTok(name, tok, k)  == IF k > 0 THEN Drop(tok, k) ELSE SubSeq(name, Len(name) + k + 1, Len(name)) \o tok

Nows(t, maxAge) == {t, t + maxAge * Day, t + maxAge * Day + 1}

(* the full decode grid for the unmodified token, a reduced one for tampered tokens *)
Decodes(c, o, tok) ==
    IF IsLong(c)
      THEN {[name |-> c.name, now |-> c.t, maxAge |-> MaxOf(MaxAges), minVer |-> 1, dcfg |-> c.scfg]}
    ELSE IF o.op = "id"
      THEN {[name |-> n, now |-> w, maxAge |-> a, minVer |-> m, dcfg |-> d] :
              n \in Names \cup {c.name}, w \in UNION {Nows(c.t, x) : x \in MaxAges}, a \in MaxAges,
              m \in MinVersions, d \in DecCfgs}
    ELSE IF o.op = "shift"
      THEN {[name |-> ShiftedName(c.name, tok, o.i), now |-> c.t, maxAge |-> MaxOf(MaxAges), minVer |-> 1,
             dcfg |-> c.scfg]}
    ELSE {[name |-> n, now |-> c.t, maxAge |-> MaxOf(MaxAges), minVer |-> 1, dcfg |-> c.scfg] :
              n \in Names \cup {c.name}}

Want(c, tok, token, d) ==
    IF /\ token = tok
       /\ d.name = c.name
       /\ c.ver >= d.minVer
       /\ (c.ver = 1 => ~IsDict(d.dcfg))
       /\ DecKey(d.dcfg, c.kv) = SignKey(c.scfg, c.kv)
       /\ d.now >= c.t /\ d.now <= c.t + d.maxAge * Day
      THEN Val(c.value) ELSE None

DummyCr == [name |-> <<>>, value |-> <<>>, t |-> 1, ver |-> 2, scfg |-> 1, kv |-> 0]

DummyDe == [name |-> <<>>, now |-> 1, maxAge |-> 0, minVer |-> 1, dcfg |-> 1]
Verdicts(res, want, token) == [res |-> res, want |-> want, len |-> Len(token), sum |-> Sum(token),
                               ver |-> IF Len(token) = 0 THEN 0 ELSE GetVersion(token)]

CreateInit ==
    \E c \in Creates \cup LongCreates :
      /\ sc = [mode |-> "create", cr |-> c, tam |-> NoTam, de |-> DummyDe]
      /\ itok = Create(c, 1).tok
      /\ arb = Create(c, 1).sig.msg
      /\ exp = Verdicts(None, None, itok)

Scenario ==
    /\ sc.mode = "create"
    /\ LET c == sc.cr
           cr == Create(c, 1) IN
       \* long all-digit v1 value: also the first delimiter moved to the front, which makes the
       \* timestamp FIELD a verifying digit run beyond any integer conversion limit
       \E o \in (IF IsLong(c)
                  THEN {NoTam} \cup (IF c.ver = 1 THEN {[op |-> "move", i |-> Index(cr.tok, PIPE), b |-> 1]} ELSE {})
                  ELSE TamperOps(cr.tok, c.name)) :
         LET token == IF o.op = "shift" THEN ShiftedTok(c.name, cr.tok, o.i) ELSE Apply(cr.tok, o) IN
         \E d \in Decodes(c, o, cr.tok) :
           /\ (o.op # "id" => token # cr.tok)
           /\ sc' = [mode |-> "tok", cr |-> c, tam |-> o, de |-> d]
           /\ itok' = <<>>
           /\ arb' = <<>>
           /\ exp' = Verdicts(Decode(d.dcfg, d.name, token, d.now, d.maxAge, d.minVer, <<cr.sig>>),
                              Want(c, cr.tok, token, d), token)

ArbDe(dc, m) == [name |-> CHOOSE n \in Names : TRUE, now |-> MaxOf(Times), maxAge |-> MaxOf(MaxAges),
                 minVer |-> m, dcfg |-> dc]
ArbVerdicts(d, s) == Verdicts(Decode(d.dcfg, d.name, s, d.now, d.maxAge, d.minVer, <<>>), None, s)
ArbInit ==
    \E dc \in DecCfgs, m \in MinVersions :
      /\ sc = [mode |-> "arb", cr |-> DummyCr, tam |-> NoTam, de |-> ArbDe(dc, m)]
      /\ itok = <<>>
      /\ arb = <<>>
      /\ exp = ArbVerdicts(sc.de, <<>>)
(* digit runs longer than any integer conversion limit, followed by "|" or "|a|b" *)
LongTok(n, k) == [i \in 1..n |-> 49] \o (IF k = 1 THEN <<PIPE>> ELSE <<PIPE, 97, PIPE, 98>>)
ArbLongInit ==
    \E n \in LongLens, k \in {1, 2}, dc \in DecCfgs, m \in MinVersions :
      /\ sc = [mode |-> "arb", cr |-> DummyCr, tam |-> [op |-> "long", i |-> n, b |-> k], de |-> ArbDe(dc, m)]
      /\ itok = <<>>
      /\ arb = <<>>
      /\ exp = ArbVerdicts(sc.de, LongTok(n, k))
ArbPut ==
    /\ sc.mode = "arb" /\ sc.tam.op = "id"
    /\ Len(arb) < ArbLen
    /\ \E b \in ArbAlpha :
         /\ arb' = Append(arb, b)
         /\ exp' = ArbVerdicts(sc.de, arb')
    /\ UNCHANGED <<sc, itok>>

Init == \/ ("tok" \in Modes /\ CreateInit)
        \/ ("arb" \in Modes /\ (ArbInit \/ ArbLongInit))
Next == Scenario \/ ArbPut
Spec == Init /\ [][Next]_vars

----------------------------------------------------------------------------
(* Property C23 on the specification *)
IsResult(r) == r = None \/ r = Lenient \/ (Len(r) = 2 /\ r[1] = "val")
Totality == IsResult(exp.res)                       \* the decoder is defined on every input
IsV1 == sc.mode = "tok" /\ sc.cr.ver = 1
(* inside the validity window the original value comes back *)
RoundTrip == exp.want # None => exp.res = exp.want
(* every other input decodes to None - version 2 and arbitrary strings *)
NoForgeryV2 == ~IsV1 => (exp.want = None => exp.res = None)
(* ... and version 1 (violated by the format itself: F11).  NoForgeryV1 counts only definite
   forged values; NoForgeryV1Strict also counts acceptances whose value field is non-canonical
   base64 (the lenient library decoder then yields some byte string). *)
NoForgeryV1 == IsV1 => (exp.want = None => exp.res \in {None, Lenient})
NoForgeryV1Strict == IsV1 => (exp.want = None => exp.res = None)
(* what does hold for version 1: acceptance implies the same key and the same FLAT message,
   and a single-byte edit / insertion / deletion decoded under the original name is rejected *)
V1KeyBinding == (IsV1 /\ exp.res # None) => (~IsDict(sc.de.dcfg) /\ SCfg(sc.de.dcfg).key = SignKey(sc.cr.scfg, 0))
V1SingleEditSameName ==
    (IsV1 /\ sc.tam.op \in {"edit", "ins", "del", "swap"} /\ sc.de.name = sc.cr.name) => exp.res = None
=============================================================================
