---------------------------- MODULE Trace_SignedValue ----------------------------
(* Validates sessions recorded from the real create_signed_value / decode_signed_value.
   One ndjson line per trace: {"id":n, "cfg":{}, "ev":[{"a":"create"|"decode","args":[..],"obs":{..}}]}.
   create: args = [name, value, t, ver, scfg, kv]; obs.tok = the token (signature digits replaced by
           symbols by the harness, which recorded (alg, key, msg, digest) at the hmac boundary and
           re-computed the digest with the stdlib); obs.mac = [alg, key id, flat message].
   decode: args = [dcfg, name, token, now, maxAge, minVer]; obs.res = ["none"] | ["val", bytes] | ["raised", cls].
   Every created token must be exactly the documented format over the recorded flat message; every
   decode result must be what the format's decoder yields; RoundTrip / NoForgery (version 2) are
   evaluated on every decode against all tokens issued so far in the session. *)
EXTENDS SignedValue, Json, IOUtils, TLCExt
Traces == ndJsonDeserialize(IOEnv.TRACE_FILE)
Verbose == IOEnv.TRACE_VERBOSE = "1"
VARIABLES tid, l, sigs, issued, last
Ev == Traces[tid].ev
tvars == <<sc, itok, arb, exp, tid, l, sigs, issued, last>>

TraceInit ==
    /\ tid \in 1..Len(Traces)
    /\ l = 1
    /\ sigs = <<>>
    /\ issued = <<>>
    /\ last = [res |-> None, want |-> None, ver |-> 0]
    /\ sc = [mode |-> "trace", cr |-> DummyCr, tam |-> NoTam, de |-> DummyDe]
    /\ itok = <<>> /\ arb = <<>>
    /\ exp = Verdicts(None, None, <<>>)

IsEvent(a) == l <= Len(Ev) /\ Ev[l].a = a /\ l' = l + 1 /\ UNCHANGED <<tid, sc, itok, arb, exp>>

SigId(sig) == LET hit == {k \in 1..Len(sigs) : sigs[k] = sig} IN
              IF hit = {} THEN Len(sigs) + 1 ELSE CHOOSE k \in hit : \A j \in hit : k <= j

TrCreate ==
    /\ IsEvent("create")
    /\ LET a == Ev[l].args
           c == [name |-> a[1], value |-> a[2], t |-> a[3], ver |-> a[4], scfg |-> a[5], kv |-> a[6]]
           sig == Create(c, 1).sig
           id == SigId(sig)
           cr == Create(c, id) IN
       /\ Ev[l].obs.tok = cr.tok
       /\ Ev[l].obs.mac = <<sig.alg, sig.key, sig.msg>>
       /\ sigs' = IF id > Len(sigs) THEN Append(sigs, sig) ELSE sigs
       /\ issued' = Append(issued, [c |-> c, tok |-> cr.tok])
       /\ UNCHANGED last

WantT(d, token) ==
    LET hit == {k \in 1..Len(issued) : Want(issued[k].c, issued[k].tok, token, d) # None} IN
    IF hit = {} THEN None ELSE Val(issued[CHOOSE k \in hit : TRUE].c.value)

TrDecode ==
    /\ IsEvent("decode")
    /\ LET a == Ev[l].args
           d == [dcfg |-> a[1], name |-> a[2], now |-> a[4], maxAge |-> a[5], minVer |-> a[6]]
           token == a[3]
           res == Decode(d.dcfg, d.name, token, d.now, d.maxAge, d.minVer, sigs) IN
       /\ IF res = Lenient THEN Ev[l].obs.res[1] \in {"none", "val"} ELSE Ev[l].obs.res = res
       /\ last' = [res |-> res, want |-> WantT(d, token), ver |-> IF Len(token) = 0 THEN 0 ELSE GetVersion(token)]
       /\ UNCHANGED <<sigs, issued>>

TraceNext == TrCreate \/ TrDecode
TraceSpec == TraceInit /\ [][TraceNext]_tvars

TrRoundTrip == last.want # None => last.res = last.want
TrNoForgeryV2 == last.ver # 1 => (last.want = None => last.res = None)

Report == IF Verbose THEN PrintT(<<"AT", Traces[tid].id, l>>)
          ELSE (l = Len(Ev) + 1 => PrintT(<<"ACCEPT", Traces[tid].id>>))
=============================================================================
