SPECIFICATION TraceSpec
CONSTANTS
  Names <- NamesA
  Values <- ValuesA
  Times = {1}
  Versions = {1, 2}
  SignCfgs = {1}
  SignKvs = {0}
  DecCfgs = {1}
  MaxAges = {0}
  MinVersions = {1}
  EditBytes = {48}
  SigPos = {1}
  ShiftFwd = 0
  ShiftBack = 0
  ArbAlpha = {48}
  ArbLen = 0
  Modes = {"tok"}
  LongReps = {}
  LongLens = {}
  W1 = 40
  W2 = 64
CONSTRAINT Report
INVARIANT TrRoundTrip
INVARIANT TrNoForgeryV2
CHECK_DEADLOCK FALSE
