SPECIFICATION GenSpec
CONSTANTS
  NameSet <- NamesS
  ValueSet <- ValuesS
  AttrSet <- AttrsS
  MaxOps = 2
  Flags = FALSE
  FreeRaise = FALSE
  MaxCalls = 2
  L = 3
CONSTRAINT GenBound
INVARIANT Emitted
CHECK_DEADLOCK FALSE
