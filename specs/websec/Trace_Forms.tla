---------------------------- MODULE Trace_Forms ----------------------------
(* Validates recorded parses of randomly generated forms (one event per trace):
   parse: args = [enc, boundary, form]; obs = {body, result, fields, files}
   The body the harness sent must be exactly Encode(form) (so the random generator's encoder is
   itself checked against the specification), the boundary must occur only as delimiter, and the
   real parser must have returned exactly the form. *)
EXTENDS Forms, Json, IOUtils, TLCExt
Traces == ndJsonDeserialize(IOEnv.TRACE_FILE)
Verbose == IOEnv.TRACE_VERBOSE = "1"
VARIABLES tid, l
Ev == Traces[tid].ev
tvars == <<sc, body, exp, tid, l>>
TraceInit == /\ tid \in 1..Len(Traces) /\ l = 1
             /\ sc = [mode |-> "trace"] /\ body = <<>> /\ exp = [verdict |-> "none"]
IsEvent(a) == l <= Len(Ev) /\ Ev[l].a = a /\ l' = l + 1 /\ UNCHANGED <<tid, sc, body, exp>>
TrParse ==
    /\ IsEvent("parse")
    /\ LET a == Ev[l].args
           f == a[3]
           o == Ev[l].obs
           enc == IF a[1] = "url" THEN EncodeUrl(f) ELSE EncodeMultipartB(a[2], f) IN
       /\ o.body = enc
       /\ a[1] = "mp" => CountSub(enc, <<DASH, DASH>> \o a[2]) = Len(f) + 1
       /\ o.result = "ok"
       /\ o.fields = Expected(f).fields
       /\ o.files = Expected(f).files
TraceNext == TrParse
TraceSpec == TraceInit /\ [][TraceNext]_tvars
Report == IF Verbose THEN PrintT(<<"AT", Traces[tid].id, l>>)
          ELSE (l = Len(Ev) + 1 => PrintT(<<"ACCEPT", Traces[tid].id>>))
=============================================================================
