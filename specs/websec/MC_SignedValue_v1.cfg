SPECIFICATION Spec
CONSTANTS
  Names <- NamesA
  Values <- ValuesV1
  Times = {1234567}
  Versions = {1}
  SignCfgs = {1}
  SignKvs = {0}
  DecCfgs = {1, 2}
  MaxAges = {31}
  MinVersions = {1}
  EditBytes = {46}
  SigPos = {1, 8}
  ShiftFwd = 4
  ShiftBack = 2
  ArbAlpha = {48}
  ArbLen = 0
  Modes = {"tok"}
  LongReps = {}
  LongLens = {}
  W1 = 8
  W2 = 8
INVARIANT NoForgeryV1
CHECK_DEADLOCK FALSE
