SPECIFICATION TraceSpec
CONSTANTS
  Masks = {1}
  Ts = {5}
  EditBytes = {48}
  ArbAlpha = {48}
  ArbTokLen = 0
  ArbPairLen = 0
  Carriers = {"form"}
  Handlers = {"plain", "stream"}
  Methods = {"POST"}
CONSTRAINT Report
INVARIANT TrRendered
CHECK_DEADLOCK FALSE
