-------------------------------- MODULE Xsrf --------------------------------
(***************************************************************************)
(* XSRF protection (property C24): RequestHandler.xsrf_token,              *)
(* _decode_xsrf_token, check_xsrf_cookie.                                  *)
(*                                                                         *)
(* Strings are sequences of code points, secrets / masks are byte          *)
(* sequences.  Token formats:                                              *)
(*   version 1:  hex(secret)   (or, when not a hex string, the raw text    *)
(*               itself is the secret - the documented fallback)           *)
(*   version 2:  "2|" hex(mask) "|" hex(mask xor secret) "|" decimal time  *)
(*               with a 4-byte mask.                                       *)
(* A request with a method other than GET/HEAD/OPTIONS reaches the handler *)
(* iff the token it carries decodes to the same NON-EMPTY secret as the    *)
(* _xsrf cookie; an absent / undecodable cookie matches nothing (the       *)
(* server draws a fresh random secret).  Rejection is 403.                 *)
(***************************************************************************)
EXTENDS ByteOps

CONSTANTS Masks,        \* indices into MaskTab
          Ts,           \* timestamps
          EditBytes,    \* replacement / inserted characters of single-character mutations
          ArbAlpha,     \* alphabet of arbitrary strings
          ArbTokLen,    \* arbitrary tokens up to this length (against issued cookies)
          ArbPairLen,   \* arbitrary cookie x arbitrary token pairs up to this length each
          Carriers,     \* subset of {"form", "xsrfheader", "csrfheader"}
          Handlers,     \* subset of {"plain", "stream"}: ordinary handler / @stream_request_body handler
          Methods       \* subset of {"POST", "PUT", "DELETE", "PATCH", "GET", "HEAD", "OPTIONS"}

PIPE == 124
S1 == <<171, 205>>          \* this session's secret ("abcd" in hex)
S2 == <<18, 52>>            \* another session's secret
MaskTab == << <<1, 2, 3, 4>>, <<255, 0, 170, 85>>, <<171, 205, 171, 205>> >>   \* the third one masks S1 to zero

XorMask(mask, bs) == [i \in 1..Len(bs) |-> XorByte(bs[i], mask[((i - 1) % 4) + 1])]

IssueV1(secret) == HexEnc(secret)
IssueV2(secret, mask, t) == <<50, PIPE>> \o HexEnc(mask) \o <<PIPE>> \o HexEnc(XorMask(mask, secret)) \o <<PIPE>> \o Dec(t)
Issue(ver, secret, mask, t) == IF ver = 1 THEN IssueV1(secret) ELSE IssueV2(secret, mask, t)

(* _decode_xsrf_token: [ok, tok, ts]; ok = FALSE means "no usable token" *)
Undecodable == [ok |-> FALSE, ver |-> 0, tok |-> <<>>, ts |-> 0]
HasVersionPrefix(s) ==
    LET p == Index(s, PIPE) IN
    /\ p > 1
    /\ AllDigits(SubSeq(s, 1, p - 1))
    /\ s[1] # 48
    /\ \A i \in (p + 1)..(Len(s) - 1) : s[i] # 10
DecodeToken(s) ==
    IF HasVersionPrefix(s)
      THEN IF ToNat(SubSeq(s, 1, Index(s, PIPE) - 1)) # 2 THEN Undecodable
           ELSE LET parts == Split(s, PIPE) IN
                IF Len(parts) # 4 THEN Undecodable
                ELSE IF ~(IsHexString(parts[2]) /\ Len(parts[2]) = 8) THEN Undecodable
                ELSE IF ~IsHexString(parts[3]) THEN Undecodable
                ELSE IF ~(Len(parts[4]) > 0 /\ AllDigits(parts[4])) THEN Undecodable
                ELSE [ok |-> TRUE, ver |-> 2, tok |-> XorMask(HexDec(parts[2]), HexDec(parts[3])), ts |-> ToNat(parts[4])]
      ELSE IF IsHexString(s) /\ (\A i \in 1..Len(s) : s[i] < 128)
             THEN [ok |-> TRUE, ver |-> 1, tok |-> HexDec(s), ts |-> 0]
             ELSE [ok |-> TRUE, ver |-> 1, tok |-> s, ts |-> 0]     \* raw fallback (ASCII alphabets: utf8 = identity)

Checked(method) == method \notin {"GET", "HEAD", "OPTIONS"}

(* check_xsrf_cookie *)
Accepts(cookie, token) ==
    /\ Len(token) > 0
    /\ LET t == DecodeToken(token) IN
       /\ t.ok /\ Len(t.tok) > 0
       /\ Len(cookie) > 0
       /\ LET c == DecodeToken(cookie) IN c.ok /\ c.tok = t.tok

Outcome(cookie, token, method) ==
    IF ~Checked(method) \/ Accepts(cookie, token) THEN [status |-> 200, ran |-> TRUE]
    ELSE [status |-> 403, ran |-> FALSE]

(* xsrf_token issuance for a request carrying `cookie`: rnd = secret drawn if a new one is
   needed, mask = mask drawn for a version-2 output, now = clock.  Result: the token and the
   Set-Cookie value (<<>> = no cookie set). *)
Issuance(cookie, outver, rnd, mask, now) ==
    LET c == IF Len(cookie) > 0 THEN DecodeToken(cookie) ELSE Undecodable
        fresh == ~c.ok
        secret == IF fresh THEN rnd ELSE c.tok
        ts == IF fresh \/ c.ver = 1 THEN now ELSE c.ts
        tok == Issue(outver, secret, mask, ts) IN
    [token |-> tok, setcookie |-> IF fresh THEN tok ELSE <<>>]

----------------------------------------------------------------------------
(* Scenarios *)
VARIABLES sc, exp
vars == <<sc, exp>>

Muts(s) ==
    {[s EXCEPT ![i] = b] : i \in 1..Len(s), b \in EditBytes}
    \cup {SubSeq(s, 1, i - 1) \o <<b>> \o SubSeq(s, i, Len(s)) : i \in 1..(Len(s) + 1), b \in EditBytes}
    \cup {SubSeq(s, 1, i - 1) \o SubSeq(s, i + 1, Len(s)) : i \in 1..Len(s)}
Arb(n) == UNION {[1..k -> ArbAlpha] : k \in 0..n}
IssuedBy(secret) == {IssueV1(secret)} \cup {IssueV2(secret, MaskTab[m], t) : m \in Masks, t \in Ts}
Tag(kind, s) == [kind |-> kind, s |-> s]

(* version-2 strings that decode to the EMPTY secret (never acceptable) *)
Empties == {IssueV2(<<>>, MaskTab[m], t) : m \in Masks, t \in Ts}
CookiesOf ==
    {Tag("issued", s) : s \in IssuedBy(S1)}
    \cup {Tag("empty", s) : s \in Empties}
    \cup {Tag("mut", s) : s \in (UNION {Muts(x) : x \in IssuedBy(S1)}) \ IssuedBy(S1)}
    \cup {Tag("arb", s) : s \in Arb(ArbPairLen) \ IssuedBy(S1)}
TokensFor(ck) ==
    IF ck.kind = "issued"
      THEN {Tag("issued", s) : s \in IssuedBy(S1)}
           \cup {Tag("other", s) : s \in IssuedBy(S2)}
           \cup {Tag("mut", s) : s \in (UNION {Muts(x) : x \in IssuedBy(S1)}) \ IssuedBy(S1)}
           \cup {Tag("arb", s) : s \in Arb(ArbTokLen) \ IssuedBy(S1)}
           \cup {Tag("empty", s) : s \in Empties}
    ELSE IF ck.kind = "empty"
      THEN {Tag("empty", s) : s \in Empties} \cup {Tag("issued", s) : s \in IssuedBy(S1)}
    ELSE IF ck.kind = "mut"
      THEN {Tag("issued", s) : s \in IssuedBy(S1)}
    ELSE {Tag("arb", s) : s \in Arb(ArbPairLen)} \cup {Tag("issued", s) : s \in IssuedBy(S1)}

CookieInit ==
    \E ck \in CookiesOf :
      /\ sc = [mode |-> "cookie", cookie |-> ck, token |-> Tag("none", <<>>), carrier |-> "none", method |-> "none",
               handler |-> "plain", iss |-> <<>>]
      /\ exp = [status |-> 0, ran |-> FALSE, token |-> <<>>, setcookie |-> <<>>]

Post ==
    /\ sc.mode = "cookie"
    /\ \E tk \in TokensFor(sc.cookie), ca \in Carriers, me \in Methods, hd \in Handlers :
         \* a streaming handler is checked before any body is read: header carriers, representative tokens
         /\ (hd = "stream" => (ca # "form" /\ me = "POST" /\ tk.kind \in {"issued", "other", "empty"} /\ sc.cookie.kind # "mut"))
         /\ (me # "POST" => (ca = "form" /\ tk.kind \in {"issued", "other"}))      \* other methods: a representative subset
         /\ (ca # "form" => sc.cookie.kind # "arb")                                 \* arbitrary pairs: form field only
         /\ sc' = [sc EXCEPT !.mode = "post", !.token = tk, !.carrier = ca, !.method = me, !.handler = hd]
         /\ LET o == Outcome(sc.cookie.s, tk.s, me) IN
            exp' = [status |-> o.status, ran |-> o.ran, token |-> <<>>, setcookie |-> <<>>]

(* issuance: a GET that renders xsrf_token, with output version v, fresh secret S2, mask m, clock t *)
IssueStep ==
    /\ sc.mode = "cookie"
    /\ \E v \in {1, 2}, m \in Masks, t \in Ts :
         /\ sc' = [sc EXCEPT !.mode = "issue", !.iss = <<v, m, t>>]
         /\ LET r == Issuance(sc.cookie.s, v, S2, MaskTab[m], t) IN
            exp' = [status |-> 200, ran |-> TRUE, token |-> r.token, setcookie |-> r.setcookie]

Init == CookieInit
Next == Post \/ IssueStep
Spec == Init /\ [][Next]_vars

----------------------------------------------------------------------------
(* Property C24 on the specification *)
IsPost == sc.mode = "post" /\ Checked(sc.method)
(* every token the application issues for the session's cookie is accepted with that cookie:
   any output version, any mask (the cookie itself was issued under some version / mask) *)
IssuedAccepted == (IsPost /\ sc.cookie.kind = "issued" /\ sc.token.kind = "issued") => exp.ran
(* another session's tokens never pass *)
OtherRejected == (IsPost /\ sc.token.kind = "other") => ~exp.ran
(* acceptance implies both sides decode to the same non-empty secret *)
AcceptSound == (IsPost /\ exp.ran) =>
                  LET t == DecodeToken(sc.token.s)
                      c == DecodeToken(sc.cookie.s) IN
                  t.ok /\ c.ok /\ t.tok = c.tok /\ Len(t.tok) > 0
(* the empty secret is never accepted *)
EmptyRejected == (IsPost /\ (sc.token.kind = "empty" \/ sc.cookie.kind = "empty")) => ~exp.ran
(* never a server error, 403 exactly on rejection *)
StatusOK == sc.mode = "post" => ((exp.ran /\ exp.status = 200) \/ (~exp.ran /\ exp.status = 403))
(* unchecked methods always reach the handler *)
SafeMethods == (sc.mode = "post" /\ ~Checked(sc.method)) => exp.ran
(* a token rendered for a request is accepted together with the cookie the client then holds
   (the cookie it sent, or the one set by that response) *)
RenderedAccepted ==
    (sc.mode = "issue" /\ (LET c == DecodeToken(sc.cookie.s) IN (Len(sc.cookie.s) > 0 /\ c.ok) => Len(c.tok) > 0)) =>
      LET held == IF Len(exp.setcookie) > 0 THEN exp.setcookie ELSE sc.cookie.s IN
      Accepts(held, exp.token)
=============================================================================
