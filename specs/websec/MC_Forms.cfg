SPECIFICATION Spec
CONSTANTS
  TextSet <- Texts2
  DataSet <- Datas3
  UrlNameSet <- UrlNames2
  EditBytes = {0, 45, 13, 10, 34, 59, 61, 37, 255, 97}
  MutStride = 1
  ArbAlpha = {45, 98, 13, 10, 61, 37}
  ArbLen = 5
INVARIANT BoundaryUnique
INVARIANT UrlClean
INVARIANT HeadersOneLine
CHECK_DEADLOCK FALSE
