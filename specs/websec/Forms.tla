------------------------------- MODULE Forms -------------------------------
(***************************************************************************)
(* Form bodies (property C30): httputil.parse_body_arguments /             *)
(* parse_multipart_form_data / _parse_header / ParseMultipartConfig.       *)
(*                                                                         *)
(* The ENCODER is the specification: an abstract form (a sequence of       *)
(* fields and file uploads) is rendered as application/x-www-form-         *)
(* urlencoded or as multipart/form-data (parameters as quoted-string with  *)
(* backslash escaping, or as RFC 2231 extended parameters), and the        *)
(* property is Parse(Encode(f)) = f.  For every other body (single-byte    *)
(* mutations of encoded bodies, arbitrary short bodies) parsing must       *)
(* return or raise HTTPInputError ("clean"); part-count and part-header-   *)
(* size limits must be enforced.                                           *)
(*                                                                         *)
(* Names / filenames are texts (code point sequences, UTF-8 on the wire);  *)
(* urlencoded names are byte strings (the parser documents its keys as the *)
(* latin-1 reading of the bytes); contents are byte strings.               *)
(***************************************************************************)
EXTENDS ByteOps

CONSTANTS TextSet,      \* names / filenames varied in multipart forms (texts, non-empty)
          DataSet,      \* contents varied
          UrlNameSet,   \* urlencoded names (byte strings)
          EditBytes,    \* bytes used by single-byte mutations
          MutStride,    \* mutate every MutStride-th position (1 = all)
          ArbAlpha, ArbLen

StrUpTo(alpha, n) == UNION {[1..k -> alpha] : k \in 0..n}
TextAlpha  == {97, 32, 34, 92, 59, 61, 233}                 \* a SP " \ ; = e-acute
TextAlphaX == TextAlpha \cup {13, 10, 37, 39, 42}           \* + CR LF % ' *   (RFC 2231 only)
Texts1 == StrUpTo(TextAlpha, 1) \ {<<>>}
Texts2 == StrUpTo(TextAlpha, 2) \ {<<>>}
Texts3 == StrUpTo(TextAlpha, 3) \ {<<>>}
TextsX2 == StrUpTo(TextAlphaX, 2) \ {<<>>}
DataAlpha == {97, 13, 10, 45}                                \* a CR LF -
Datas2 == StrUpTo(DataAlpha, 2)
Datas3 == StrUpTo(DataAlpha, 3)
Datas4 == StrUpTo(DataAlpha, 4)
UrlAlpha == {97, 32, 38, 61, 43, 37, 233, 0}                 \* a SP & = + % 0xE9 NUL
UrlNames1 == StrUpTo(UrlAlpha, 1)
UrlNames2 == StrUpTo(UrlAlpha, 2)

CR == 13  LF == 10  DQ == 34  BS == 92  DASH == 45
CRLF == <<13, 10>>
Boundary == <<98, 55>>                                       \* "b7": 'b' is not in the content alphabet
Delim == <<DASH, DASH>> \o Boundary

S(str) == str    \* (documentation aid: byte strings below are written as tuples)
UTF8C(c) == IF c < 128 THEN <<c>> ELSE IF c < 2048 THEN <<192 + (c \div 64), 128 + (c % 64)>>
            ELSE <<224 + (c \div 4096), 128 + ((c \div 64) % 64), 128 + (c % 64)>>
UTF8(t) == Concat([i \in 1..Len(t) |-> UTF8C(t[i])])
HexU(n) == IF n < 10 THEN 48 + n ELSE 55 + n
Pct(b) == <<37, HexU(b \div 16), HexU(b % 16)>>

(* parameter value as quoted-string (backslash escaping of " and \) *)
QString(t) == <<DQ>> \o Concat([i \in 1..Len(t) |-> IF t[i] = DQ \/ t[i] = BS THEN <<BS, t[i]>> ELSE UTF8C(t[i])]) \o <<DQ>>
(* parameter value as RFC 2231 / 5987 extended value: utf-8''pct-encoded *)
AttrChar(b) == IsAlpha(b) \/ IsDigit(b) \/ b \in {33, 35, 36, 38, 43, 45, 46, 94, 95, 96, 124, 126}
ExtValue(t) == <<117, 116, 102, 45, 56, 39, 39>> \o
               (LET u == UTF8(t) IN Concat([i \in 1..Len(u) |-> IF AttrChar(u[i]) THEN <<u[i]>> ELSE Pct(u[i])]))
Param(pname, t, enc) == IF enc = "q" THEN pname \o <<61>> \o QString(t) ELSE pname \o <<42, 61>> \o ExtValue(t)

NAME == <<110, 97, 109, 101>>
FILENAME == <<102, 105, 108, 101, 110, 97, 109, 101>>
CDISP == <<67, 111, 110, 116, 101, 110, 116, 45, 68, 105, 115, 112, 111, 115, 105, 116, 105, 111, 110, 58, 32,
           102, 111, 114, 109, 45, 100, 97, 116, 97, 59, 32>>          \* "Content-Disposition: form-data; "
CTYPE == <<67, 111, 110, 116, 101, 110, 116, 45, 84, 121, 112, 101, 58, 32>>   \* "Content-Type: "
TEXTPLAIN == <<116, 101, 120, 116, 47, 112, 108, 97, 105, 110>>
UNKNOWN == <<97, 112, 112, 108, 105, 99, 97, 116, 105, 111, 110, 47, 117, 110, 107, 110, 111, 119, 110>>

(* header block of one part (without the blank line) *)
PartHead(p) ==
    CDISP \o Param(NAME, p.name, p.ne)
    \o (IF p.kind = "file" THEN <<59, 32>> \o Param(FILENAME, p.fname, p.fe) ELSE <<>>)
    \o (IF p.ct THEN CRLF \o CTYPE \o TEXTPLAIN ELSE <<>>)
PartBytesB(bd, p) == <<DASH, DASH>> \o bd \o CRLF \o PartHead(p) \o CRLF \o CRLF \o p.data \o CRLF
EncodeMultipartB(bd, f) == Concat([i \in 1..Len(f) |-> PartBytesB(bd, f[i])]) \o <<DASH, DASH>> \o bd \o <<DASH, DASH>> \o CRLF
EncodeMultipart(f) == EncodeMultipartB(Boundary, f)

UrlByte(b) == IF IsAlpha(b) \/ IsDigit(b) \/ b \in {45, 46, 95, 126} THEN <<b>> ELSE IF b = 32 THEN <<43>> ELSE Pct(b)
UrlStr(bs) == Concat([i \in 1..Len(bs) |-> UrlByte(bs[i])])
EncodeUrl(f) == IF Len(f) = 0 THEN <<>>
                ELSE Join([i \in 1..Len(f) |-> UrlStr(f[i].name) \o <<61>> \o UrlStr(f[i].data)], 38)

MPTYPE == <<109, 117, 108, 116, 105, 112, 97, 114, 116, 47, 102, 111, 114, 109, 45, 100, 97, 116, 97, 59, 32,
            98, 111, 117, 110, 100, 97, 114, 121, 61>>            \* "multipart/form-data; boundary="
URLTYPE == <<97, 112, 112, 108, 105, 99, 97, 116, 105, 111, 110, 47, 120, 45, 119, 119, 119, 45, 102, 111, 114, 109,
             45, 117, 114, 108, 101, 110, 99, 111, 100, 101, 100>>
ContentTypeB(enc, quoted, bd) == IF enc = "url" THEN URLTYPE
                                 ELSE IF quoted THEN MPTYPE \o <<DQ>> \o bd \o <<DQ>> ELSE MPTYPE \o bd
ContentType(enc, quoted) == ContentTypeB(enc, quoted, Boundary)
(* boundaries (RFC 2046 bchars).  Those containing tspecials - '=' included, as in Python's
   "===============...==" - must travel as a quoted parameter; plain ones may be sent either way.
   None of them can occur in content (DataAlpha has no 'b' / 'x'). *)
TSpecial(c) == c \in {40, 41, 60, 62, 64, 44, 59, 58, 92, 34, 47, 91, 93, 63, 61}
BoundarySet == {Boundary,
                <<98, 95, 45, 46, 43, 39, 55>>,                                   \* b_-.+'7
                <<97, 61, 98>>,                                                   \* a=b
                <<61, 61, 61, 61, 120, 61, 61>>,                                  \* ====x==
                <<39, 40, 41, 43, 95, 44, 45, 46, 47, 58, 61, 63, 120>>}          \* '()+_,-./:=?x
NeedsQuote(bd) == \E i \in 1..Len(bd) : TSpecial(bd[i])
ArbContentType(enc) == IF enc = "url" THEN URLTYPE ELSE MPTYPE \o <<98>>      \* arbitrary bodies: boundary "b"

(* what parsing must deliver: fields and files in form order *)
Expected(f) ==
    [fields |-> [i \in 1..Len(SelectSeq(f, LAMBDA p : p.kind = "field")) |->
                    LET p == SelectSeq(f, LAMBDA q : q.kind = "field")[i] IN <<p.name, p.data>>],
     files  |-> [i \in 1..Len(SelectSeq(f, LAMBDA p : p.kind = "file")) |->
                    LET p == SelectSeq(f, LAMBDA q : q.kind = "file")[i] IN
                    <<p.name, p.fname, IF p.ct THEN TEXTPLAIN ELSE UNKNOWN, p.data>>]]

----------------------------------------------------------------------------
Field(n, e, d) == [kind |-> "field", name |-> n, ne |-> e, fname |-> <<>>, fe |-> "q", ct |-> FALSE, data |-> d]
File(n, fn, e, c, d) == [kind |-> "file", name |-> n, ne |-> "q", fname |-> fn, fe |-> e, ct |-> c, data |-> d]
A1 == <<97>>
V1 == <<118>>
QOK(t) == \A i \in 1..Len(t) : t[i] \notin {13, 10}       \* quoted-string cannot carry a line break
Encs(t) == IF QOK(t) THEN {"q", "x"} ELSE {"x"}

(* multipart forms: one dimension varied at a time, plus two-part combinations *)
MpForms ==
    {<<Field(n, e, V1)>> : n \in TextSet, e \in {"q", "x"}}
    \cup {<<Field(n, "x", V1)>> : n \in TextsX2}
    \cup {<<Field(A1, "q", d)>> : d \in DataSet}
    \cup {<<File(<<102>>, fn, e, c, <<120>>)>> : fn \in TextSet, e \in {"q", "x"}, c \in BOOLEAN}
    \cup {<<File(<<102>>, fn, "x", FALSE, <<120>>)>> : fn \in TextsX2}
    \cup {<<File(n, A1, "q", FALSE, <<120>>)>> : n \in TextSet}          \* quoted name followed by another parameter
    \cup {<<File(<<102>>, A1, "q", TRUE, d)>> : d \in DataSet}
    \cup {<<p, q>> : p \in {Field(A1, "q", V1), Field(<<98>>, "x", <<>>), File(<<102>>, A1, "q", FALSE, <<120>>)},
                     q \in {Field(A1, "q", <<119>>), Field(<<99, 233>>, "q", CRLF), File(<<102>>, <<233>>, "x", TRUE, <<>>),
                            File(A1, <<98, 32, 99>>, "q", FALSE, <<45, 45>>)}}
    \cup {<<>>}
UrlForms ==
    {<<Field(n, "q", V1)>> : n \in UrlNameSet}
    \cup {<<Field(A1, "q", d)>> : d \in UrlNameSet \cup DataSet}
    \cup {<<p, q>> : p \in {Field(A1, "q", V1), Field(<<>>, "q", <<>>)}, q \in {Field(A1, "q", <<>>), Field(<<98>>, "q", <<38>>)}}
    \cup {<<>>}

(* bodies whose single-byte mutations are explored *)
MutBases ==
    {[enc |-> "mp", form |-> <<Field(A1, "q", V1), File(<<102>>, <<98, 34>>, "q", TRUE, <<120, 13, 10>>)>>],
     [enc |-> "mp", form |-> <<File(<<102>>, <<233, 32>>, "x", FALSE, <<45>>)>>],
     [enc |-> "url", form |-> <<Field(A1, "q", <<233, 32>>), Field(<<98, 61>>, "q", <<>>)>>]}

VARIABLES sc,      \* [mode, enc, quoted, bd, ctype, form, mut, maxParts, maxHdr]
          body,    \* encoded body (kept in "form" states only)
          exp      \* [verdict, fields, files, len, sum]
vars == <<sc, body, exp>>
Sum(bs) == FoldLeft(LAMBDA acc, x : (acc * 31 + x) % 1000003, 7, bs)
NoMut == [op |-> "id", i |-> 0, b |-> 0]
NoLimit == 100000
Encode(enc, f) == IF enc = "url" THEN EncodeUrl(f) ELSE EncodeMultipart(f)
Verdict(v, f, bs) == [verdict |-> v, fields |-> Expected(f).fields, files |-> Expected(f).files, len |-> Len(bs), sum |-> Sum(bs)]

FormInit ==
    \E enc \in {"mp", "url"} :
      \E f \in (IF enc = "mp" THEN MpForms ELSE UrlForms), q \in BOOLEAN, bd \in BoundarySet :
        /\ ((q \/ bd # Boundary) => (enc = "mp" /\ Len(f) = 2))      \* boundary variants: two-part forms only
        /\ (NeedsQuote(bd) => q)
        /\ sc = [mode |-> "form", enc |-> enc, quoted |-> q, bd |-> bd, ctype |-> ContentTypeB(enc, q, bd), form |-> f, mut |-> NoMut, maxParts |-> NoLimit, maxHdr |-> NoLimit]
        /\ body = (IF enc = "url" THEN EncodeUrl(f) ELSE EncodeMultipartB(bd, f))
        /\ exp = Verdict("form", f, body)

MutInit ==
    \E b \in MutBases :
        /\ sc = [mode |-> "base", enc |-> b.enc, quoted |-> FALSE, bd |-> Boundary, ctype |-> ContentType(b.enc, FALSE), form |-> b.form, mut |-> NoMut, maxParts |-> NoLimit, maxHdr |-> NoLimit]
        /\ body = Encode(b.enc, b.form)
        /\ exp = Verdict("form", b.form, body)

ApplyMut(bs, o) ==
    CASE o.op = "edit" -> [bs EXCEPT ![o.i] = o.b]
      [] o.op = "ins"  -> SubSeq(bs, 1, o.i - 1) \o <<o.b>> \o SubSeq(bs, o.i, Len(bs))
      [] o.op = "del"  -> SubSeq(bs, 1, o.i - 1) \o SubSeq(bs, o.i + 1, Len(bs))

(* every single-byte mutation of a base body: parsing must stay clean *)
Mutate ==
    /\ sc.mode = "base"
    /\ \E op \in {"edit", "ins", "del"}, i \in {k \in 1..(Len(body) + 1) : k % MutStride = 0}, b \in EditBytes :
         /\ (op # "ins" => i <= Len(body))
         /\ (op = "del" => b = CHOOSE x \in EditBytes : TRUE)
         /\ (op = "edit" => body[i] # b)
         /\ LET o == [op |-> op, i |-> i, b |-> b]
                m == ApplyMut(body, o) IN
            /\ sc' = [sc EXCEPT !.mode = "mut", !.mut = o]
            /\ body' = <<>>
            /\ exp' = [verdict |-> "clean", fields |-> <<>>, files |-> <<>>, len |-> Len(m), sum |-> Sum(m)]

(* arbitrary short bodies under both content types, built byte by byte *)
ArbInit ==
    \E enc \in {"mp", "url"} :
        /\ sc = [mode |-> "arb", enc |-> enc, quoted |-> FALSE, bd |-> <<98>>, ctype |-> ArbContentType(enc), form |-> <<>>, mut |-> NoMut, maxParts |-> NoLimit, maxHdr |-> NoLimit]
        /\ body = <<>>
        /\ exp = [verdict |-> "clean", fields |-> <<>>, files |-> <<>>, len |-> 0, sum |-> Sum(<<>>)]
ArbPut ==
    /\ sc.mode = "arb" /\ Len(body) < ArbLen
    /\ \E b \in ArbAlpha :
         /\ body' = Append(body, b)
         /\ exp' = [exp EXCEPT !.len = Len(body'), !.sum = Sum(body')]
    /\ UNCHANGED sc

(* limits: n parts against max_parts around n; header size h against max_part_header_size around h.
   The property does not pin the exact count: a body must be accepted when it is within the limit
   under every reading (the count may or may not include the preamble element, the header size may
   or may not include the blank line) and rejected when it is beyond it under every reading;
   in between the verdict is free. *)
HeadLen(f) == LET hs == {Len(PartHead(f[i])) : i \in 1..Len(f)} IN CHOOSE x \in hs : \A y \in hs : x >= y
Limits ==
    /\ sc.mode = "form" /\ sc.enc = "mp" /\ Len(sc.form) = 2 /\ ~sc.quoted /\ sc.bd = Boundary
    /\ LET n == Len(sc.form)
           h == HeadLen(sc.form) IN
       \E c \in {[mp |-> n - 1, mh |-> NoLimit, v |-> "error"], [mp |-> n, mh |-> NoLimit, v |-> "free"],
                 [mp |-> n + 1, mh |-> NoLimit, v |-> "form"], [mp |-> 0, mh |-> NoLimit, v |-> "error"],
                 [mp |-> NoLimit, mh |-> h - 1, v |-> "error"], [mp |-> NoLimit, mh |-> h, v |-> "free"],
                 [mp |-> NoLimit, mh |-> h + 4, v |-> "form"], [mp |-> NoLimit, mh |-> 1, v |-> "error"]} :
         /\ sc' = [sc EXCEPT !.mode = "limit", !.maxParts = c.mp, !.maxHdr = c.mh]
         /\ body' = body
         /\ exp' = [exp EXCEPT !.verdict = c.v]

Init == FormInit \/ MutInit \/ ArbInit
Next == Mutate \/ ArbPut \/ Limits
Spec == Init /\ [][Next]_vars

----------------------------------------------------------------------------
(* sanity of the encoder itself (checked by TLC on every generated form) *)
(* the delimiter occurs exactly once per part plus the final one, i.e. never inside content *)
CountSub(s, sub) == Cardinality({i \in 1..(Len(s) - Len(sub) + 1) : SubSeq(s, i, i + Len(sub) - 1) = sub})
BoundaryUnique == (sc.mode = "form" /\ sc.enc = "mp") => CountSub(body, <<DASH, DASH>> \o sc.bd) = Len(sc.form) + 1
(* urlencoded bodies use only unreserved characters, '+', '%XX', '=' and '&' *)
UrlClean == (sc.mode = "form" /\ sc.enc = "url") =>
              \A i \in 1..Len(body) : IsAlpha(body[i]) \/ IsDigit(body[i]) \/ body[i] \in {45, 46, 95, 126, 43, 37, 61, 38}
(* header lines of a part never contain a bare CR or LF *)
HeadersOneLine == (sc.mode = "form" /\ sc.enc = "mp") =>
                    \A k \in 1..Len(sc.form) : LET h == PartHead(sc.form[k]) IN
                        \A i \in 1..Len(h) : (h[i] = LF => (i > 1 /\ h[i - 1] = CR)) /\ (h[i] = CR => (i < Len(h) /\ h[i + 1] = LF))
=============================================================================
