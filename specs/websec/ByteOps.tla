------------------------------ MODULE ByteOps ------------------------------
(***************************************************************************)
(* Byte-string helpers shared by the websec specifications (C23 C24 C25    *)
(* C30).  A byte string / text is a sequence of naturals (bytes 0..255 or  *)
(* code points); symbols >= 1000 are opaque (signature digits, see         *)
(* SignedValue).  Everything is iterative (FoldLeft / comprehensions).     *)
(***************************************************************************)
EXTENDS Integers, Sequences, FiniteSets, SequencesExt, TLC

Min2(a, b) == IF a < b THEN a ELSE b
Max2(a, b) == IF a > b THEN a ELSE b

IsDigit(c)    == c >= 48 /\ c <= 57
IsUpper(c)    == c >= 65 /\ c <= 90
IsLower(c)    == c >= 97 /\ c <= 122
IsAlpha(c)    == IsUpper(c) \/ IsLower(c)
IsHexDigit(c) == IsDigit(c) \/ (c >= 97 /\ c <= 102) \/ (c >= 65 /\ c <= 70)
IsOctDigit(c) == c >= 48 /\ c <= 55
HexVal(c)     == IF IsDigit(c) THEN c - 48 ELSE IF c >= 97 THEN c - 87 ELSE c - 55
HexChr(n)     == IF n < 10 THEN 48 + n ELSE 87 + n          \* lower case

AllDigits(s)  == \A i \in 1..Len(s) : IsDigit(s[i])
AllHex(s)     == \A i \in 1..Len(s) : IsHexDigit(s[i])

(* first index of byte d in s at or after position from; 0 if none *)
Index(s, d) == SelectInSeq(s, LAMBDA x : x = d)
IndexFrom(s, d, from) ==
    LET k == SelectInSeq(SubSeq(s, from, Len(s)), LAMBDA x : x = d) IN
    IF k = 0 THEN 0 ELSE k + from - 1
Count(s, d) == Cardinality({i \in 1..Len(s) : s[i] = d})
Drop(s, n)  == SubSeq(s, n + 1, Len(s))       \* s[n:]
Take(s, n)  == SubSeq(s, 1, Min2(n, Len(s)))  \* s[:n]

(* first index i such that sub occurs in s at i (i >= from); 0 if none *)
FindFrom(s, sub, from) ==
    LET n == Len(sub)
        hits == {i \in from..(Len(s) - n + 1) : \A k \in 1..n : s[i + k - 1] = sub[k]} IN
    IF hits = {} THEN 0 ELSE CHOOSE i \in hits : \A j \in hits : i <= j
Find(s, sub) == FindFrom(s, sub, 1)
RFind(s, sub) ==
    LET n == Len(sub)
        hits == {i \in 1..(Len(s) - n + 1) : \A k \in 1..n : s[i + k - 1] = sub[k]} IN
    IF hits = {} THEN 0 ELSE CHOOSE i \in hits : \A j \in hits : i >= j
StartsWith(s, p) == Len(s) >= Len(p) /\ SubSeq(s, 1, Len(p)) = p
EndsWith(s, p)   == Len(s) >= Len(p) /\ SubSeq(s, Len(s) - Len(p) + 1, Len(s)) = p

(* python bytes.split(d) for a single-byte delimiter: always >= 1 part *)
Split(s, d) ==
    FoldLeft(LAMBDA acc, c : IF c = d THEN Append(acc, <<>>)
                             ELSE [acc EXCEPT ![Len(acc)] = Append(@, c)],
             <<(<<>>)>>, s)
Concat(ss) == FoldLeft(LAMBDA acc, x : acc \o x, <<>>, ss)
Join(ss, d) ==
    IF Len(ss) = 0 THEN <<>>
    ELSE FoldLeft(LAMBDA acc, x : acc \o <<d>> \o x, ss[1], Tail(ss))

(* decimal rendering of a natural < 2^31 *)
P10 == <<1, 10, 100, 1000, 10000, 100000, 1000000, 10000000, 100000000, 1000000000>>
NDigits(n) == IF n >= 1000000000 THEN 10
              ELSE CHOOSE k \in 1..9 : n < P10[k + 1] /\ (k = 1 \/ n >= P10[k])
Dec(n) == LET k == NDigits(n) IN [i \in 1..k |-> 48 + ((n \div P10[k - i + 1]) % 10)]

(* value of a digit string, saturating at Huge (no 32-bit overflow inside TLC) *)
Huge == 2000000000
StripZeros(s) == LET k == SelectInSeq(s, LAMBDA x : x # 48) IN
                 IF k = 0 THEN <<>> ELSE SubSeq(s, k, Len(s))
ToNat(s) == LET z == StripZeros(s) IN
            IF Len(z) > 10 \/ (Len(z) = 10 /\ z[1] >= 50) THEN Huge
            ELSE FoldLeft(LAMBDA acc, c : acc * 10 + (c - 48), 0, z)

(* lower-case hex rendering of a byte string and its strict inverse *)
HexEnc(bs) == [i \in 1..(2 * Len(bs)) |->
                 IF i % 2 = 1 THEN HexChr(bs[(i + 1) \div 2] \div 16) ELSE HexChr(bs[i \div 2] % 16)]
HexDec(s)  == [i \in 1..(Len(s) \div 2) |-> 16 * HexVal(s[2 * i - 1]) + HexVal(s[2 * i])]
IsHexString(s) == Len(s) % 2 = 0 /\ AllHex(s)

(* bitwise xor on bytes, by bits *)
XorByte(a, b) ==
    LET bit(x, k) == (x \div (2 ^ k)) % 2 IN
    FoldLeft(LAMBDA acc, k : acc + (IF bit(a, k) # bit(b, k) THEN 2 ^ k ELSE 0), 0, <<0, 1, 2, 3, 4, 5, 6, 7>>)

(* standard base64 *)
B64Chr(n) == IF n < 26 THEN 65 + n ELSE IF n < 52 THEN 97 + n - 26 ELSE IF n < 62 THEN 48 + n - 52
             ELSE IF n = 62 THEN 43 ELSE 47
IsB64(c)  == IsAlpha(c) \/ IsDigit(c) \/ c = 43 \/ c = 47
B64Val(c) == IF IsUpper(c) THEN c - 65 ELSE IF IsLower(c) THEN c - 97 + 26 ELSE IF IsDigit(c) THEN c - 48 + 52
             ELSE IF c = 43 THEN 62 ELSE 63
B64Enc(bs) ==
    LET n == Len(bs)
        g == (n + 2) \div 3
        at(k) == IF k <= n THEN bs[k] ELSE 0
        ch(i) == LET q == (i - 1) \div 4
                     r == (i - 1) % 4
                     b1 == at(3 * q + 1)
                     b2 == at(3 * q + 2)
                     b3 == at(3 * q + 3) IN
                 IF r = 0 THEN B64Chr(b1 \div 4)
                 ELSE IF r = 1 THEN B64Chr((b1 % 4) * 16 + b2 \div 16)
                 ELSE IF r = 2 THEN (IF 3 * q + 2 > n THEN 61 ELSE B64Chr((b2 % 16) * 4 + b3 \div 64))
                 ELSE (IF 3 * q + 3 > n THEN 61 ELSE B64Chr(b3 % 64)) IN
    [i \in 1..(4 * g) |-> ch(i)]
(* canonical = exactly what B64Enc produces for some byte string *)
B64Canonical(s) ==
    /\ Len(s) % 4 = 0
    /\ LET n == Len(s)
           pad == IF n = 0 THEN 0 ELSE IF s[n] # 61 THEN 0 ELSE IF s[n - 1] # 61 THEN 1 ELSE 2 IN
       /\ \A i \in 1..(n - pad) : IsB64(s[i])
       /\ pad = 1 => B64Val(s[n - 1]) % 4 = 0
       /\ pad = 2 => B64Val(s[n - 2]) % 16 = 0
B64Dec(s) ==   \* defined for canonical s
    LET n == Len(s)
        pad == IF n = 0 THEN 0 ELSE IF s[n] # 61 THEN 0 ELSE IF s[n - 1] # 61 THEN 1 ELSE 2
        v(k) == IF s[k] = 61 THEN 0 ELSE B64Val(s[k])
        m == 3 * (n \div 4) - pad
        by(j) == LET q == (j - 1) \div 3
                     r == (j - 1) % 3 IN
                 IF r = 0 THEN v(4 * q + 1) * 4 + v(4 * q + 2) \div 16
                 ELSE IF r = 1 THEN (v(4 * q + 2) % 16) * 16 + v(4 * q + 3) \div 4
                 ELSE (v(4 * q + 3) % 4) * 64 + v(4 * q + 4) IN
    [j \in 1..m |-> by(j)]
=============================================================================
