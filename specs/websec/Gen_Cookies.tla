---------------------------- MODULE Gen_Cookies ----------------------------
(* Program enumeration: every sequence of set_cookie calls (deterministic raising) followed by
   flush, up to L steps. *)
EXTENDS Cookies
CONSTANTS L, MaxCalls
VARIABLE hist
GenInit == InitState /\ hist = <<>>
GenNext == Next /\ (step'.act = "set" => Len(hist) < MaxCalls) /\ hist' = Append(hist, [act |-> step'.act, args |-> step'.args, exp |-> step'.raised])
GenSpec == GenInit /\ [][GenNext]_<<vars, step, hist>>
GenBound == Len(hist) <= L
=============================================================================
