SPECIFICATION Spec
CONSTANTS
  NameSet <- NamesC
  ValueSet <- Values2
  AttrSet <- Attrs2
  MaxOps = 1
  Flags = TRUE
  FreeRaise = TRUE
VIEW View
INVARIANT Emitted
INVARIANT OnePerName
CHECK_DEADLOCK FALSE
