SPECIFICATION TraceSpec
CONSTANTS
  TextSet <- Texts1
  DataSet <- Datas2
  UrlNameSet <- UrlNames1
  EditBytes = {0}
  MutStride = 1
  ArbAlpha = {45}
  ArbLen = 0
CONSTRAINT Report
CHECK_DEADLOCK FALSE
