SPECIFICATION TraceSpec
CONSTANTS
  NameSet <- NamesS
  ValueSet <- ValuesS
  AttrSet <- AttrsS
  MaxOps = 1000
  FreeRaise = TRUE
CONSTRAINT Report
INVARIANT OnePerName
CHECK_DEADLOCK FALSE
