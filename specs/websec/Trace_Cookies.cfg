SPECIFICATION TraceSpec
CONSTANTS
  NameSet <- NamesS
  ValueSet <- ValuesS
  AttrSet <- AttrsS
  MaxOps = 1000
  Flags = TRUE
  FreeRaise = TRUE
CONSTRAINT Report
INVARIANT OnePerName
CHECK_DEADLOCK FALSE
