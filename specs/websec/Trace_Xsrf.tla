---------------------------- MODULE Trace_Xsrf ----------------------------
(* Validates sessions recorded from a real Application(xsrf_cookies=True).
   issue: args = [cookie sent, output version, secret drawn, mask drawn, clock]; obs = {status, token, setcookie}
   post : args = [cookie sent, token, carrier, method];                          obs = {status, ran}
   Every issuance must render exactly Issuance(...) and every request must have exactly Outcome(...);
   every rendered token must be accepted together with the cookie the client then holds. *)
EXTENDS Xsrf, Json, IOUtils, TLCExt
Traces == ndJsonDeserialize(IOEnv.TRACE_FILE)
Verbose == IOEnv.TRACE_VERBOSE = "1"
VARIABLES tid, l, last
Ev == Traces[tid].ev
tvars == <<sc, exp, tid, l, last>>

TraceInit ==
    /\ tid \in 1..Len(Traces)
    /\ l = 1
    /\ last = [kind |-> "none", cookie |-> <<>>, token |-> <<>>, setcookie |-> <<>>]
    /\ sc = [mode |-> "trace"]
    /\ exp = [status |-> 0]

IsEvent(a) == l <= Len(Ev) /\ Ev[l].a = a /\ l' = l + 1 /\ UNCHANGED <<tid, sc, exp>>

TrIssue ==
    /\ IsEvent("issue")
    /\ LET a == Ev[l].args
           r == Issuance(a[1], a[2], a[3], a[4], a[5]) IN
       /\ Ev[l].obs.status = 200
       /\ Ev[l].obs.token = r.token
       /\ Ev[l].obs.setcookie = r.setcookie
       /\ last' = [kind |-> "issue", cookie |-> a[1], token |-> r.token, setcookie |-> r.setcookie]

TrPost ==
    /\ IsEvent("post")
    /\ LET a == Ev[l].args
           o == Outcome(a[1], a[2], a[4]) IN
       /\ Ev[l].obs.status = o.status
       /\ Ev[l].obs.ran = o.ran
       /\ last' = [kind |-> "post", cookie |-> a[1], token |-> a[2], setcookie |-> <<>>]

TraceNext == TrIssue \/ TrPost
TraceSpec == TraceInit /\ [][TraceNext]_tvars

TrRendered ==
    (last.kind = "issue" /\ (LET c == DecodeToken(last.cookie) IN (Len(last.cookie) > 0 /\ c.ok) => Len(c.tok) > 0)) =>
      Accepts(IF Len(last.setcookie) > 0 THEN last.setcookie ELSE last.cookie, last.token)

Report == IF Verbose THEN PrintT(<<"AT", Traces[tid].id, l>>)
          ELSE (l = Len(Ev) + 1 => PrintT(<<"ACCEPT", Traces[tid].id>>))
=============================================================================
