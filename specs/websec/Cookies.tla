------------------------------ MODULE Cookies ------------------------------
(***************************************************************************)
(* Outgoing cookies (property C25): RequestHandler.set_cookie /            *)
(* clear_cookie / set_signed_cookie, the Set-Cookie lines written by       *)
(* flush(), and the request-side parser httputil.parse_cookie.             *)
(*                                                                         *)
(* Texts are sequences of code points.  The machine keeps the jar of       *)
(* successful settings (last setting of a name wins).  A call may always   *)
(* raise (then it changes nothing) and MUST raise when the cookie could    *)
(* not be written (a code point above 0xFF cannot travel in a header).     *)
(* Flush renders one line per jar entry with the documented quoting        *)
(* transducer; the theorem checked by TLC is that the request-side parser  *)
(* reads every rendered name=value part back as exactly {name |-> value}   *)
(* and that the attributes a client sees are exactly the requested ones.   *)
(* The same predicates (Acceptable) judge the lines observed from the      *)
(* real handler, whatever quoting it chose.                                *)
(***************************************************************************)
EXTENDS ByteOps

CONSTANTS NameSet, ValueSet, AttrSet,   \* texts (selected with `<-`)
          MaxOps,
          FreeRaise,                    \* TRUE: a call may raise at will (property level); FALSE: it raises iff it must
          Flags                         \* TRUE: also all combinations of max_age / httponly / secure / expires / domain

StrUpTo(alpha, n) == UNION {[1..k -> alpha] : k \in 0..n}
ValAlpha  == {97, 34, 92, 59, 44, 61, 32, 127, 233, 256, 49, 10}      \* a " \ ; , = SP DEL e-acute U+0100 1 LF
AttrAlpha == {97, 44, 61, 34, 59, 32, 233, 256, 47}                   \* a , = " ; SP e-acute U+0100 /
NamesC  == {<<107>>, <<107, 50>>, <<112, 97, 116, 104>>, <<107, 59>>, <<>>}   \* k  k2  path(reserved)  k;  empty
NamesQ  == {<<107, 50>>, <<112, 97, 116, 104>>, <<107, 59>>}                    \* k2  path  k;
NamesS  == {<<107>>, <<107, 50>>}
Values1 == StrUpTo(ValAlpha, 1)
Values2 == StrUpTo(ValAlpha, 2)
Values3 == StrUpTo(ValAlpha, 3)
ValuesS == {<<97>>, <<34>>, <<256>>}
Attrs1  == StrUpTo(AttrAlpha, 1) \ {<<>>}
Attrs2  == StrUpTo(AttrAlpha, 2) \ {<<>>}
AttrsS  == {<<97, 61>>}

DQ == 34  BS == 92  SEMI == 59  EQ == 61  SP == 32
LegalPunct == {33, 35, 36, 37, 38, 39, 42, 43, 45, 46, 94, 95, 96, 124, 126, 58}     \* !#$%&'*+-.^_`|~:
IsLegal(c) == IsAlpha(c) \/ IsDigit(c) \/ c \in LegalPunct
UnescapedPunct == {32, 40, 41, 47, 60, 61, 62, 63, 64, 91, 93, 123, 125}              \* space ()/<=>?@[]{}
IsUnescaped(c) == IsLegal(c) \/ c \in UnescapedPunct
AllLegal(s) == Len(s) > 0 /\ \A i \in 1..Len(s) : IsLegal(s[i])
Oct3(c) == <<BS, 48 + (c \div 64), 48 + ((c \div 8) % 8), 48 + (c % 8)>>

(* the quoting transducer of the cookie library *)
QuoteChar(c) == IF c = DQ THEN <<BS, DQ>> ELSE IF c = BS THEN <<BS, BS>>
                ELSE IF c >= 256 \/ IsUnescaped(c) THEN <<c>> ELSE Oct3(c)
Quote(v) == IF AllLegal(v) THEN v ELSE <<DQ>> \o Concat([i \in 1..Len(v) |-> QuoteChar(v[i])]) \o <<DQ>>

(* request side: httputil._unquote_cookie, one left-to-right pass *)
UnquoteInner(s) ==
    LET n == Len(s)
        stepf(acc, k) ==
            IF acc.skip > 0 THEN [acc EXCEPT !.skip = @ - 1]
            ELSE IF s[k] = BS /\ k + 3 <= n /\ s[k + 1] >= 48 /\ s[k + 1] <= 51 /\ IsOctDigit(s[k + 2]) /\ IsOctDigit(s[k + 3])
              THEN [skip |-> 3, out |-> Append(acc.out, (s[k + 1] - 48) * 64 + (s[k + 2] - 48) * 8 + (s[k + 3] - 48))]
            ELSE IF s[k] = BS /\ k + 1 <= n /\ s[k + 1] # 10
              THEN [skip |-> 1, out |-> Append(acc.out, s[k + 1])]
            ELSE [skip |-> 0, out |-> Append(acc.out, s[k])] IN
    FoldLeft(stepf, [skip |-> 0, out |-> <<>>], [k \in 1..n |-> k]).out
Unquote(s) == IF Len(s) < 2 \/ s[1] # DQ \/ s[Len(s)] # DQ THEN s ELSE UnquoteInner(SubSeq(s, 2, Len(s) - 1))

IsWs(c) == c \in {32, 9, 10, 11, 12, 13, 28, 29, 30, 31, 133, 160}      \* str.strip() on code points < 256
IsWsp(c) == c \in {32, 9}                                                \* what a client strips around attributes
StripBy(s, W(_)) == LET keep == {i \in 1..Len(s) : ~W(s[i])} IN
            IF keep = {} THEN <<>>
            ELSE SubSeq(s, CHOOSE i \in keep : \A j \in keep : i <= j, CHOOSE i \in keep : \A j \in keep : i >= j)
Strip(s) == StripBy(s, IsWs)
StripWsp(s) == StripBy(s, IsWsp)

(* httputil.parse_cookie: sequence of [k, v] in header order (later duplicates overwrite) *)
ParseCookie(h) ==
    LET chunks == Split(h, SEMI)
        one(ch) == LET e == Index(ch, EQ)
                       k == IF e = 0 THEN <<>> ELSE Strip(SubSeq(ch, 1, e - 1))
                       v == IF e = 0 THEN Strip(ch) ELSE Strip(Drop(ch, e)) IN
                   [k |-> k, v |-> Unquote(v), keep |-> Len(k) > 0 \/ Len(v) > 0]
        all == [i \in 1..Len(chunks) |-> one(chunks[i])] IN
    [i \in 1..Len(SelectSeq(all, LAMBDA x : x.keep)) |->
        [k |-> SelectSeq(all, LAMBDA x : x.keep)[i].k, v |-> SelectSeq(all, LAMBDA x : x.keep)[i].v]]

(* what a client sees in one Set-Cookie value: the first pair and the attribute set *)
LowerC(c) == IF IsUpper(c) THEN c + 32 ELSE c
Lower(s) == [i \in 1..Len(s) |-> LowerC(s[i])]
NVPart(line) == LET p == Index(line, SEMI) IN IF p = 0 THEN line ELSE SubSeq(line, 1, p - 1)
EXPIRES == <<101, 120, 112, 105, 114, 101, 115>>
AttrsOf(line) ==
    LET chunks == Split(line, SEMI)
        one(ch) == LET e == Index(ch, EQ)
                       k == Lower(StripWsp(IF e = 0 THEN ch ELSE SubSeq(ch, 1, e - 1)))
                       v == IF e = 0 THEN <<>> ELSE StripWsp(Drop(ch, e)) IN
                   [k |-> k, v |-> IF k = EXPIRES THEN <<>> ELSE v] IN
    {one(chunks[i]) : i \in 2..Len(chunks)}
AttrCount(line) == Len(Split(line, SEMI)) - 1

(* requested attributes: record of texts / flags; <<>> = not requested; expdays = NoDays: expires_days not
   passed; maxage0: max_age=0 was passed - whether that yields "Max-Age=0" or nothing is left open (disputed) *)
NoDays == 9
A(k, v) == [k |-> k, v |-> v]
ExpAttrs(a) ==
    (IF Len(a.domain) > 0 THEN {A(<<100, 111, 109, 97, 105, 110>>, a.domain)} ELSE {})
    \cup (IF Len(a.path) > 0 THEN {A(<<112, 97, 116, 104>>, a.path)} ELSE {})
    \cup (IF Len(a.samesite) > 0 THEN {A(<<115, 97, 109, 101, 115, 105, 116, 101>>, a.samesite)} ELSE {})
    \cup (IF a.maxage > 0 THEN {A(<<109, 97, 120, 45, 97, 103, 101>>, Dec(a.maxage))} ELSE {})
    \cup (IF a.httponly THEN {A(<<104, 116, 116, 112, 111, 110, 108, 121>>, <<>>)} ELSE {})
    \cup (IF a.secure THEN {A(<<115, 101, 99, 117, 114, 101>>, <<>>)} ELSE {})
    \cup (IF a.expires \/ a.expdays # NoDays THEN {A(EXPIRES, <<>>)} ELSE {})     \* expires_days = 0 means "expire now"
MAXAGE0 == A(<<109, 97, 120, 45, 97, 103, 101>>, <<48>>)

(* one observed Set-Cookie value is a faithful emission of jar entry e *)
Latin1(s) == \A i \in 1..Len(s) : s[i] < 256
Acceptable(e, line) ==
    /\ Latin1(line)
    /\ ParseCookie(NVPart(line)) = <<[k |-> e.name, v |-> e.value]>>
    /\ \/ /\ AttrsOf(line) = ExpAttrs(e.attrs)
          /\ AttrCount(line) = Cardinality(ExpAttrs(e.attrs))
       \/ /\ e.attrs.maxage0 /\ e.attrs.maxage = 0
          /\ AttrsOf(line) = ExpAttrs(e.attrs) \cup {MAXAGE0}
          /\ AttrCount(line) = Cardinality(ExpAttrs(e.attrs)) + 1
(* the observed lines are exactly the jar: a bijection of faithful emissions *)
Faithful(jar, lines) ==
    /\ Len(lines) = Len(jar)
    /\ \A i \in 1..Len(jar) : \E j \in 1..Len(lines) : Acceptable(jar[i], lines[j])
    /\ \A j \in 1..Len(lines) : \E i \in 1..Len(jar) : Acceptable(jar[i], lines[j])

(* the documented rendering (Morsel.OutputString order: sorted attribute keys) *)
TXT(k) == CASE k = 1 -> <<68, 111, 109, 97, 105, 110>> [] k = 2 -> <<101, 120, 112, 105, 114, 101, 115>>
            [] k = 3 -> <<72, 116, 116, 112, 79, 110, 108, 121>> [] k = 4 -> <<77, 97, 120, 45, 65, 103, 101>>
            [] k = 5 -> <<80, 97, 116, 104>> [] k = 6 -> <<83, 97, 109, 101, 83, 105, 116, 101>>
            [] k = 7 -> <<83, 101, 99, 117, 114, 101>>
DATE == <<84, 104, 117, 44, 32, 48, 49, 32, 74, 97, 110, 32, 49, 57, 55, 48, 32, 48, 48, 58, 48, 48, 58, 48, 48, 32, 71, 77, 84>>
Render(e) ==
    LET a == e.attrs
        sep == <<SEMI, SP>>
        kv(k, v) == sep \o TXT(k) \o <<EQ>> \o v IN
    e.name \o <<EQ>> \o Quote(e.value)
    \o (IF Len(a.domain) > 0 THEN kv(1, a.domain) ELSE <<>>)
    \o (IF a.expires \/ a.expdays # NoDays THEN kv(2, DATE) ELSE <<>>)
    \o (IF a.httponly THEN sep \o TXT(3) ELSE <<>>)
    \o (IF a.maxage > 0 THEN kv(4, Dec(a.maxage)) ELSE <<>>)
    \o (IF Len(a.path) > 0 THEN kv(5, a.path) ELSE <<>>)
    \o (IF Len(a.samesite) > 0 THEN kv(6, a.samesite) ELSE <<>>)
    \o (IF a.secure THEN sep \o TXT(7) ELSE <<>>)

----------------------------------------------------------------------------
(* The machine *)
VARIABLES jar,      \* sequence of [name, value, attrs]: successful settings, last setting of a name wins
          flushed,  \* FALSE until Flush; then the rendered lines are in `lines`
          lines,
          step
vars == <<jar, flushed, lines>>

Reserved == {<<101, 120, 112, 105, 114, 101, 115>>, <<112, 97, 116, 104>>, <<99, 111, 109, 109, 101, 110, 116>>,
             <<100, 111, 109, 97, 105, 110>>, <<109, 97, 120, 45, 97, 103, 101>>, <<115, 101, 99, 117, 114, 101>>,
             <<104, 116, 116, 112, 111, 110, 108, 121>>, <<118, 101, 114, 115, 105, 111, 110>>,
             <<115, 97, 109, 101, 115, 105, 116, 101>>, <<112, 97, 114, 116, 105, 116, 105, 111, 110, 101, 100>>}
BadAttrChar(c) == c <= 32 \/ c = SEMI \/ c = 127
(* a setting that cannot be emitted faithfully must raise *)
MustRaise(name, value, a) ==
    \/ ~AllLegal(name) \/ Lower(name) \in Reserved
    \/ ~Latin1(value) \/ ~Latin1(a.domain) \/ ~Latin1(a.path) \/ ~Latin1(a.samesite)
    \/ \E i \in 1..Len(a.domain) : BadAttrChar(a.domain[i])
    \/ \E i \in 1..Len(a.path) : BadAttrChar(a.path[i])
    \/ \E i \in 1..Len(a.samesite) : BadAttrChar(a.samesite[i])

Put(j, e) == SelectSeq(j, LAMBDA x : x.name # e.name) \o <<e>>

(* set_cookie(name, value, **attrs); raised = the call raised *)
Set(name, value, a, raised) ==
    /\ ~flushed
    /\ MustRaise(name, value, a) => raised
    /\ ~FreeRaise => (raised => MustRaise(name, value, a))
    /\ jar' = IF raised THEN jar ELSE Put(jar, [name |-> name, value |-> value, attrs |-> a])
    /\ UNCHANGED <<flushed, lines>>
    /\ step' = [act |-> "set", args |-> <<name, value, a>>, raised |-> raised]

Flush ==
    /\ ~flushed
    /\ flushed' = TRUE
    /\ lines' = [i \in 1..Len(jar) |-> Render(jar[i])]
    /\ UNCHANGED jar
    /\ step' = [act |-> "flush", args |-> <<>>, raised |-> FALSE]

PlainAttrs == [domain |-> <<>>, path |-> <<47>>, samesite |-> <<>>, maxage |-> 0, httponly |-> FALSE, secure |-> FALSE,
               expires |-> FALSE, expdays |-> NoDays, maxage0 |-> FALSE]
(* one attribute varied at a time, plus all flag combinations *)
AttrChoices ==
    {[PlainAttrs EXCEPT !.domain = d] : d \in AttrSet}
    \cup {[PlainAttrs EXCEPT !.path = p] : p \in AttrSet \cup {<<>>}}
    \cup {[PlainAttrs EXCEPT !.samesite = x] : x \in AttrSet \cup {<<76, 97, 120>>}}
    \cup (IF Flags THEN {[PlainAttrs EXCEPT !.expdays = d, !.expires = x] : d \in {0, 1}, x \in BOOLEAN}
                           \cup {[PlainAttrs EXCEPT !.maxage0 = TRUE]} ELSE {})
    \cup (IF Flags THEN {[PlainAttrs EXCEPT !.maxage = m, !.httponly = h, !.secure = c, !.expires = x, !.domain = d] :
                           m \in {0, 5}, h \in BOOLEAN, c \in BOOLEAN, x \in BOOLEAN, d \in {<<>>, <<97, 46, 98>>}}
           ELSE {[PlainAttrs EXCEPT !.httponly = TRUE, !.maxage = 5]})

InitState == jar = <<>> /\ flushed = FALSE /\ lines = <<>> /\ step = [act |-> "init", args |-> <<>>, raised |-> FALSE]
SetValue == Len(jar) < MaxOps /\ \E n \in NameSet, v \in ValueSet, r \in BOOLEAN : Set(n, v, PlainAttrs, r)
SetAttrs == Len(jar) < MaxOps /\ \E n \in NameSet, a \in AttrChoices, r \in BOOLEAN : Set(n, <<118>>, a, r)
Next == SetValue \/ SetAttrs \/ Flush
Spec == InitState /\ [][Next]_<<vars, step>>

----------------------------------------------------------------------------
(* Property C25 on the specification: what is emitted reads back exactly *)
Emitted == flushed => Faithful(jar, lines)
OnePerName == \A i, j \in 1..Len(jar) : i # j => jar[i].name # jar[j].name
View == vars
=============================================================================
