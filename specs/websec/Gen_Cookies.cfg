SPECIFICATION GenSpec
CONSTANTS
  NameSet <- NamesC
  ValueSet <- Values2
  AttrSet <- Attrs2
  MaxOps = 1
  Flags = TRUE
  FreeRaise = FALSE
  MaxCalls = 1
  L = 2
CONSTRAINT GenBound
INVARIANT Emitted
CHECK_DEADLOCK FALSE
