SPECIFICATION Spec
CONSTANTS
  NameSet <- NamesS
  ValueSet <- ValuesS
  AttrSet <- AttrsS
  MaxOps = 3
  Flags = FALSE
  FreeRaise = TRUE
VIEW View
INVARIANT Emitted
INVARIANT OnePerName
CHECK_DEADLOCK FALSE
