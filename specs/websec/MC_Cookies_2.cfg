SPECIFICATION Spec
CONSTANTS
  NameSet <- NamesS
  ValueSet <- ValuesS
  AttrSet <- AttrsS
  MaxOps = 3
  FreeRaise = TRUE
VIEW View
INVARIANT Emitted
INVARIANT OnePerName
CHECK_DEADLOCK FALSE
