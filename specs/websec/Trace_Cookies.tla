---------------------------- MODULE Trace_Cookies ----------------------------
(* Validates handler runs recorded from the real RequestHandler.
   set  : args = [name, value, attrs]; obs.raised = the call (set_cookie / clear_cookie /
          set_signed_cookie, see obs.api) raised.  A call may raise at will.
   flush: obs = {status, lines, readback, next}: response status, the Set-Cookie values, for each
          line the real parse_cookie() of its name=value part, and the cookies a real following
          request carrying those pairs exposes through RequestHandler.cookies.
   The response must be sent (200) with exactly one faithful line per jar entry, the real parser
   must agree with ParseCookie on every emitted pair, and the next request must see exactly the jar. *)
EXTENDS Cookies, Json, IOUtils, TLCExt
Traces == ndJsonDeserialize(IOEnv.TRACE_FILE)
Verbose == IOEnv.TRACE_VERBOSE = "1"
VARIABLES tid, l
Ev == Traces[tid].ev
tvars == <<jar, flushed, lines, step, tid, l>>

TraceInit == tid \in 1..Len(Traces) /\ l = 1 /\ InitState
IsEvent(a) == l <= Len(Ev) /\ Ev[l].a = a /\ l' = l + 1 /\ UNCHANGED tid

TrSet ==
    /\ IsEvent("set")
    /\ LET a == Ev[l].args IN
       /\ ~flushed
       /\ jar' = IF Ev[l].obs.raised THEN jar ELSE Put(jar, [name |-> a[1], value |-> a[2], attrs |-> a[3]])
       /\ UNCHANGED <<flushed, lines, step>>

SeqToSet(s) == {s[i] : i \in 1..Len(s)}
TrFlush ==
    /\ IsEvent("flush")
    /\ ~flushed
    /\ LET o == Ev[l].obs IN
       /\ o.status = 200
       /\ Faithful(jar, o.lines)
       /\ \A j \in 1..Len(o.lines) :
            LET p == ParseCookie(NVPart(o.lines[j])) IN
            /\ Len(o.readback[j]) = Len(p)
            /\ \A i \in 1..Len(p) : o.readback[j][i] = <<p[i].k, p[i].v>>
       /\ SeqToSet(o.next) = {<<jar[i].name, jar[i].value>> : i \in 1..Len(jar)}
       /\ lines' = o.lines
    /\ flushed' = TRUE
    /\ UNCHANGED <<jar, step>>

TraceNext == TrSet \/ TrFlush
TraceSpec == TraceInit /\ [][TraceNext]_tvars
Report == IF Verbose THEN PrintT(<<"AT", Traces[tid].id, l>>)
          ELSE (l = Len(Ev) + 1 => PrintT(<<"ACCEPT", Traces[tid].id>>))
=============================================================================
