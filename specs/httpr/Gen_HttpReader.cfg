SPECIFICATION GenSpec
CONSTANTS
  Sizes = {1}
  RLs = {1, 2, 3}
  HOSTs = {1, 2}
  FRs = {1, 2, 3}
  FR2s = {1}
  XHs = {1, 3}
  BLANKs = {1}
  BODYs = {1, 2, 3, 9}
  TAILs = {1, 2}
  SLs = {1}
  RHs = {1}
  RH2s = {1}
  RBs = {1}
  Dev = 1
  GenModes = {"server"}
  GenMaxBodies = {1000000}
  GenMaxHdrs = {65536}
  GenHeads = {FALSE}
  LimWidth = 0
  GzIdx = {1}
  GzFrs = {"cl"}
  GzDrops = {0}
  GzKeeps = {}
  GzRespFrs = {"cl"}
CHECK_DEADLOCK FALSE
