--------------------------- MODULE MC_HttpReader ---------------------------
(* Exhaustive model: every wire of the grammar (within the index sets) x every configuration x
   every arrival schedule, peer close at every point, sync / async response, body timeout,
   shutdown. *)
EXTENDS HttpWires
CONSTANTS Modes, Responds, MaxBodies, MaxHdrs, Overrides, Decomps, Timeouts, Shuts, Heads

CfgSet == {c \in [mode : Modes, maxHdr : MaxHdrs, maxBody : MaxBodies, override : Overrides, decompress : Decomps,
                  gz : {GzTable}, head : Heads, respond : Responds, btimeout : Timeouts, shut : Shuts] :
              /\ c.mode = "client" => (c.respond = "sync" /\ ~c.btimeout /\ ~c.shut /\ c.override = None)
              /\ c.mode = "server" => ~c.head}

VARIABLE full          \* what a reader given the whole wire (and then EOF) delivers - computed once
MCInit == /\ \E c \in CfgSet :
               \/ c.mode = "server" /\ \E x \in ReqIdx : InitWith(c, ReqWire(x))
               \/ c.mode = "client" /\ \E x \in RespIdx : InitWith(c, RespWire(x))
          /\ full = FullParse(cfg, wire)
MCNext == Next /\ UNCHANGED full
MCSpec == MCInit /\ [][MCNext]_<<vars, step, full>>
MCView == <<vars, full>>
(* C05 "closing all server connections completes": under weak fairness of Shutdown a connection the
   server may shut down ends up closed (checked without VIEW: MCL_HttpReader.cfg) *)
MCLive == MCInit /\ [][MCNext]_<<vars, step, full>> /\ WF_<<vars, step, full>>(Shutdown /\ UNCHANGED full)
ShutdownCloses == cfg.shut => <>(r.closed)
(* C05: what was delivered is a prefix of what the peer sent in full *)
PrefixOfSent == PrefixOf(full)
=============================================================================
