--------------------------- MODULE MC_HttpReader ---------------------------
(* Exhaustive model: every wire of the grammar (within the index sets) x every configuration x
   every arrival schedule, peer close at every point, sync / async response, body timeout,
   shutdown. *)
EXTENDS HttpWires
CONSTANTS Modes, Responds, MaxBodies, MaxHdrs, Overrides, Decomps, Timeouts, Shuts, Heads,
          MCGz            \* indices of GzTable whose members are sent as request / response bodies when decompress is on

MCGzTable == SubSeq(GzTable, 1, 3)          \* without the 2000-byte bomb (kept small: the table is part of every state)
CfgSet == {c \in [mode : Modes, maxHdr : MaxHdrs, maxBody : MaxBodies, override : Overrides, decompress : Decomps,
                  gz : {<<>>, MCGzTable}, head : Heads, respond : Responds, btimeout : Timeouts, shut : Shuts] :
              /\ c.mode = "client" => (c.respond = "sync" /\ ~c.btimeout /\ ~c.shut /\ c.override = None)
              /\ c.mode = "server" => ~c.head
              /\ c.gz = (IF c.decompress THEN MCGzTable ELSE <<>>)}

VARIABLE full          \* what a reader given the whole wire (and then EOF) delivers - computed once
MCInit == /\ \E c \in CfgSet :
               \/ c.mode = "server" /\ \E x \in ReqIdx : InitWith(c, ReqWire(x))
               \/ c.mode = "client" /\ \E x \in RespIdx : InitWith(c, RespWire(x))
               \/ c.mode = "server" /\ c.decompress /\ \E g \in MCGz, fr \in {"cl", "ch"}, t \in TAILs : InitWith(c, GzWire(g, fr, t))
          /\ full = FullParse(cfg, wire)
MCNext == Next /\ UNCHANGED full
MCSpec == MCInit /\ [][MCNext]_<<vars, step, full>>
MCView == <<vars, full>>
(* C04: the limits only ever refuse: a run that is not refused for a size is the run without limits,
   and a refusal closes (checked on the one-piece run of every (cfg, wire), i.e. in the initial states) *)
LimitCauses == {"hdrsize", "bodysize", "gzsize"}
LimitsOnlyRefuse ==
    buf = <<>> =>
        LET a == OneShot(cfg, wire, TRUE)
            b == OneShot([cfg EXCEPT !.maxBody = Huge, !.maxHdr = Huge, !.override = None], wire, TRUE) IN
        /\ a.rej \notin LimitCauses => (Msgs(a.ev) = Msgs(b.ev) /\ a.out = b.out /\ a.rej = b.rej)
        /\ a.rej \in LimitCauses => (a.closed /\ b.rej # a.rej)
(* C05 "closing all server connections completes": under weak fairness of Shutdown a connection the
   server may shut down ends up closed (checked without VIEW: MCL_HttpReader.cfg) *)
MCLive == MCInit /\ [][MCNext]_<<vars, step, full>> /\ WF_<<vars, step, full>>(Shutdown /\ UNCHANGED full)
ShutdownCloses == cfg.shut => <>(r.closed)
(* C05: what was delivered is a prefix of what the peer sent in full *)
PrefixOfSent == cfg.respond \in {"sync", "async"} => PrefixOf(full)     \* (an early answer cuts the delivery short by design)
=============================================================================
