----------------------------- MODULE HttpReader -----------------------------
(***************************************************************************)
(* The HTTP/1.x message reader as a state machine at the granularity of    *)
(* message-delegate callbacks (headers_received / data_received / finish / *)
(* on_connection_close), in server mode (C01 C04 C05) and client mode      *)
(* (C08; also the strict response parser used as oracle by C02 C03 C07).   *)
(*                                                                         *)
(* The peer's byte stream `wire` arrives in arbitrary pieces (Arrive), the *)
(* peer may close at any point (PeerClose), the application may answer     *)
(* immediately or later (Respond), a body may time out (BodyTimeout).      *)
(* After every such event the reader runs as far as the arrived bytes      *)
(* allow (Eager): that is one Tornado "settle".  What it has delivered is  *)
(* the event log r.ev (H/D/F/C), r.out (status codes written back), r.rej  *)
(* (why the stream was refused) and r.closed.                              *)
(*                                                                         *)
(* Decision points follow the grammar: a header block is judged when its   *)
(* terminating empty line has arrived, a chunk-size line when its CRLF has *)
(* arrived, a chunk terminator when two bytes have arrived.                *)
(***************************************************************************)
EXTENDS HttpLex, TLC

CONSTANT Sizes              \* piece sizes explored by Next (model checking bound; Arrive itself takes any n)
None == 2000000001          \* "no per-request override"
MaxChunkLine == 64          \* implementation limit on a chunk-size line (incl. CRLF); longer lines are not generated

VARIABLES cfg,     \* configuration of the behaviour (record, fixed in Init)
          wire,    \* everything the peer is going to send
          buf,     \* the prefix of wire that has arrived
          eof,     \* the peer has closed its side
          r,       \* reader state (record, see R0)
          step     \* observation of the last step: [act, args, exp]

vars == <<cfg, wire, buf, eof, r>>

(* cfg = [mode      : "server" | "client",
          maxHdr    : largest header block accepted (bytes, incl. terminator),
          maxBody   : largest body accepted,
          override  : per-request max body size set by the application on headers_received, or None,
          decompress: decode Content-Encoding: gzip bodies,
          gz        : the opaque gzip codec: sequence of [enc |-> bytes, dec |-> bytes] (complete members),
          head      : client mode: the request was HEAD,
          respond   : "sync" (the application answers inside finish) | "async" (Respond is a separate step)
                      | "early" (it answers from headers_received) | "earlydata" (from its first data_received,
                        else inside finish) | "raise" (its finish() raises an exception),
          btimeout  : a body timeout is configured (BodyTimeout enabled),
          shut      : the server may shut the connection down (Shutdown enabled)] *)

R0 == [pos |-> 0, ph |-> "head", owed |-> 0, total |-> 0, ev |-> <<>>, out |-> <<>>, closed |-> FALSE,
       rej |-> "none", persist |-> TRUE, maxb |-> 0, gz |-> FALSE, enc |-> <<>>, open |-> FALSE,
       code |-> 0, blk |-> TRUE]

-----------------------------------------------------------------------------
(* event log *)
EvH(sl, hs, fr, opt, gzf) == <<"H", sl, hs, fr, opt, gzf>>
EvD(b) == <<"D", b>>
EvF == <<"F">>
EvC == <<"C">>

Emit(s, e) == [s EXCEPT !.ev = Append(@, e)]
(* body data: how the bytes of one message are split over data_received calls is not part of the
   contract, so consecutive deliveries are kept as one D event *)
AppendD(ev, data) == IF ev # <<>> /\ ev[Len(ev)][1] = "D" THEN [ev EXCEPT ![Len(ev)][2] = @ \o data]
                     ELSE Append(ev, EvD(data))

(* the stream is refused: nothing more is delivered, the open message (if any) is told "closed" *)
Refuse(s, cause, code) ==
    [s EXCEPT !.rej = cause, !.closed = TRUE, !.ph = "closed", !.blk = TRUE, !.open = FALSE,
              !.ev = IF s.open THEN Append(@, EvC) ELSE @,
              !.out = IF code = 0 THEN @ ELSE Append(@, code)]
Reject400(s, cause, c) == Refuse(s, cause, IF c.mode = "server" THEN 400 ELSE 0)
RejectClose(s, cause) == Refuse(s, cause, 0)
(* the connection ends without the reader objecting (peer closed, timeout, shutdown) *)
Abort(s) == [s EXCEPT !.closed = TRUE, !.ph = "closed", !.blk = TRUE, !.open = FALSE,
                      !.ev = IF s.open THEN Append(@, EvC) ELSE @]
Block(s) == [s EXCEPT !.blk = TRUE]
(* the application finished its response before the request was read completely: the rest of the request
   is not delivered, the connection is closed after the response, and the message delegate - which will not
   get finish() - is told that the connection closed (C05: exactly one of the two) *)
EarlyEnd(s) == [s EXCEPT !.out = Append(@, 200), !.closed = TRUE, !.ph = "closed", !.blk = TRUE, !.open = FALSE,
                         !.ev = Append(@, EvC)]

(* the message is complete *)
AfterFinish(s, c) ==
    IF c.mode = "client" THEN [s EXCEPT !.ph = "closed", !.closed = TRUE, !.blk = TRUE]
    ELSE IF c.respond = "raise"            \* the application's finish() raises: no response, the connection is closed,
    THEN [s EXCEPT !.ph = "closed", !.closed = TRUE, !.blk = TRUE]      \* and finish() stays the only end notification
    ELSE IF c.respond = "async" THEN [s EXCEPT !.ph = "wait"]
    ELSE IF s.persist THEN [s EXCEPT !.ph = "head", !.out = Append(@, 200)]
    ELSE [s EXCEPT !.ph = "closed", !.closed = TRUE, !.blk = TRUE, !.out = Append(@, 200)]

GzLookup(c, enc) == SelectSeq(c.gz, LAMBDA g : g.enc = enc)
GzPrefixOf(c, enc) == SelectSeq(c.gz, LAMBDA g : IsPrefix(enc, g.enc))

EndBody(s, c) ==
    IF ~s.gz \/ s.enc = <<>> THEN AfterFinish([Emit(s, EvF) EXCEPT !.open = FALSE, !.gz = FALSE], c)
    ELSE LET g == GzLookup(c, s.enc) IN
         IF g = <<>> THEN Reject400(s, "gzip", c)                 \* truncated or corrupt member
         ELSE IF Len(g[1].dec) > s.maxb THEN Reject400(s, "gzsize", c)
         ELSE AfterFinish([Emit(Emit(s, EvD(g[1].dec)), EvF) EXCEPT !.open = FALSE, !.gz = FALSE], c)

(* n body bytes are taken from the buffer *)
Take(s, b, n) ==
    LET data == SubSeq(b, s.pos + 1, s.pos + n) IN
    IF s.gz THEN [s EXCEPT !.pos = @ + n, !.owed = @ - n, !.enc = @ \o data]
    ELSE [s EXCEPT !.pos = @ + n, !.owed = @ - n, !.ev = AppendD(@, data)]

-----------------------------------------------------------------------------
(* the header block *)

KeepAlive(sl, hs, fr) ==
    LET conn == ToLower(Combined(hs, <<99, 111, 110, 110, 101, 99, 116, 105, 111, 110>>)) IN  \* "connection"
    IF sl[3][8] = 49                                                                          \* 1.1: no "close" option
    THEN LET opts == SplitOn(conn, Comma) IN
         \A i \in 1..Len(opts) : Strip(opts[i], OWS) # <<99, 108, 111, 115, 101>>
    ELSE /\ (fr[1] # "none" \/ sl[1] \in {<<71, 69, 84>>, <<72, 69, 65, 68>>})               \* GET, HEAD
         /\ conn = <<107, 101, 101, 112, 45, 97, 108, 105, 118, 101>>                        \* "keep-alive"

NameCL == <<99, 111, 110, 116, 101, 110, 116, 45, 108, 101, 110, 103, 116, 104>>                        \* content-length
NameTE == <<116, 114, 97, 110, 115, 102, 101, 114, 45, 101, 110, 99, 111, 100, 105, 110, 103>>         \* transfer-encoding
NameCE == <<99, 111, 110, 116, 101, 110, 116, 45, 101, 110, 99, 111, 100, 105, 110, 103>>              \* content-encoding
NameXC == <<120, 45, 99, 111, 110, 115, 117, 109, 101, 100, 45>> \o NameCE                             \* x-consumed-content-encoding
NameHost == <<104, 111, 115, 116>>

(* message body length, RFC 9112 section 6.3: [ok, fr] with fr = <<"none">> | <<"fixed", n>> | <<"chunked">> | <<"close">> *)
Framing(hs, c, code, skip) ==
    LET hasCL == Has(hs, NameCL)
        hasTE == Has(hs, NameTE)
        cl == ParseCL(Combined(hs, NameCL))
        chunked == ToLower(Combined(hs, NameTE)) = Chunked IN
    IF skip THEN [ok |-> TRUE, fr |-> <<"none">>]          \* response to HEAD / 304: never a body
    ELSE IF hasCL /\ ~cl.ok THEN [ok |-> FALSE, cause |-> "cl"]
    ELSE IF hasTE /\ hasCL THEN [ok |-> FALSE, cause |-> "clte"]
    ELSE IF hasTE /\ ~chunked THEN [ok |-> FALSE, cause |-> "te"]
    ELSE IF code = 204 THEN (IF hasTE \/ (hasCL /\ cl.n # 0) THEN [ok |-> FALSE, cause |-> "204body"]
                             ELSE [ok |-> TRUE, fr |-> <<"none">>])
    ELSE IF hasTE THEN [ok |-> TRUE, fr |-> <<"chunked">>]
    ELSE IF hasCL THEN [ok |-> TRUE, fr |-> <<"fixed", cl.n>>]
    ELSE IF c.mode = "client" THEN [ok |-> TRUE, fr |-> <<"close">>]
    ELSE [ok |-> TRUE, fr |-> <<"none">>]

(* a duplicated / list-valued Content-Length with identical members is replaced by the single value
   before the message is handed on (RFC 9112 6.3 rule 5) *)
NormCL(hs) ==
    IF ~Has(hs, NameCL) THEN hs
    ELSE LET v == SplitOn(Combined(hs, NameCL), Comma)[1]
             first == Min({i \in 1..Len(hs) : hs[i][1] = NameCL})
             keep == SelectSeq([i \in 1..Len(hs) |-> i], LAMBDA i : hs[i][1] # NameCL \/ i = first) IN
         [j \in 1..Len(keep) |-> IF keep[j] = first THEN <<NameCL, v>> ELSE hs[keep[j]]]

CLMembersEqual(hs) == LET p == SplitOn(Combined(hs, NameCL), Comma)
                          q == [i \in 1..Len(p) |-> IF i = 1 THEN p[i] ELSE LStrip(p[i], OWS)] IN
                      Has(hs, NameCL) /\ \A i \in 1..Len(q) : q[i] = q[1]

(* Content-Encoding: gzip is decoded when configured; the field is then renamed *)
IsGz(hs, c) == c.decompress /\ ToLower(Combined(hs, NameCE)) = Gzip
GzHeaders(hs) == Append(WithoutName(hs, NameCE), <<NameXC, Combined(hs, NameCE)>>)

Begin(s, c, sl, hs, fr, e, code) ==
    LET gzf == IsGz(hs, c)
        hs2 == IF gzf THEN GzHeaders(hs) ELSE hs
        mb == IF c.override # None THEN c.override ELSE c.maxBody
        s1 == [s EXCEPT !.pos = e, !.maxb = mb, !.gz = gzf, !.enc = <<>>, !.total = 0, !.code = code,
                        !.persist = IF c.mode = "server" THEN KeepAlive(sl, hs, fr) ELSE FALSE]
        hOpen(opt) == [Emit(s1, EvH(sl, hs2, fr, opt, gzf)) EXCEPT !.open = TRUE] IN
    IF fr[1] = "fixed" /\ fr[2] > mb THEN Reject400(hOpen(TRUE), "bodysize", c)
    ELSE IF fr[1] = "none" \/ (fr[1] = "fixed" /\ fr[2] = 0) THEN EndBody(hOpen(FALSE), c)
    ELSE IF fr[1] = "fixed" THEN [hOpen(FALSE) EXCEPT !.ph = "fixed", !.owed = fr[2]]
    ELSE IF fr[1] = "chunked" THEN [hOpen(FALSE) EXCEPT !.ph = "csize"]
    ELSE [hOpen(FALSE) EXCEPT !.ph = "untilclose"]

ServerHead(s, c, block, e) ==
    LET t == LStrip(block, {CR, LF})
        lf == FirstIn(t, {LF})
        line == IF lf = 0 THEN <<>> ELSE ChopCR(SubSeq(t, 1, lf - 1))
        rl == ParseRequestLine(line)
        fl == ParseFieldLines(Lines(SubSeq(t, lf + 1, Len(t)))) IN
    IF lf = 0 \/ ~rl.ok THEN Reject400(s, "startline", c)
    ELSE IF ~fl.ok THEN Reject400(s, "header", c)
    ELSE LET hs == fl.hs
             sl == <<rl.method, rl.target, rl.version>>
             host == Combined(hs, NameHost)
             fm == Framing(hs, c, 0, FALSE) IN
         IF ~Has(hs, NameHost) /\ rl.version[8] = 49 THEN Reject400(s, "host", c)
         ELSE IF Has(hs, NameHost) /\ ~HostOK(host) THEN Reject400(s, "host", c)
         ELSE IF c.respond = "early"
         THEN (* answered from headers_received, whatever the framing says (it is examined afterwards) *)
              EarlyEnd([Emit(s, EvH(sl, IF CLMembersEqual(hs) THEN NormCL(hs) ELSE hs, <<"early">>, FALSE, FALSE))
                           EXCEPT !.pos = e, !.open = TRUE])
         ELSE IF ~fm.ok THEN Reject400([Emit(s, EvH(sl, hs, <<"bad">>, TRUE, FALSE)) EXCEPT !.open = TRUE], fm.cause, c)
         ELSE Begin(s, c, sl, NormCL(hs), fm.fr, e, 0)

ClientHead(s, c, block, e) ==
    LET t == LStrip(block, {CR, LF})
        lf == FirstIn(t, {LF})
        line == IF lf = 0 THEN <<>> ELSE ChopCR(SubSeq(t, 1, lf - 1))
        st == ParseStatusLine(line)
        fl == ParseFieldLines(Lines(SubSeq(t, lf + 1, Len(t)))) IN
    IF lf = 0 \/ ~st.ok THEN Reject400(s, "startline", c)
    ELSE IF ~fl.ok THEN Reject400(s, "header", c)
    ELSE LET hs == fl.hs
             sl == <<st.version, st.code, st.reason>> IN
         IF st.code >= 100 /\ st.code < 200
         THEN (* interim response: no body allowed, the real response follows *)
              IF Has(hs, NameCL) \/ Has(hs, NameTE) THEN Reject400(s, "1xxbody", c)
              ELSE [s EXCEPT !.pos = e, !.code = st.code]
         ELSE LET fm == Framing(hs, c, st.code, c.head \/ st.code = 304) IN
              IF ~fm.ok THEN Reject400(s, fm.cause, c)
              ELSE Begin(s, c, sl, IF c.head \/ st.code = 304 THEN hs ELSE NormCL(hs), fm.fr, e, st.code)

HeadStep(s, c, b, e) ==
    LET from == s.pos + 1
        end == HdrEnd(b, from)
        avail == Len(b) - s.pos IN
    IF end = 0 THEN
        IF avail > c.maxHdr THEN RejectClose(s, "hdrsize")
        ELSE IF e THEN (IF c.mode = "client" THEN RejectClose(s, "eof") ELSE Abort(s))
        ELSE Block(s)
    ELSE IF end - s.pos > c.maxHdr THEN RejectClose(s, "hdrsize")
    ELSE IF c.mode = "server" THEN ServerHead(s, c, SubSeq(b, from, end), end)
    ELSE ClientHead(s, c, SubSeq(b, from, end), end)

-----------------------------------------------------------------------------
(* the body *)

Truncated(s, c) == IF c.mode = "client" THEN RejectClose(s, "eof") ELSE Abort(s)

DataStep(s, c, b, e, next) ==
    LET avail == Len(b) - s.pos IN
    IF avail = 0 THEN (IF e THEN Truncated(s, c) ELSE Block(s))
    ELSE LET n == IF avail < s.owed THEN avail ELSE s.owed
             s1 == Take(s, b, n) IN
         IF c.mode = "server" /\ c.respond = "earlydata" /\ ~s.gz THEN EarlyEnd(s1)     \* answered from this data_received
         ELSE IF s1.owed > 0 THEN s1
         ELSE IF next = "end" THEN EndBody(s1, c) ELSE [s1 EXCEPT !.ph = next]

ChunkSizeStep(s, c, b, e) ==
    LET end == CrlfEnd(b, s.pos + 1)
        avail == Len(b) - s.pos IN
    IF end = 0 THEN
        IF avail > MaxChunkLine THEN RejectClose(s, "chunkline")
        ELSE IF e THEN Truncated(s, c) ELSE Block(s)
    ELSE IF end - s.pos > MaxChunkLine THEN RejectClose(s, "chunkline")
    ELSE LET line == SubSeq(b, s.pos + 1, end - 2) IN
         IF ~IsHex(line) THEN Reject400(s, "chunksize", c)
         ELSE LET n == HexVal(line)
                  tot == IF s.total + n > Huge THEN Huge ELSE s.total + n IN
              IF n = 0 THEN [s EXCEPT !.pos = end, !.ph = "clast"]
              ELSE IF tot > s.maxb THEN Reject400(s, "bodysize", c)
              ELSE [s EXCEPT !.pos = end, !.ph = "cdata", !.owed = n, !.total = tot]

CrlfStep(s, c, b, e, cause, next) ==
    LET avail == Len(b) - s.pos IN
    IF avail < 2 THEN (IF e THEN Truncated(s, c) ELSE Block(s))
    ELSE IF b[s.pos + 1] # CR \/ b[s.pos + 2] # LF THEN Reject400(s, cause, c)
    ELSE IF next = "end" THEN EndBody([s EXCEPT !.pos = @ + 2], c)
    ELSE [s EXCEPT !.pos = @ + 2, !.ph = next]

(* close-delimited body (client only): the body ends when the peer closes.  Bytes beyond the limit are
   never handed over; the refusal is pronounced when the message ends (an implementation may notice earlier) *)
UntilCloseStep(s, c, b, e) ==
    LET avail == Len(b) - s.pos
        tot == IF s.total + avail > Huge THEN Huge ELSE s.total + avail
        room == IF s.maxb > s.total THEN s.maxb - s.total ELSE 0
        n == IF avail < room THEN avail ELSE room            \* bytes still within the limit are handed over
        s0 == IF n = 0 THEN s ELSE Take([s EXCEPT !.owed = n], b, n)
        s1 == [s0 EXCEPT !.pos = Len(b), !.total = tot, !.owed = 0] IN
    IF ~e THEN Block(s1)
    ELSE IF tot > s.maxb THEN Reject400(s1, "bodysize", c)
    ELSE EndBody(s1, c)

Micro(s, c, b, e) ==
    CASE s.ph = "head" -> HeadStep(s, c, b, e)
      [] s.ph = "fixed" -> DataStep(s, c, b, e, "end")
      [] s.ph = "csize" -> ChunkSizeStep(s, c, b, e)
      [] s.ph = "cdata" -> DataStep(s, c, b, e, "ccrlf")
      [] s.ph = "ccrlf" -> CrlfStep(s, c, b, e, "chunkterm", "csize")
      [] s.ph = "clast" -> CrlfStep(s, c, b, e, "lastterm", "end")
      [] s.ph = "untilclose" -> UntilCloseStep(s, c, b, e)
      [] s.ph = "wait" -> (* idle until the application answers.  The transport notices the peer's close while
                             idle only if no unread bytes are buffered (otherwise when reading resumes) *)
                          IF e /\ Len(b) = s.pos THEN Abort(s) ELSE Block(s)
      [] OTHER -> Block(s)

(* run until nothing more can be done with the bytes that have arrived *)
Eager(s, c, b, e) ==
    LET K == Len(b) - s.pos + 2 IN
    FoldLeft(LAMBDA x, i : IF x.blk THEN x ELSE Micro(x, c, b, e),
             [s EXCEPT !.blk = FALSE], [i \in 1..K |-> i])

OneShot(c, b, e) == Eager(R0, c, b, e)

-----------------------------------------------------------------------------
(* projection: what the application and the peer have seen *)

Msgs(ev) ==
    FoldLeft(LAMBDA ms, x :
        IF x[1] = "H" THEN Append(ms, [sl |-> x[2], hs |-> x[3], fr |-> x[4], opt |-> x[5], gz |-> x[6],
                                       body |-> <<>>, end |-> ""])
        ELSE IF x[1] = "D" THEN [ms EXCEPT ![Len(ms)].body = @ \o x[2]]
        ELSE [ms EXCEPT ![Len(ms)].end = @ \o x[1]],
        <<>>, ev)

(* decoded content the gzip message in progress will have (for the prefix obligation) *)
GzDec(c, s) == LET g == GzPrefixOf(c, s.enc) IN IF s.gz /\ g # <<>> THEN g[1].dec ELSE <<>>

Proj(c, s) == [msgs |-> Msgs(s.ev), out |-> s.out, closed |-> s.closed, rej |-> s.rej,
               gzflux |-> s.gz, gzdec |-> GzDec(c, s), gzover |-> s.gz /\ Len(GzDec(c, s)) > s.maxb, maxb |-> s.maxb]

Obs(a, args) == [act |-> a, args |-> args, exp |-> Proj(cfg, r')]

-----------------------------------------------------------------------------
(* actions *)

InitWith(c, w) ==
    /\ cfg = c
    /\ wire = w
    /\ buf = <<>>
    /\ eof = FALSE
    /\ r = R0
    /\ step = [act |-> "init", args |-> <<>>, exp |-> Proj(c, R0)]

(* effects of the events, as functions of the reader state (shared by the actions below and by the
   generation modules) *)
BodyPhases == {"fixed", "csize", "cdata", "ccrlf", "clast"}
AfterArrive(s, c, b) == Eager(s, c, b, FALSE)
AfterEof(s, c, b) == Eager(s, c, b, TRUE)
CanRespond(s) == s.ph = "wait" /\ ~s.closed
AfterRespond(s, c, b, e) ==
    LET s1 == [s EXCEPT !.out = Append(@, 200)]
        s2 == IF s.persist THEN [s1 EXCEPT !.ph = "head"]
              ELSE [s1 EXCEPT !.ph = "closed", !.closed = TRUE] IN
    Eager(s2, c, b, e)
CanTimeout(s, c) == c.btimeout /\ ~s.closed /\ s.ph \in BodyPhases
CanShutdown(s, c) == c.mode = "server" /\ c.shut /\ ~s.closed

(* n more bytes of the wire arrive *)
Arrive(n) ==
    /\ ~eof /\ ~r.closed
    /\ n \in 1..(Len(wire) - Len(buf))
    /\ buf' = SubSeq(wire, 1, Len(buf) + n)
    /\ r' = AfterArrive(r, cfg, buf')
    /\ UNCHANGED <<cfg, wire, eof>>
    /\ step' = Obs("arrive", <<n>>)

(* the peer closes *)
PeerClose ==
    /\ ~eof /\ ~r.closed
    /\ eof' = TRUE
    /\ r' = AfterEof(r, cfg, buf)
    /\ UNCHANGED <<cfg, wire, buf>>
    /\ step' = Obs("eof", <<>>)

(* the application finishes its (asynchronous) response *)
Respond ==
    /\ CanRespond(r)
    /\ r' = AfterRespond(r, cfg, buf, eof)
    /\ UNCHANGED <<cfg, wire, buf, eof>>
    /\ step' = Obs("respond", <<>>)

(* the body timeout fires while a body is being read *)
BodyTimeout ==
    /\ CanTimeout(r, cfg)
    /\ r' = Abort(r)
    /\ UNCHANGED <<cfg, wire, buf, eof>>
    /\ step' = Obs("timeout", <<>>)

(* the server shuts the connection down (close_all_connections) *)
Shutdown ==
    /\ CanShutdown(r, cfg)
    /\ r' = Abort(r)
    /\ UNCHANGED <<cfg, wire, buf, eof>>
    /\ step' = Obs("shutdown", <<>>)

(* MC bounds the piece sizes: Sizes, or everything that is left *)
Next == \/ \E n \in 1..Len(wire) : (n \in Sizes \/ n = Len(wire) - Len(buf)) /\ Arrive(n)
        \/ PeerClose
        \/ Respond
        \/ BodyTimeout
        \/ Shutdown

-----------------------------------------------------------------------------
(* properties *)

RangeOf(q) == {q[i] : i \in 1..Len(q)}
View == vars                                               \* hides step

TypeOK == /\ r.pos <= Len(buf)
          /\ IsPrefix(buf, wire)
          /\ r.closed <=> r.ph = "closed"
          /\ r.blk

(* C01 chunking independence: however the bytes arrived, the application has seen exactly what a
   reader given the same bytes in one piece sees (while no timing event - Respond, timeout, shutdown - intervened) *)
Confluent ==
    (cfg.respond = "sync" /\ ~cfg.btimeout /\ ~cfg.shut) =>
        LET o == OneShot(cfg, buf, eof) IN
        r = o

(* C01: a message with both Content-Length and Transfer-Encoding, or an invalid one of either, never finishes *)
BadFramingNeverFinishes ==
    \A m \in RangeOf(Msgs(r.ev)) : m.fr = <<"bad">> => m.end = "C"

(* C01/C05: a finished fixed-length message delivered exactly the declared number of bytes *)
FinishedComplete ==
    \A m \in RangeOf(Msgs(r.ev)) : (m.end = "F" /\ m.fr[1] = "fixed" /\ ~m.gz) => Len(m.body) = m.fr[2]

(* C04: never more than the effective limit of body bytes per message *)
BodyBounded ==
    \A m \in RangeOf(Msgs(r.ev)) : Len(m.body) <= (IF cfg.override # None THEN cfg.override ELSE cfg.maxBody)

(* C05: at most one of finish / close per message, exactly one once the connection is closed;
   only the last message can be unfinished *)
OneEnd ==
    LET ms == Msgs(r.ev) IN
    /\ \A i \in 1..Len(ms) : ms[i].end \in {"", "F", "C"}
    /\ \A i \in 1..Len(ms) : i < Len(ms) => ms[i].end = "F"
    /\ r.closed => \A i \in 1..Len(ms) : ms[i].end # ""
    /\ r.open <=> (ms # <<>> /\ ms[Len(ms)].end = "")

(* C05: what was delivered is a prefix of what the peer sent in full *)
FullParse(c, w) == Msgs(OneShot([c EXCEPT !.respond = "sync"], w, TRUE).ev)
PrefixOf(full) ==
    LET ms == Msgs(r.ev) IN
    /\ Len(ms) <= Len(full)
    /\ \A i \in 1..Len(ms) : /\ ms[i].sl = full[i].sl /\ ms[i].hs = full[i].hs
                             /\ IsPrefix(ms[i].body, full[i].body)
                             /\ (ms[i].end = "F" /\ ms[i].fr[1] # "close") => ms[i].body = full[i].body   \* (a close-delimited body ends where the peer closes)

(* a refusal answers 400 or nothing, closes, and is final *)
RefusalCloses == r.rej # "none" => r.closed
Final == [][r.closed => (r'.ev = r.ev /\ r'.out = r.out /\ r'.closed)]_vars
=============================================================================
