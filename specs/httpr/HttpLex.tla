------------------------------ MODULE HttpLex ------------------------------
(***************************************************************************)
(* Byte-level HTTP/1.x grammar (RFC 9110 / 9112 subset) as pure operators  *)
(* over Seq(0..255).  Shared by HttpReader (server reader: C01 C04 C05;    *)
(* client reader: C08 and the response oracle of C02/C03/C07).             *)
(*                                                                         *)
(* Leniencies are exactly the documented ones: a line ends at LF with one  *)
(* optional CR before it; obsolete line folding is joined with one SP;     *)
(* empty lines before the start line are skipped.  Everything else is the  *)
(* strict grammar.  All iteration is FoldLeft / set filters (no recursion).*)
(***************************************************************************)
EXTENDS Integers, Sequences, FiniteSets, SequencesExt, FiniteSetsExt

CR == 13
LF == 10
SP == 32
HT == 9
Colon == 58
Comma == 44
Pct == 37
Huge == 2000000000       \* "larger than any limit": TLC integers are 32 bit

Digit == 48..57
UpperC == 65..90
LowerC == 97..122
Alpha == UpperC \cup LowerC
\* tchar = "!" / "#" / "$" / "%" / "&" / "'" / "*" / "+" / "-" / "." / "^" / "_" / "`" / "|" / "~" / DIGIT / ALPHA
TChar == Digit \cup Alpha \cup {33, 35, 36, 37, 38, 39, 42, 43, 45, 46, 94, 95, 96, 124, 126}
VChar == 33..126
ObsText == 128..255
FieldVChar == VChar \cup ObsText
OWS == {SP, HT}
FieldContent == FieldVChar \cup OWS
HexDigit == Digit \cup (65..70) \cup (97..102)
\* host = *( unreserved / sub-delims / pct-encoded / "[" / "]" / ":" )   (RFC 3986 reg-name / IP-literal, simplified)
HostChar == Alpha \cup Digit \cup {45, 46, 95, 126} \cup {33, 36, 38, 39, 40, 41, 42, 43, 44, 59, 61} \cup {91, 93, 58}

AllIn(s, S) == \A i \in 1..Len(s) : s[i] \in S
IsToken(s) == Len(s) > 0 /\ AllIn(s, TChar)
ToLower(s) == [i \in 1..Len(s) |-> IF s[i] \in UpperC THEN s[i] + 32 ELSE s[i]]

FirstIn(s, S) == SelectInSeq(s, LAMBDA c : c \in S)          \* 0 if none
FirstNotIn(s, S) == SelectInSeq(s, LAMBDA c : c \notin S)
LastNotIn(s, S) == SelectLastInSeq(s, LAMBDA c : c \notin S)

LStrip(s, S) == LET a == FirstNotIn(s, S) IN IF a = 0 THEN <<>> ELSE SubSeq(s, a, Len(s))
Strip(s, S) == LET a == FirstNotIn(s, S) IN IF a = 0 THEN <<>> ELSE SubSeq(s, a, LastNotIn(s, S))
ChopCR(s) == IF Len(s) > 0 /\ s[Len(s)] = CR THEN SubSeq(s, 1, Len(s) - 1) ELSE s

(* split at every occurrence of byte c (like str.split(c)): always Len >= 1 *)
SplitOn(s, c) ==
    LET a == FoldLeft(LAMBDA acc, x : IF x = c THEN [done |-> Append(acc.done, acc.cur), cur |-> <<>>]
                                               ELSE [done |-> acc.done, cur |-> Append(acc.cur, x)],
                      [done |-> <<>>, cur |-> <<>>], s)
    IN Append(a.done, a.cur)

(* lines of a block: split at LF, one optional CR before each LF dropped *)
Lines(s) == LET ls == SplitOn(s, LF) IN [i \in 1..Len(ls) |-> IF i < Len(ls) THEN ChopCR(ls[i]) ELSE ls[i]]

(* the header block ends at the first empty line: LF (CR)? LF.  HdrEnd = index of the last byte
   of the terminator at or after from, 0 if there is none yet. *)
IsTermAt(w, i) == /\ w[i] = LF
                  /\ \/ (i + 1 <= Len(w) /\ w[i + 1] = LF)
                     \/ (i + 2 <= Len(w) /\ w[i + 1] = CR /\ w[i + 2] = LF)
HdrEnd(w, from) == LET S == {i \in from..Len(w) : IsTermAt(w, i)}
                   IN IF S = {} THEN 0
                      ELSE LET i == Min(S) IN IF w[i + 1] = LF THEN i + 1 ELSE i + 2
(* first CRLF at or after from: index of the LF, 0 if none *)
CrlfEnd(w, from) == LET S == {i \in from..(Len(w) - 1) : w[i] = CR /\ w[i + 1] = LF}
                    IN IF S = {} THEN 0 ELSE Min(S) + 1

(* numbers: value of 1*DIGIT / 1*HEXDIG, Huge when it cannot matter *)
DigitVal(c) == c - 48
HexVal1(c) == IF c \in Digit THEN c - 48 ELSE IF c \in 65..70 THEN c - 55 ELSE c - 87
IsDec(s) == Len(s) > 0 /\ AllIn(s, Digit)
IsHex(s) == Len(s) > 0 /\ AllIn(s, HexDigit)
DecVal(s) == LET t == LStrip(s, {48}) IN
             IF Len(t) > 9 THEN Huge ELSE FoldLeft(LAMBDA a, c : a * 10 + DigitVal(c), 0, t)
HexVal(s) == LET t == LStrip(s, {48}) IN
             IF Len(t) > 7 THEN Huge ELSE FoldLeft(LAMBDA a, c : a * 16 + HexVal1(c), 0, t)

(* ---- header fields ---- *)
(* hs = sequence of <<lower-case name, value>> in wire order *)
HBad == [ok |-> FALSE, hs |-> <<>>]
ParseFieldLines(lines) ==
    FoldLeft(LAMBDA acc, ln :
        IF ~acc.ok \/ ln = <<>> THEN acc
        ELSE IF ln[1] \in OWS
        THEN (* obs-fold: continuation of the previous field line *)
             IF acc.hs = <<>> THEN HBad
             ELSE LET part == Strip(ln, OWS) IN
                  IF ~AllIn(part, FieldContent) THEN HBad
                  ELSE (* joined with one SP; optional whitespace is never part of a field value, so an
                          empty first line or an empty continuation leaves no edge whitespace *)
                       [acc EXCEPT !.hs[Len(acc.hs)][2] = Strip(@ \o <<SP>> \o part, OWS)]
        ELSE LET c == FirstIn(ln, {Colon}) IN
             IF c = 0 THEN HBad
             ELSE LET name == SubSeq(ln, 1, c - 1)
                      value == Strip(SubSeq(ln, c + 1, Len(ln)), OWS) IN
                  IF ~IsToken(name) \/ ~AllIn(value, FieldContent) THEN HBad
                  ELSE [acc EXCEPT !.hs = Append(@, <<ToLower(name), value>>)],
        [ok |-> TRUE, hs |-> <<>>], lines)

Has(hs, name) == \E i \in 1..Len(hs) : hs[i][1] = name
Values(hs, name) == LET idx == SelectSeq([i \in 1..Len(hs) |-> i], LAMBDA i : hs[i][1] = name)
                    IN [j \in 1..Len(idx) |-> hs[idx[j]][2]]
JoinComma(vs) == FoldLeft(LAMBDA acc, v : IF acc.first THEN [first |-> FALSE, s |-> v]
                                           ELSE [first |-> FALSE, s |-> acc.s \o <<Comma>> \o v],
                          [first |-> TRUE, s |-> <<>>], vs).s
Combined(hs, name) == JoinComma(Values(hs, name))      \* the combined field value (RFC 9110 5.3)
WithoutName(hs, name) == SelectSeq(hs, LAMBDA h : h[1] # name)

(* ---- start lines ---- *)
IsVersion(s) == /\ Len(s) = 8
                /\ SubSeq(s, 1, 5) = <<72, 84, 84, 80, 47>>       \* "HTTP/"
                /\ s[6] \in Digit /\ s[7] = 46 /\ s[8] \in Digit
(* request-line = method SP request-target SP HTTP-version; only HTTP/1.x is served *)
ParseRequestLine(s) ==
    LET p == SplitOn(s, SP) IN
    IF Len(p) # 3 THEN [ok |-> FALSE]
    ELSE IF ~IsToken(p[1]) \/ Len(p[2]) = 0 \/ ~AllIn(p[2], FieldVChar) \/ ~IsVersion(p[3]) THEN [ok |-> FALSE]
    ELSE IF p[3][6] # 49 THEN [ok |-> FALSE]
    ELSE [ok |-> TRUE, method |-> p[1], target |-> p[2], version |-> p[3]]
(* status-line = HTTP-version SP 3DIGIT SP [reason-phrase] *)
ParseStatusLine(s) ==
    IF Len(s) < 13 THEN [ok |-> FALSE]
    ELSE LET v == SubSeq(s, 1, 8)  c == SubSeq(s, 10, 12)  reason == SubSeq(s, 14, Len(s)) IN
         IF ~IsVersion(v) \/ s[9] # SP \/ ~AllIn(c, Digit) \/ s[13] # SP
            \/ ~AllIn(reason, FieldVChar \cup OWS) \/ v[6] # 49 THEN [ok |-> FALSE]
         ELSE [ok |-> TRUE, version |-> v, code |-> DecVal(c), reason |-> reason]

(* Host = uri-host [ ":" port ]; a comma is refused (merged duplicate Host fields) *)
HostOK(v) == /\ \A i \in 1..Len(v) :
                   \/ v[i] \in HostChar
                   \/ (v[i] = Pct /\ i + 2 <= Len(v) /\ v[i + 1] \in HexDigit /\ v[i + 2] \in HexDigit)
             /\ \A i \in 1..Len(v) : v[i] # Comma

(* Content-Length: a list of identical 1*DIGIT members is tolerated (RFC 9112 6.3 rule 5).
   Result: [ok, n]. *)
ParseCL(v) ==
    LET p == SplitOn(v, Comma)
        q == [i \in 1..Len(p) |-> IF i = 1 THEN p[i] ELSE LStrip(p[i], OWS)] IN
    IF \E i \in 1..Len(q) : q[i] # q[1] THEN [ok |-> FALSE, n |-> 0]
    ELSE IF ~IsDec(q[1]) THEN [ok |-> FALSE, n |-> 0]
    ELSE [ok |-> TRUE, n |-> DecVal(q[1])]

Chunked == <<99, 104, 117, 110, 107, 101, 100>>        \* "chunked"
Gzip == <<103, 122, 105, 112>>                         \* "gzip"
=============================================================================
