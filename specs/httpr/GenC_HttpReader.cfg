SPECIFICATION GenSpecC
CONSTANTS
  Sizes = {1}
  RLs = {1}
  HOSTs = {1}
  FRs = {1}
  FR2s = {1}
  XHs = {1}
  BLANKs = {1, 2}
  BODYs = {1}
  TAILs = {1}
  SLs = {1, 2, 3, 4, 5, 6, 7, 8, 9, 10, 13}
  RHs = {1, 2, 3, 4, 6, 7, 8, 12, 14, 15, 16}
  RH2s = {1, 2, 3, 4}
  RBs = {1, 2, 3, 4, 5, 6, 7, 8, 9, 10, 13}
  Dev = 1
  GenModes = {"client"}
  GenMaxBodies = {1000000}
  GenMaxHdrs = {65536}
  GenHeads = {FALSE, TRUE}
  LimWidth = 1
  GzIdx = {1, 3, 4}
  GzFrs = {"cl"}
  GzDrops = {0, 5}
  GzKeeps = {1, 10, 11, 12, 20}
  GzRespFrs = {"cl", "ch", "close"}
CHECK_DEADLOCK FALSE
