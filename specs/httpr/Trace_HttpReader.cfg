SPECIFICATION TraceSpec
CONSTANTS
  Sizes = {1}
CONSTRAINT Report
INVARIANT TypeOK
INVARIANT BadFramingNeverFinishes
INVARIANT FinishedComplete
INVARIANT BodyBounded
INVARIANT OneEnd
INVARIANT RefusalCloses
PROPERTY Final
CHECK_DEADLOCK FALSE
