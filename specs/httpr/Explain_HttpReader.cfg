SPECIFICATION XSpec
CONSTANTS
  Sizes = {1}
CHECK_DEADLOCK FALSE
