--------------------------- MODULE GenT_HttpReader ---------------------------
(* Test-case generation for C05 (function style, like Gen_HttpReader): for one (configuration, wire)
   the Compute step stores the tree of behaviours
        arrive byte by byte ... at any point: the peer closes | the body times out | the server
        shuts down | the application answers (then the arrival continues, depth-bounded)
   as `tree` = sequence of nodes, one per number k of bytes arrived:
     [k, arr  : change when byte k arrives (Entry, as in Gen_HttpReader),
         eof  : change when the peer closes now,
         tmo  : << change when the body timeout fires now >> or << >> if not enabled,
         shut : << change when the server shuts down now >> or << >>,
         resp : << [ent |-> change when the application answers now, sub |-> tree of what follows] >> or << >>]
   Every root-to-event path is a behaviour of HttpReader (Arrive*, then PeerClose / BodyTimeout /
   Shutdown / Respond ...); the effects are the same operators the actions use. *)
EXTENDS HttpWires
CONSTANTS TResponds, TTimeouts, TShuts

VARIABLES tree, done

Delta(s, s2) ==
    LET base == Len(s.ev)
        ext == base > 0 /\ s.ev[base][1] = "D" /\ s2.ev[base] # s.ev[base]
        first == IF ext THEN << EvD(SubSeq(s2.ev[base][2], Len(s.ev[base][2]) + 1, Len(s2.ev[base][2]))) >>
                 ELSE <<>>
    IN first \o SubSeq(s2.ev, base + 1, Len(s2.ev))
Entry(c, k, s, s2) == [k |-> k, ev |-> Delta(s, s2), out |-> s2.out, closed |-> s2.closed, rej |-> s2.rej]

Pre(w, k) == SubSeq(w, 1, k)

(* node for the state s reached after k bytes (prev = the state before byte k arrived) *)
Node(c, w, k, prev, s, Sub(_, _)) ==
    [k |-> k,
     arr |-> Entry(c, k, prev, s),
     eof |-> Entry(c, k, s, AfterEof(s, c, Pre(w, k))),
     tmo |-> IF CanTimeout(s, c) THEN << Entry(c, k, s, Abort(s)) >> ELSE <<>>,
     shut |-> IF CanShutdown(s, c) THEN << Entry(c, k, s, Abort(s)) >> ELSE <<>>,
     resp |-> IF CanRespond(s)
              THEN LET s2 == AfterRespond(s, c, Pre(w, k), FALSE) IN << [ent |-> Entry(c, k, s, s2), sub |-> Sub(s2, k)] >>
              ELSE <<>>]

WalkFrom(c, w, s0, k0, Sub(_, _)) ==
    FoldLeft(LAMBDA acc, k :
                IF acc.s.closed THEN acc
                ELSE LET s2 == AfterArrive(acc.s, c, Pre(w, k)) IN
                     [s |-> s2, nodes |-> Append(acc.nodes, Node(c, w, k, acc.s, s2, Sub))],
             [s |-> s0, nodes |-> <<>>],
             [i \in 1..(Len(w) - k0) |-> k0 + i]).nodes

NoSub(s, k) == <<>>
Walk0(c, w, s0, k0) == WalkFrom(c, w, s0, k0, NoSub)
Walk1(c, w, s0, k0) == WalkFrom(c, w, s0, k0, LAMBDA s, k : Walk0(c, w, s, k))
Walk2(c, w, s0, k0) == WalkFrom(c, w, s0, k0, LAMBDA s, k : Walk1(c, w, s, k))
Tree(c, w) == << Node(c, w, 0, R0, R0, LAMBDA s, k : Walk1(c, w, s, k)) >> \o Walk2(c, w, R0, 0)

TCfgs == [mode : {"server"}, maxHdr : {65536}, maxBody : {1000000}, override : {None}, decompress : {FALSE},
          gz : {<<>>}, head : {FALSE}, respond : TResponds, btimeout : TTimeouts, shut : TShuts]

GenInit == /\ \E c \in TCfgs : \E x \in ReqIdx : InitWith(c, ReqWire(x))
           /\ tree = <<>> /\ done = FALSE
Compute == /\ ~done /\ done' = TRUE
           /\ tree' = Tree(cfg, wire)
           /\ UNCHANGED <<vars, step>>
GenSpec == GenInit /\ [][Compute]_<<vars, step, tree, done>>
=============================================================================
