------------------------- MODULE Explain_HttpReader -------------------------
(* Development / replay aid: runs the events of recorded traces through HttpReader WITHOUT binding
   the observations and prints the specification's projection after every event, so that a
   rejected trace can be compared field by field with what was observed. *)
EXTENDS HttpReader, Json, IOUtils, TLCExt
Traces == ndJsonDeserialize(IOEnv.TRACE_FILE)
VARIABLES tid, l
Ev == Traces[tid].ev
XInit == /\ tid \in 1..Len(Traces) /\ l = 1 /\ InitWith(Traces[tid].cfg, Traces[tid].wire)
IsEvent(a) == l <= Len(Ev) /\ Ev[l].a = a /\ l' = l + 1 /\ UNCHANGED tid
Show == PrintT(<<"EXP", Traces[tid].id, l, ToJson(Proj(cfg, r'))>>)
XNext == \/ IsEvent("arrive") /\ Arrive(Ev[l].args[1]) /\ Show
         \/ IsEvent("eof") /\ PeerClose /\ Show
         \/ IsEvent("respond") /\ Respond /\ Show
         \/ IsEvent("timeout") /\ (IF CanTimeout(r, cfg) THEN BodyTimeout ELSE UNCHANGED <<vars, step>>) /\ Show
         \/ IsEvent("shutdown") /\ Shutdown /\ Show
XSpec == XInit /\ [][XNext]_<<vars, step, tid, l>>
=============================================================================
