----------------------------- MODULE HttpWires -----------------------------
(***************************************************************************)
(* Wire sets for model checking and generation: byte streams composed from *)
(* the token tables of HttpTokens following the message grammar            *)
(*    request  = RL HOST FR FR2 XH BLANK BODY TAIL                         *)
(*    response = SL RH RH2 BLANK RB                                        *)
(* A wire is named by its index vector; entry 1 of every slot is the plain *)
(* valid choice.  WiresD(D, ...) = all vectors with at most D non-default  *)
(* slots, plus the full product of the framing slots (FR x FR2 x BODY).    *)
(***************************************************************************)
EXTENDS HttpReader, HttpTokens, HttpGz

CONSTANTS RLs, HOSTs, FRs, FR2s, XHs, BLANKs, BODYs, TAILs,     \* index sets per slot (server)
          SLs, RHs, RH2s, RBs,                                   \* index sets per slot (client)
          Dev                                                     \* max number of non-default slots

(* index vectors are built, not filtered out of the full product (10^8 tuples with the full tables) *)
Vary(def, Slot(_), n) ==
    LET one == UNION {{[def EXCEPT ![i] = v] : v \in Slot(i)} : i \in 1..n}
        two == UNION {{[x EXCEPT ![j] = u] : u \in Slot(j)} : x \in one, j \in 1..n}
        three == UNION {{[x EXCEPT ![j] = u] : u \in Slot(j)} : x \in two, j \in 1..n} IN
    IF Dev = 0 THEN {def} ELSE IF Dev = 1 THEN one \cup {def} ELSE IF Dev = 2 THEN two \cup {def} ELSE three \cup {def}

ReqSlot(i) == CASE i = 1 -> RLs [] i = 2 -> HOSTs [] i = 3 -> FRs [] i = 4 -> FR2s [] i = 5 -> XHs
                [] i = 6 -> BLANKs [] i = 7 -> BODYs [] i = 8 -> TAILs
ReqIdx == Vary(<<1, 1, 1, 1, 1, 1, 1, 1>>, ReqSlot, 8)
          \cup {<<1, 1, f, g, 1, 1, b, t>> : f \in FRs, g \in FR2s, b \in BODYs, t \in TAILs \cap {1, 2}}
ReqWire(x) == RL[x[1]] \o HOST[x[2]] \o FR[x[3]] \o FR2[x[4]] \o XH[x[5]] \o BLANK[x[6]] \o BODY[x[7]] \o TAIL[x[8]]

RespSlot(i) == CASE i = 1 -> SLs [] i = 2 -> RHs [] i = 3 -> RH2s [] i = 4 -> BLANKs [] i = 5 -> RBs
RespIdx == Vary(<<1, 1, 1, 1, 1>>, RespSlot, 5)
           \cup {<<a, h, 1, 1, b>> : a \in SLs, h \in RHs, b \in RBs}
RespWire(x) == SL[x[1]] \o RH[x[2]] \o RH2[x[3]] \o BLANK[x[4]] \o RB[x[5]]

(* requests with a gzip body: POST, Content-Encoding: gzip, the member GzTable[g].enc framed by
   Content-Length ("cl") or as two chunks ("ch") *)
Digit1(d) == 48 + d
DecStr(n) == IF n < 10 THEN <<Digit1(n)>>
             ELSE IF n < 100 THEN <<Digit1(n \div 10), Digit1(n % 10)>>
             ELSE IF n < 1000 THEN <<Digit1(n \div 100), Digit1((n \div 10) % 10), Digit1(n % 10)>>
             ELSE <<Digit1(n \div 1000), Digit1((n \div 100) % 10), Digit1((n \div 10) % 10), Digit1(n % 10)>>
HexD(d) == IF d < 10 THEN 48 + d ELSE 87 + d
HexStr(n) == IF n < 16 THEN <<HexD(n)>>
             ELSE IF n < 256 THEN <<HexD(n \div 16), HexD(n % 16)>>
             ELSE <<HexD(n \div 256), HexD((n \div 16) % 16), HexD(n % 16)>>
CRLF == <<13, 10>>
GzHead == <<80, 79, 83, 84, 32, 47, 122, 32, 72, 84, 84, 80, 47, 49, 46, 49, 13, 10,                  \* "POST /z HTTP/1.1"
            72, 111, 115, 116, 58, 32, 104, 13, 10>>                                                   \* "Host: h"
           \o <<67, 111, 110, 116, 101, 110, 116, 45, 69, 110, 99, 111, 100, 105, 110, 103, 58, 32, 103, 122, 105, 112, 13, 10>>
ClLine(n) == <<67, 111, 110, 116, 101, 110, 116, 45, 76, 101, 110, 103, 116, 104, 58, 32>> \o DecStr(n) \o CRLF
TeLine == <<84, 114, 97, 110, 115, 102, 101, 114, 45, 69, 110, 99, 111, 100, 105, 110, 103, 58, 32>> \o Chunked \o CRLF
GzWire(g, fr, tail) ==
    LET enc == GzTable[g].enc
        h == Len(enc) \div 2 IN
    IF fr = "cl" THEN GzHead \o ClLine(Len(enc)) \o CRLF \o enc \o TAIL[tail]
    ELSE GzHead \o TeLine \o CRLF \o HexStr(h) \o CRLF \o SubSeq(enc, 1, h) \o CRLF
         \o HexStr(Len(enc) - h) \o CRLF \o SubSeq(enc, h + 1, Len(enc)) \o CRLF \o <<48>> \o CRLF \o CRLF \o TAIL[tail]

(* responses with a gzip body: member GzTable[g].enc minus its last `drop` bytes (drop > 0: a truncated
   member inside a well-framed message), framed by Content-Length ("cl"), two chunks ("ch") or the
   close of the connection ("close") *)
RespHead == <<72, 84, 84, 80, 47, 49, 46, 49, 32, 50, 48, 48, 32, 79, 75, 13, 10>>                     \* "HTTP/1.1 200 OK"
            \o <<67, 111, 110, 116, 101, 110, 116, 45, 69, 110, 99, 111, 100, 105, 110, 103, 58, 32, 103, 122, 105, 112, 13, 10>>
GzRespFramed(enc, fr) ==
    LET h == Len(enc) \div 2 IN
    IF fr = "cl" THEN RespHead \o ClLine(Len(enc)) \o CRLF \o enc
    ELSE IF fr = "close" THEN RespHead \o CRLF \o enc
    ELSE IF h = 0 THEN RespHead \o TeLine \o CRLF \o HexStr(Len(enc)) \o CRLF \o enc \o CRLF \o <<48>> \o CRLF \o CRLF
    ELSE RespHead \o TeLine \o CRLF \o HexStr(h) \o CRLF \o SubSeq(enc, 1, h) \o CRLF
         \o HexStr(Len(enc) - h) \o CRLF \o SubSeq(enc, h + 1, Len(enc)) \o CRLF \o <<48>> \o CRLF \o CRLF
GzRespWire(g, fr, drop) == GzRespFramed(SubSeq(GzTable[g].enc, 1, Len(GzTable[g].enc) - drop), fr)
(* only the first `keep` bytes of the member (very early truncation: inside the gzip header, before the
   inflater has produced anything) *)
GzRespWireK(g, fr, keep) ==
    LET n == Len(GzTable[g].enc) IN GzRespFramed(SubSeq(GzTable[g].enc, 1, IF keep < n THEN keep ELSE n - 1), fr)

BaseCfg == [mode |-> "server", maxHdr |-> 65536, maxBody |-> 1000000, override |-> None, decompress |-> FALSE,
            gz |-> <<>>, head |-> FALSE, respond |-> "sync", btimeout |-> FALSE, shut |-> FALSE]
=============================================================================
