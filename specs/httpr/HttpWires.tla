----------------------------- MODULE HttpWires -----------------------------
(***************************************************************************)
(* Wire sets for model checking and generation: byte streams composed from *)
(* the token tables of HttpTokens following the message grammar            *)
(*    request  = RL HOST FR FR2 XH BLANK BODY TAIL                         *)
(*    response = SL RH RH2 BLANK RB                                        *)
(* A wire is named by its index vector; entry 1 of every slot is the plain *)
(* valid choice.  WiresD(D, ...) = all vectors with at most D non-default  *)
(* slots, plus the full product of the framing slots (FR x FR2 x BODY).    *)
(***************************************************************************)
EXTENDS HttpReader, HttpTokens, HttpGz

CONSTANTS RLs, HOSTs, FRs, FR2s, XHs, BLANKs, BODYs, TAILs,     \* index sets per slot (server)
          SLs, RHs, RH2s, RBs,                                   \* index sets per slot (client)
          Dev                                                     \* max number of non-default slots

NonDefault(x) == Cardinality({i \in DOMAIN x : x[i] # 1})

ReqIdx == {x \in RLs \X HOSTs \X FRs \X FR2s \X XHs \X BLANKs \X BODYs \X TAILs :
              \/ NonDefault(x) <= Dev
              \/ (x[1] = 1 /\ x[2] = 1 /\ x[5] = 1 /\ x[6] = 1 /\ x[8] \in {1, 2})}
ReqWire(x) == RL[x[1]] \o HOST[x[2]] \o FR[x[3]] \o FR2[x[4]] \o XH[x[5]] \o BLANK[x[6]] \o BODY[x[7]] \o TAIL[x[8]]

RespIdx == {x \in SLs \X RHs \X RH2s \X BLANKs \X RBs :
              \/ NonDefault(x) <= Dev
              \/ (x[3] = 1 /\ x[4] = 1)}
RespWire(x) == SL[x[1]] \o RH[x[2]] \o RH2[x[3]] \o BLANK[x[4]] \o RB[x[5]]

BaseCfg == [mode |-> "server", maxHdr |-> 65536, maxBody |-> 1000000, override |-> None, decompress |-> FALSE,
            gz |-> GzTable, head |-> FALSE, respond |-> "sync", btimeout |-> FALSE, shut |-> FALSE]
=============================================================================
