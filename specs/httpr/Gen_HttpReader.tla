--------------------------- MODULE Gen_HttpReader ---------------------------
(* Test-case generation (function style): every initial state is one (configuration, wire) of the
   grammar; the Compute step stores what the reader delivers when the wire arrives byte by byte:
     trail = <<[k, ev, out, closed, rej, gzflux, gzdec], ...>>  the change observed when byte k arrives
             (ev = new delegate events; a D event extends the body of the current message),
     eofs  = the same for "the peer closes after exactly k bytes" (k = 0..Len(wire)), relative to
             the state after k bytes.
   By the Confluent invariant (checked by MC_HttpReader) the state after any segmentation whose
   pieces add up to k bytes is the fold of trail up to k, so one trail serves every schedule. *)
EXTENDS HttpWires
CONSTANTS GenModes, GenMaxBodies, GenMaxHdrs, GenHeads

VARIABLES trail, eofs, done

Delta(s, s2) ==
    LET base == Len(s.ev)
        ext == base > 0 /\ s.ev[base][1] = "D" /\ s2.ev[base] # s.ev[base]
        first == IF ext THEN << EvD(SubSeq(s2.ev[base][2], Len(s.ev[base][2]) + 1, Len(s2.ev[base][2]))) >>
                 ELSE <<>>
    IN first \o SubSeq(s2.ev, base + 1, Len(s2.ev))

Entry(c, k, s, s2) == [k |-> k, ev |-> Delta(s, s2), out |-> s2.out, closed |-> s2.closed, rej |-> s2.rej,
                       gzflux |-> s2.gz, gzdec |-> GzDec(c, s2), gzover |-> s2.gz /\ Len(GzDec(c, s2)) > s2.maxb,
                       maxb |-> s2.maxb]
Changed(s, s2) == s2.ev # s.ev \/ s2.out # s.out \/ s2.closed # s.closed \/ s2.gz # s.gz \/ s2.enc # s.enc

Walk(c, w) ==
    FoldLeft(LAMBDA acc, k :
                LET s2 == Eager(acc.s, c, SubSeq(w, 1, k), FALSE)
                    se == Eager(s2, c, SubSeq(w, 1, k), TRUE) IN
                [s |-> s2,
                 tr |-> IF Changed(acc.s, s2) THEN Append(acc.tr, Entry(c, k, acc.s, s2)) ELSE acc.tr,
                 eo |-> IF s2.closed THEN acc.eo ELSE Append(acc.eo, Entry(c, k, s2, se))],
             [s |-> R0, tr |-> <<>>, eo |-> << Entry(c, 0, R0, Eager(R0, c, <<>>, TRUE)) >>],
             [k \in 1..Len(w) |-> k])

GenCfgs == {c \in [mode : GenModes, maxHdr : GenMaxHdrs, maxBody : GenMaxBodies, override : {None},
                   decompress : {FALSE}, gz : {<<>>}, head : GenHeads, respond : {"sync"},
                   btimeout : {FALSE}, shut : {FALSE}] : c.mode = "server" => ~c.head}

GenInit == /\ \E c \in GenCfgs :
                \/ c.mode = "server" /\ \E x \in ReqIdx : InitWith(c, ReqWire(x))
                \/ c.mode = "client" /\ \E x \in RespIdx : InitWith(c, RespWire(x))
           /\ trail = <<>> /\ eofs = <<>> /\ done = FALSE
(* C04: limits placed relative to the wire: header block size -1/0/+1, body size -1/0/+1 (server limit and
   per-request override), gzip bodies with limits around the decoded and the encoded size *)
CONSTANTS LimWidth, GzIdx, GzFrs
LimDeltas == (0 - LimWidth)..LimWidth
NoLimit == [BaseCfg EXCEPT !.maxBody = Huge, !.maxHdr = Huge]
FirstBody(w) == LET ms == Msgs(OneShot(NoLimit, w, TRUE).ev) IN IF ms = <<>> THEN 0 ELSE Len(ms[1].body)
Nat0(n) == IF n < 0 THEN 0 ELSE n
LimCfgs(w) ==
    LET hsz == HdrEnd(w, 1)
        bl == FirstBody(w) IN
    {[BaseCfg EXCEPT !.maxHdr = hsz + d] : d \in {x \in LimDeltas : hsz + x >= 1}}
    \cup {[BaseCfg EXCEPT !.maxBody = Nat0(bl + d)] : d \in LimDeltas}
    \cup {[BaseCfg EXCEPT !.override = Nat0(bl + d), !.maxBody = mb] : d \in LimDeltas, mb \in {1, 1000000}}
GzCfgs(g) ==
    LET dl == Len(GzTable[g].dec)
        el == Len(GzTable[g].enc) IN
    {[BaseCfg EXCEPT !.decompress = TRUE, !.gz = GzTable, !.maxBody = Nat0(n + d)] : n \in {dl, el}, d \in LimDeltas}
    \cup {[BaseCfg EXCEPT !.decompress = TRUE, !.gz = GzTable], [BaseCfg EXCEPT !.decompress = FALSE, !.gz = GzTable]}
    \cup {[BaseCfg EXCEPT !.decompress = TRUE, !.gz = GzTable, !.override = Nat0(dl + d), !.maxBody = 1] : d \in LimDeltas}
GenInitL == /\ \/ \E x \in ReqIdx : \E c \in LimCfgs(ReqWire(x)) : InitWith(c, ReqWire(x))
               \/ \E g \in GzIdx, fr \in GzFrs, t \in TAILs : \E c \in GzCfgs(g) : InitWith(c, GzWire(g, fr, t))
            /\ trail = <<>> /\ eofs = <<>> /\ done = FALSE
(* C08: responses for the client reader: token grammar x {GET, HEAD} x decompress, body limits relative to
   the body, gzip members complete and truncated in every framing *)
CONSTANTS GzDrops, GzRespFrs, GzKeeps
ClientBase == [BaseCfg EXCEPT !.mode = "client"]
ClientBody(w) == LET ms == Msgs(OneShot([ClientBase EXCEPT !.maxBody = Huge], w, TRUE).ev) IN
                 IF ms = <<>> THEN 0 ELSE Len(ms[Len(ms)].body)
ClientCfgs(w) ==
    {[ClientBase EXCEPT !.head = hd.h, !.decompress = hd.dz, !.gz = IF hd.dz THEN GzTable ELSE <<>>] :
        hd \in {x \in [h : GenHeads, dz : BOOLEAN] : ~(x.h /\ x.dz)}}
    \cup {[ClientBase EXCEPT !.maxBody = Nat0(ClientBody(w) + d)] : d \in LimDeltas}
GzClientCfgs(g) ==
    {[ClientBase EXCEPT !.decompress = TRUE, !.gz = GzTable], [ClientBase EXCEPT !.decompress = FALSE, !.gz = GzTable],
     [ClientBase EXCEPT !.decompress = TRUE, !.gz = GzTable, !.head = TRUE]}
    \cup {[ClientBase EXCEPT !.decompress = TRUE, !.gz = GzTable, !.maxBody = Nat0(Len(GzTable[g].dec) + d)] : d \in LimDeltas}
GenInitC == /\ \/ \E x \in RespIdx : \E c \in ClientCfgs(RespWire(x)) : InitWith(c, RespWire(x))
               \/ \E g \in GzIdx, fr \in GzRespFrs, dr \in GzDrops : \E c \in GzClientCfgs(g) : InitWith(c, GzRespWire(g, fr, dr))
               \/ \E g \in GzIdx, fr \in GzRespFrs, k \in GzKeeps : \E c \in GzClientCfgs(g) : InitWith(c, GzRespWireK(g, fr, k))
            /\ trail = <<>> /\ eofs = <<>> /\ done = FALSE

Compute == /\ ~done /\ done' = TRUE
           /\ LET wk == Walk(cfg, wire) IN trail' = wk.tr /\ eofs' = wk.eo
           /\ UNCHANGED <<vars, step>>
GenSpec == GenInit /\ [][Compute]_<<vars, step, trail, eofs, done>>
GenSpecL == GenInitL /\ [][Compute]_<<vars, step, trail, eofs, done>>
GenSpecC == GenInitC /\ [][Compute]_<<vars, step, trail, eofs, done>>
=============================================================================
