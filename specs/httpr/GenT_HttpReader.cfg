SPECIFICATION GenSpec
CONSTANTS
  Sizes = {1}
  RLs = {1, 3}
  HOSTs = {1}
  FRs = {1, 2, 3}
  FR2s = {1}
  XHs = {1}
  BLANKs = {1}
  BODYs = {1, 2, 3}
  TAILs = {1, 2}
  SLs = {1}
  RHs = {1}
  RH2s = {1}
  RBs = {1}
  Dev = 0
  TResponds = {"async"}
  TTimeouts = {TRUE}
  TShuts = {TRUE}
CHECK_DEADLOCK FALSE
