SPECIFICATION MCLive
CONSTANTS
  Sizes = {1, 2, 3, 4, 8}
  RLs = {1, 3, 7}
  HOSTs = {1, 2, 4}
  FRs = {1, 2, 3, 5, 11}
  FR2s = {1, 3, 5}
  XHs = {1, 3}
  BLANKs = {1}
  BODYs = {1, 2, 3, 4, 9, 11}
  TAILs = {1, 2}
  SLs = {1, 2, 6, 9}
  RHs = {1, 2, 3, 8}
  RH2s = {1}
  RBs = {1, 2, 3, 4, 7}
  Dev = 1
  Modes = {"server"}
  Responds = {"sync", "async"}
  MaxBodies = {1000000}
  MaxHdrs = {65536}
  Overrides = {2000000001}
  Decomps = {FALSE}
  Timeouts = {FALSE, TRUE}
  Shuts = {TRUE}
  MCGz = {}
  Heads = {FALSE}
CHECK_DEADLOCK FALSE
PROPERTY ShutdownCloses
