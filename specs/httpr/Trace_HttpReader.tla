-------------------------- MODULE Trace_HttpReader --------------------------
(* Validates runs recorded from the real Tornado reader against HttpReader.tla.
   One ndjson line per run:
     {"id": n, "cfg": {...}, "wire": [bytes], "ev": [{"a": act, "args": [...], "obs": {...}}, ...]}
   acts: "arrive" [n]  (the next n bytes of wire), "eof", "respond", "timeout", "shutdown".
   obs (server) = {msgs: [{sl, hs, body, end}], out: [codes], closed, logs, errors}
   obs (client) = {st: "pending" | "ok" | "error", code, hs, body, streamed, logs (not compared), errors}
   Every event must be explained by the spec action with the logged arguments and the logged
   observation must be one the specification allows (Bind); invariants are evaluated at every step. *)
EXTENDS HttpReader, Json, IOUtils, TLCExt
Traces == ndJsonDeserialize(IOEnv.TRACE_FILE)
Verbose == IOEnv.TRACE_VERBOSE = "1"
VARIABLES tid, l
Ev == Traces[tid].ev

TraceInit ==
    /\ tid \in 1..Len(Traces)
    /\ l = 1
    /\ InitWith(Traces[tid].cfg, Traces[tid].wire)
IsEvent(a) == l <= Len(Ev) /\ Ev[l].a = a /\ l' = l + 1 /\ UNCHANGED tid

(* header fields agree up to the relative order of different names *)
Names(hs) == {hs[i][1] : i \in 1..Len(hs)}
SameFields(hs, ohs) == /\ Len(hs) = Len(ohs)
                       /\ \A n \in Names(hs) \cup Names(ohs) : Values(hs, n) = Values(ohs, n)
MsgEq(m, o) == /\ m.sl = o.sl /\ m.body = o.body /\ m.end = o.end
               /\ IF m.opt THEN SameFields(WithoutName(m.hs, NameCL), WithoutName(o.hs, NameCL))   \* refused: CL normalised or not
                           ELSE SameFields(m.hs, o.hs)
MsgsEq(ms, os) == Len(ms) = Len(os) /\ \A i \in 1..Len(ms) : MsgEq(ms[i], os[i])

(* what the recorded application may have seen, given the specification's state *)
OutOk(s, o, refused) ==
    IF refused THEN LET base == SelectSeq(s.out, LAMBDA c : c # 400) IN o.out \in {base, Append(base, 400)}   \* 400 or just close
    ELSE o.out = s.out
(* a gzip body in flight (or refused for its decoded size): a prefix of the decoded content, within the limit *)
FluxMsgs(s, ms, o, end) ==
    LET n == Len(ms) IN
    /\ s.gz /\ n > 0 /\ Len(o.msgs) = n /\ MsgsEq(SubSeq(ms, 1, n - 1), SubSeq(o.msgs, 1, n - 1))
    /\ ms[n].sl = o.msgs[n].sl /\ SameFields(ms[n].hs, o.msgs[n].hs) /\ o.msgs[n].end = end
    /\ IsPrefix(o.msgs[n].body, GzDec(cfg, s)) /\ Len(o.msgs[n].body) <= s.maxb
ServerBind(s, o) ==
    LET ms == Msgs(s.ev)
        n == Len(ms) IN
    /\ o.logs = <<>> /\ o.errors = <<>>
    /\ \/ /\ \/ MsgsEq(ms, o.msgs)
             \/ (* the headers of a message refused for its framing / size need not have reached the application *)
                (n > 0 /\ ms[n].opt /\ MsgsEq(SubSeq(ms, 1, n - 1), o.msgs))
             \/ FluxMsgs(s, ms, o, ms[n].end)
          /\ OutOk(s, o, s.rej # "none")
          /\ o.closed = s.closed
       \/ (* a gzip body that will exceed the limit may be refused as soon as the decoder notices *)
          /\ s.gz /\ ~s.closed /\ Len(GzDec(cfg, s)) > s.maxb
          /\ FluxMsgs(s, ms, o, "C") /\ o.closed /\ OutOk(s, o, TRUE)

ClientResult(s) ==
    LET ms == Msgs(s.ev) IN
    IF s.rej # "none" THEN [st |-> "error"]
    ELSE IF ms # <<>> /\ ms[Len(ms)].end = "F"
         THEN [st |-> "ok", code |-> ms[Len(ms)].sl[2], hs |-> ms[Len(ms)].hs, body |-> ms[Len(ms)].body]
         ELSE [st |-> "pending"]
(* what the fetch may have returned.  Permissive: the limit of a close-delimited body may be enforced only
   when the message ends; a gzip body that will exceed the limit may be refused as soon as the decoder notices *)
ClientBind(s, o, final) ==
    LET res == ClientResult(s) IN
    /\ \/ o.st = res.st
       \/ (res.st = "error" /\ s.rej = "bodysize" /\ o.st = "pending" /\ ~final)
       \/ (res.st = "pending" /\ s.gz /\ Len(GzDec(cfg, s)) > s.maxb /\ o.st = "error")
    /\ (res.st = "ok" /\ o.st = "ok") => (o.code = res.code /\ SameFields(res.hs, o.hs) /\ o.body = res.body)
    /\ Len(o.streamed) <= cfg.maxBody
    /\ o.errors = <<>>                 \* (client-side log records are not part of C08)

Bind == IF cfg.mode = "server" THEN ServerBind(r', Ev[l].obs) ELSE ClientBind(r', Ev[l].obs, Ev[l].a = "eof")

TrArrive == IsEvent("arrive") /\ Arrive(Ev[l].args[1]) /\ Bind
TrEof == IsEvent("eof") /\ PeerClose /\ Bind
TrRespond == IsEvent("respond") /\ Respond /\ Bind
(* "timeout" = the clock advances by the body timeout: it fires if a body is being read, else nothing happens *)
TrTimeout == /\ IsEvent("timeout")
             /\ IF CanTimeout(r, cfg) THEN BodyTimeout ELSE UNCHANGED <<vars, step>>
             /\ Bind
TrShutdown == IsEvent("shutdown") /\ Shutdown /\ Bind
TraceNext == TrArrive \/ TrEof \/ TrRespond \/ TrTimeout \/ TrShutdown
TraceSpec == TraceInit /\ [][TraceNext]_<<vars, step, tid, l>>
Report == IF Verbose THEN PrintT(<<"AT", Traces[tid].id, l>>)
          ELSE (l = Len(Ev) + 1 => PrintT(<<"ACCEPT", Traces[tid].id>>))
=============================================================================
