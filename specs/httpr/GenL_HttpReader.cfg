SPECIFICATION GenSpecL
CONSTANTS
  Sizes = {1}
  RLs = {1, 2}
  HOSTs = {1}
  FRs = {1, 2, 3, 9}
  FR2s = {1}
  XHs = {1, 2}
  BLANKs = {1}
  BODYs = {1, 2, 3, 6, 8}
  TAILs = {1, 2}
  SLs = {1}
  RHs = {1}
  RH2s = {1}
  RBs = {1}
  Dev = 0
  GenModes = {"server"}
  GenMaxBodies = {1000000}
  GenMaxHdrs = {65536}
  GenHeads = {FALSE}
  LimWidth = 1
  GzIdx = {1, 2, 3, 4}
  GzFrs = {"cl", "ch"}
  GzDrops = {0}
  GzKeeps = {}
  GzRespFrs = {"cl"}
CHECK_DEADLOCK FALSE
