---------------------------- MODULE Trace_IOStreamContract ----------------------------
(* Validates traces recorded from a real tornado BaseIOStream / IOStream against
   IOStreamContract.tla.  One ndjson line per trace:
     {"id": n, "cfg": {"mwb":..,"cc":..,"conn":..}, "ev": [{"a":..,"args":[..],"obs":{..}}]}
   Every event must be explained by the spec action of the same name with the logged
   arguments, and the projection of the spec state after the action must equal the logged
   observation (the bytes handed to the transport are logged incrementally: `new` = the bytes
   accepted in this step, `nsent` = their total number).  All invariants of the contract are
   evaluated at every step of every trace. *)
EXTENDS IOStreamContract, Json, IOUtils, TLCExt
Traces == ndJsonDeserialize(IOEnv.TRACE_FILE)
Verbose == IOEnv.TRACE_VERBOSE = "1"
VARIABLES tid, l
Ev == Traces[tid].ev
TraceInit ==
    /\ tid \in 1..Len(Traces)
    /\ l = 1
    /\ InitWith([mwb |-> Traces[tid].cfg.mwb, cc |-> Traces[tid].cfg.cc, conn |-> Traces[tid].cfg.conn])
IsEvent(a) == l <= Len(Ev) /\ Ev[l].a = a /\ l' = l + 1 /\ UNCHANGED tid
ProjT == [rd |-> rd', wr |-> wr', co |-> co', st |-> st', serr |-> serr', ccb |-> ccb', cbl |-> cbl',
          nsent |-> Len(sent'), new |-> SubSeq(sent', Len(sent) + 1, Len(sent'))]
Bind == ProjT = Ev[l].obs /\ Len(sent') >= Len(sent)
A1 == Ev[l].args[1]
TrRead     == IsEvent("read") /\ Read(A1) /\ Bind
TrDeliver  == IsEvent("deliver") /\ Deliver(A1) /\ Bind
TrEof      == IsEvent("eof") /\ PeerEOF /\ Bind
TrReset    == IsEvent("reset") /\ Reset /\ Bind
TrTError   == IsEvent("terror") /\ TError /\ Bind
TrClose    == IsEvent("close") /\ Close /\ Bind
TrCloseExc == IsEvent("closeexc") /\ CloseExc /\ Bind
TrWrite    == IsEvent("write") /\ Write(Len(A1)) /\ step'.args = <<A1>> /\ Bind
TrGrant    == IsEvent("grant") /\ Grant(A1) /\ Bind
TrWReset   == IsEvent("wreset") /\ WReset /\ Bind
TrWError   == IsEvent("werror") /\ WError /\ Bind
TrConnOk   == IsEvent("connok") /\ ConnOk /\ Bind
TrConnFail == IsEvent("connfail") /\ ConnFail /\ Bind
TraceNext == TrRead \/ TrDeliver \/ TrEof \/ TrReset \/ TrTError \/ TrClose \/ TrCloseExc
             \/ TrWrite \/ TrGrant \/ TrWReset \/ TrWError \/ TrConnOk \/ TrConnFail
TraceSpec == TraceInit /\ [][TraceNext]_<<vars, step, tid, l>>
Report == IF Verbose THEN PrintT(<<"AT", Traces[tid].id, l>>)
          ELSE (l = Len(Ev) + 1 => PrintT(<<"ACCEPT", Traces[tid].id>>))
=============================================================================
