SPECIFICATION Spec
CONSTANTS
  MaxN = 4
  Modes = {"async", "sync"}
  Cts = {0, 1, 2}
VIEW View
INVARIANT TypeOK
INVARIANT OnePerFamily
INVARIANT WinnerSucceeded
INVARIANT ErrorMeansAllFailedOrTimeout
INVARIANT NoLeak
INVARIANT ResolvesEventually
PROPERTY ResultOnce
PROPERTY FirstSuccessWins
PROPERTY NoAttemptAfterResult
CHECK_DEADLOCK FALSE
