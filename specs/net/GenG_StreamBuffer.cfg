SPECIFICATION GSpec
CONSTANTS
  PieceLens = {0, 1, 3, 4, 5, 9}
  PeekLens = {2, 20}
  MaxLen = 12
  MaxApp = 6
  L = 5
CHECK_DEADLOCK FALSE
