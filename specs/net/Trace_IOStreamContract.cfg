SPECIFICATION TraceSpec
CONSTANTS
  Alphabet = {97}
  MaxStream = 1000000
  MaxChunk = 1
  ReadIds = {}
  WriteLens = {}
  MaxWrites = 100000
  Grants = {}
  MaxCredit = 100000000
  Mwbs = {0}
  Ccs = {0}
  Conns = {0}
  Ops = {"read", "deliver", "write", "grant", "close", "closeexc", "eof", "reset", "terror", "wreset", "werror", "connok", "connfail"}
CONSTRAINT Report
INVARIANT TypeOK
INVARIANT ReadDataIsStreamSegment
INVARIANT PendingMeansUnsatisfied
INVARIANT SentIsPrefix
INVARIANT Conservation
INVARIANT WriteBookkeeping
INVARIANT ResolveInOrder
INVARIANT ClosedSettlesAll
PROPERTY ConsumedOnlyByReads
PROPERTY MaxBytesRespected
PROPERTY PendingMaxBytesRespected
PROPERTY RefusedNoEffect
PROPERTY OutcomesFinal
PROPERTY NothingAfterClose
PROPERTY CallbackLast
CHECK_DEADLOCK FALSE
