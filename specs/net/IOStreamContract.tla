---------------------------- MODULE IOStreamContract ----------------------------
(***************************************************************************)
(* Contract of tornado.iostream.BaseIOStream / IOStream as seen by its      *)
(* caller and by its transport (properties C11 reads, C12 writes, C13       *)
(* close).                                                                  *)
(*                                                                         *)
(* One action = one public call, or one transport event (bytes become      *)
(* readable, the transport accepts more bytes, EOF / reset / error, the     *)
(* connect completes), followed by running the event loop and the          *)
(* level-triggered readiness notifications to quiescence.                  *)
(*                                                                         *)
(* Bytes are ints.  `stream` is everything the peer's bytes the transport   *)
(* has made readable so far, `pos` of them have been returned to the       *)
(* caller; U = the unconsumed rest.  How many bytes of U the stream object  *)
(* holds in its own buffer (as opposed to the transport) is *not* part of   *)
(* the contract: it only matters once the stream is closed (later reads     *)
(* are served from buffered data only) and is then chosen                   *)
(* nondeterministically between `held` (bytes the contract guarantees to   *)
(* be buffered: everything available while a read is pending) and |U|.     *)
(*                                                                         *)
(* Outcomes (of a read, a write, the connect) are tuples:                   *)
(*   <<"none">>  <<"pending">>  <<"ok", data>>  <<"exc", class, real>>      *)
(* where an exception raised by the call itself and a failed future are     *)
(* the same outcome (the awaiting caller cannot tell them apart) and `real` *)
(* is the class of StreamClosedError.real_error ("none" if None).          *)
(***************************************************************************)
EXTENDS Integers, Sequences, FiniteSets, TLC

CONSTANTS Alphabet,     \* bytes the peer may send
          MaxStream,    \* bound on the number of delivered bytes
          MaxChunk,     \* largest single delivery
          ReadIds,      \* indices into RKTable: the read descriptors offered to Read
          WriteLens,    \* payload lengths offered to Write
          MaxWrites,    \* bound on the number of write calls
          Grants,       \* amounts of bytes the transport may newly accept
          MaxCredit,    \* bound on the unused transport credit
          Mwbs,         \* max_write_buffer_size values explored (0 = unlimited)
          Ccs,          \* {0,1}: close callback installed?
          Conns,        \* {0,1}: 1 = stream starts unconnected and connect() is called first
          Ops           \* enabled action groups (subset of OpNames)

OpNames == {"read", "deliver", "write", "grant", "close", "closeexc", "eof", "reset", "terror",
            "wreset", "werror", "connok", "connfail"}

VARIABLES cfg,      \* [mwb, cc, conn]
          stream,   \* bytes made readable by the transport so far
          pos,      \* number of bytes returned to the caller
          rk,       \* pending read descriptor, <<>> if none
          rd,       \* outcome of the most recent read
          st,       \* "open" | "closed"
          serr,     \* class of stream.error ("none")
          tc,       \* transport read-side condition not yet noticed: "none" | "eof" | "reset" | "error"
          wc,       \* transport write-side condition: "none" | "reset" | "error"
          buf,      \* after close: number of bytes of U that later reads can still be served from
          held,     \* lower bound for buf (bytes the contract guarantees to be buffered)
          rdead,    \* a read was refused after close (later reads may all be refused)
          wq,       \* bytes written and not yet accepted by the transport
          sent,     \* bytes accepted by the transport, in order
          wall,     \* concatenation of the payloads of all accepted writes
          wth,      \* thresholds (index into sent o wq) of the unresolved write futures, in call order
          wr,       \* outcomes of all write calls, in call order
          credit,   \* bytes the transport is willing to accept now
          co,       \* outcome of connect(): <<"none">> when cfg.conn = 0
          ccb,      \* number of times the close callback ran
          cbl,      \* the close callback ran in this step after every future settled in this step ("na" if it did not run)
          step      \* observation of the last step

vars == <<cfg, stream, pos, rk, rd, st, serr, tc, wc, buf, held, rdead, wq, sent, wall, wth, wr, credit, co, ccb, cbl>>

Proj == [rd |-> rd, wr |-> wr, co |-> co, st |-> st, serr |-> serr, sent |-> sent, ccb |-> ccb, cbl |-> cbl]
Obs(a, args) == [act |-> a, args |-> args, exp |-> Proj']

U == SubSeq(stream, pos + 1, Len(stream))
Min2(a, b) == IF a < b THEN a ELSE b
Max2(a, b) == IF a > b THEN a ELSE b
MinSet(S) == CHOOSE x \in S : \A y \in S : x <= y

None == <<"none">>
Pending == <<"pending">>
Ok(d) == <<"ok", d>>
Exc(c, r) == <<"exc", c, r>>
Closed(r) == Exc("StreamClosedError", r)

(***************************************************************************)
(* Read descriptors                                                        *)
(*   <<"bytes", n, p>>  read_bytes(n, partial = (p = 1))                    *)
(*   <<"into",  n, p>>  read_into(bytearray(n), partial)                    *)
(*   <<"until", d, m>>  read_until(d, max_bytes = m)   (m = 0: no limit)    *)
(*   <<"regex", r, m>>  read_until_regex(Regex[r], max_bytes = m)           *)
(*                      r = 1: \r?\n\r?\n      r = 2: a+b                   *)
(*   <<"close">>        read_until_close()                                  *)
(***************************************************************************)
CR == 13
LF == 10

RKTable == <<
    <<"bytes", 1, 0>>, <<"bytes", 2, 0>>, <<"bytes", 3, 0>>, <<"bytes", 2, 1>>, <<"bytes", 3, 1>>,          \*  1- 5
    <<"into", 1, 0>>, <<"into", 2, 0>>, <<"into", 3, 0>>, <<"into", 2, 1>>, <<"into", 3, 1>>,               \*  6-10
    <<"until", <<10>>, 0>>, <<"until", <<13, 10>>, 0>>, <<"until", <<10>>, 2>>, <<"until", <<13, 10>>, 3>>,   \* 11-14
    <<"regex", 1, 0>>, <<"regex", 1, 3>>, <<"regex", 2, 0>>, <<"regex", 2, 2>>,                               \* 15-18
    <<"close">>,                                                                                              \* 19
    <<"until", <<10>>, 1>>, <<"until", <<97, 98>>, 0>>, <<"regex", 2, 3>>, <<"bytes", 5, 0>>, <<"into", 5, 1>>, \* 20-24
    <<"until", <<10, 10>>, 0>>, <<"until", <<10, 10>>, 3>>                                                    \* 25-26
>>
ReadKinds == {RKTable[i] : i \in ReadIds}

\* end position of the first occurrence of delimiter d in s (0 if none)
UntilEnd(s, d) ==
    LET n == Len(d)
        S == {i \in 1..(Len(s) - n + 1) : \A j \in 1..n : s[i + j - 1] = d[j]}
    IN IF S = {} THEN 0 ELSE MinSet(S) + n - 1

\* end position of the leftmost match of the regex in s (0 if none).
\* r = 1  \r?\n\r?\n : a match ends at e iff s[e] = LF and (s[e-1] = LF or s[e-2..e-1] = LF CR);
\*                     two matches never nest, so the leftmost match has the smallest end.
\* r = 2  a+b        : a match ends at e iff s[e-1..e] = "ab"; same argument.
RegexEnd(s, r) ==
    LET S == IF r = 1
               THEN {e \in 2..Len(s) : s[e] = LF /\ (s[e - 1] = LF \/ (e >= 3 /\ s[e - 1] = CR /\ s[e - 2] = LF))}
               ELSE {e \in 2..Len(s) : s[e] = 98 /\ s[e - 1] = 97}
    IN IF S = {} THEN 0 ELSE MinSet(S)

MatchEnd(k, s) == IF k[1] = "until" THEN UntilEnd(s, k[2]) ELSE RegexEnd(s, k[2])

IsDelim(k) == k[1] \in {"until", "regex"}
IsCount(k) == k[1] \in {"bytes", "into"}

(* The set of lengths with which read k may complete now, given the unconsumed bytes s.   *)
(* Empty = cannot complete.  Only a partial read has a choice (any non-empty prefix up to  *)
(* n of what is available: how much the stream took from the transport is not specified).  *)
Completions(k, s) ==
    IF IsCount(k)
      THEN IF k[3] = 1 THEN 1..Min2(k[2], Len(s))
           ELSE IF Len(s) >= k[2] THEN {k[2]} ELSE {}
    ELSE IF IsDelim(k)
      THEN LET e == MatchEnd(k, s) IN
           IF e # 0 /\ (k[3] = 0 \/ e <= k[3]) THEN {e} ELSE {}
    ELSE {}                                   \* until_close completes only at close

(* A delimiter read with max_bytes m is unsatisfiable once more than m bytes are available *)
(* without a match ending within the first m bytes: the stream is closed instead.          *)
Unsat(k, s) == IsDelim(k) /\ k[3] # 0 /\ Completions(k, s) = {} /\ Len(s) > k[3]

RealOf(c) == CASE c = "eof" -> "none" [] c = "reset" -> "ConnectionResetError" [] c = "error" -> "OSError"
               [] OTHER -> c

----------------------------------------------------------------------------
RdVars  == <<stream, pos, rk, rd, held>>
WrVars  == <<wq, sent, wall, wth, wr, credit>>
ClVars  == <<st, serr, tc, buf, co, ccb>>

InitWith(c) ==
    /\ cfg = c
    /\ stream = <<>> /\ pos = 0 /\ rk = <<>> /\ rd = None
    /\ st = "open" /\ serr = "none" /\ tc = "none" /\ wc = "none"
    /\ buf = 0 /\ held = 0 /\ rdead = FALSE
    /\ wq = <<>> /\ sent = <<>> /\ wall = <<>> /\ wth = <<>> /\ wr = <<>> /\ credit = 0
    /\ co = IF c.conn = 1 THEN Pending ELSE None
    /\ ccb = 0 /\ cbl = "na"
    /\ step = [act |-> "init", args |-> <<>>,
               exp |-> [rd |-> rd, wr |-> wr, co |-> co, st |-> st, serr |-> serr, sent |-> sent, ccb |-> ccb, cbl |-> cbl]]

InitState == \E c \in [mwb : Mwbs, cc : Ccs, conn : Conns] : InitWith(c)

Connecting == co = Pending

(***************************************************************************)
(* Closing with error class e ("none" if no error).  k: descriptor of the  *)
(* read that is pending or being started (<<>> if none), newrd / newpos: its *)
(* outcome of the read that was pending (or is being started) and the new  *)
(* consumed count; outs: the write outcomes before failing the pending ones.*)
(* Every pending write and the pending connect fail with                    *)
(* StreamClosedError(real_error = e); the close callback runs once, after.  *)
(***************************************************************************)
CloseWith(e, newrd, newpos, outs, k) ==
    /\ st' = "closed"
    /\ serr' = e
    /\ rd' = newrd
    /\ pos' = newpos
    /\ rk' = <<>>
    /\ stream' = stream
    /\ wr' = [i \in 1..Len(outs) |-> IF outs[i] = Pending THEN Closed(e) ELSE outs[i]]
    /\ wth' = <<>>
    /\ wq' = <<>>
    /\ co' = IF co = Pending THEN Closed(e) ELSE co
    /\ ccb' = ccb + cfg.cc
    /\ cbl' = IF cfg.cc = 1 THEN "yes" ELSE "na"
    /\ tc' = "none"
    \* what later reads can be served from: at least what the contract guarantees to be buffered -
    \* except that bytes already placed in the caller's buffer of a failed read_into may be gone
    /\ LET rest == Len(stream) - newpos
           lo == IF k # <<>> /\ k[1] = "into" /\ newrd[1] = "exc" THEN 0 ELSE Min2(held, rest)
       IN \E b \in lo..rest : buf' = b
    /\ held' = 0
    /\ UNCHANGED <<cfg, sent, wall, credit, rdead>>

(* outcome of the pending read when the stream closes with error e: read_until_close gets   *)
(* everything available, any other pending read fails (it is pending because what is        *)
(* available does not satisfy it)                                                            *)
PendingAtClose(e) ==
    IF rk = <<>> THEN [o |-> rd, p |-> pos]
    ELSE IF rk[1] = "close" THEN [o |-> Ok(U), p |-> Len(stream)]
    ELSE [o |-> Closed(e), p |-> pos]

CloseNow(e) == LET x == PendingAtClose(e) IN CloseWith(e, x.o, x.p, wr, rk)

NoClose == UNCHANGED ClVars /\ cbl' = "na"

(***************************************************************************)
(* Reads                                                                   *)
(***************************************************************************)
\* outcomes with which a read call may fail when it is the one that finds transport condition c
InlineFail(c) == IF c = "error" THEN {Exc("OSError", "none"), Closed("OSError")} ELSE {Closed(RealOf(c))}

ReadOpen(k) ==
    /\ st = "open" /\ rk = <<>> /\ ~Connecting
    /\ IF Completions(k, U) # {}
         THEN \E n \in Completions(k, U) :
                /\ rd' = Ok(SubSeq(U, 1, n))
                /\ pos' = pos + n
                /\ held' = Max2(0, held - n)
                /\ NoClose
                /\ UNCHANGED <<cfg, stream, rk, rdead, wc, WrVars>>
       ELSE IF Unsat(k, U)
         THEN /\ CloseWith("UnsatisfiableReadError", Closed("UnsatisfiableReadError"), pos, wr, k)
              /\ UNCHANGED wc
       ELSE IF tc # "none"                      \* the read needs the transport and finds the condition
         THEN /\ UNCHANGED wc
              /\ IF k[1] = "close"
                   THEN \E x \in {Ok(U)} \cup (IF tc = "error" THEN {Exc("OSError", "none")} ELSE {}) :
                            CloseWith(RealOf(tc), x, Len(stream), wr, k)
                 ELSE \E x \in InlineFail(tc) : CloseWith(RealOf(tc), x, pos, wr, k)
       ELSE /\ rk' = k
            /\ rd' = Pending
            /\ held' = Len(U)
            /\ NoClose
            /\ UNCHANGED <<cfg, stream, pos, rdead, wc, WrVars>>

(* After close: served from buffered data only.  Once one read has been refused, later     *)
(* reads may be refused as well (the contract says "only from buffered data", not "always").*)
ReadClosed(k) ==
    /\ st = "closed"
    /\ LET B == SubSeq(U, 1, buf)
           C == IF k[1] = "close" THEN {buf} ELSE Completions(k, B)
       IN
       \/ /\ C # {}
          /\ \E n \in C :
               /\ rd' = Ok(SubSeq(B, 1, n))
               /\ pos' = pos + n
               /\ buf' = buf - n
          /\ UNCHANGED rdead
       \/ /\ C = {} \/ rdead
          \* (after an unsatisfiable-read close the class of a later read's failure is not specified)
          /\ rd' \in {Closed(serr)} \cup (IF serr = "UnsatisfiableReadError"
                                           THEN {Exc("UnsatisfiableReadError", "none")} ELSE {})
          /\ rdead' = TRUE
          /\ UNCHANGED <<pos, buf>>
    /\ cbl' = "na"
    /\ UNCHANGED <<cfg, stream, rk, held, st, serr, tc, co, ccb, wc, WrVars>>

Read(k) ==
    /\ "read" \in Ops
    /\ (ReadOpen(k) \/ ReadClosed(k))
    /\ step' = Obs("read", <<k>>)

(* The transport makes chunk c readable. *)
Deliver(c) ==
    /\ "deliver" \in Ops
    /\ st = "open" /\ tc = "none" /\ ~Connecting
    /\ Len(stream) + Len(c) <= MaxStream
    /\ LET s == U \o c IN
       IF rk = <<>>
         THEN /\ stream' = stream \o c
              /\ UNCHANGED <<cfg, pos, rk, rd, held, rdead, wc, WrVars>> /\ NoClose
       ELSE IF Completions(rk, s) # {}
         THEN \E n \in Completions(rk, s) :
                /\ stream' = stream \o c
                /\ rd' = Ok(SubSeq(s, 1, n))
                /\ pos' = pos + n
                /\ rk' = <<>>
                /\ held' = 0
                /\ NoClose
                /\ UNCHANGED <<cfg, rdead, wc, WrVars>>
       ELSE IF Unsat(rk, s)
         THEN /\ st' = "closed" /\ serr' = "UnsatisfiableReadError"
              /\ rd' = Closed("UnsatisfiableReadError")
              /\ rk' = <<>> /\ stream' = stream \o c
              /\ wr' = [i \in 1..Len(wr) |-> IF wr[i] = Pending THEN Closed("UnsatisfiableReadError") ELSE wr[i]]
              /\ wth' = <<>> /\ wq' = <<>>
              /\ ccb' = ccb + cfg.cc
              /\ cbl' = IF cfg.cc = 1 THEN "yes" ELSE "na"
              \* the stream took more than max_bytes from the transport, not necessarily everything
              /\ \E b \in (rk[3] + 1)..Len(s) : buf' = b
              /\ held' = 0
              /\ UNCHANGED <<cfg, pos, tc, co, sent, wall, credit, rdead, wc>>
       ELSE /\ stream' = stream \o c
            /\ held' = Len(s)
            /\ UNCHANGED <<cfg, pos, rk, rd, rdead, wc, WrVars>> /\ NoClose
    /\ step' = Obs("deliver", <<c>>)

(***************************************************************************)
(* Transport read-side conditions: EOF, connection reset, other OSError.   *)
(* Generated only while a read is pending (it is then noticed at once) or  *)
(* when nothing is unconsumed (it is then noticed now or by the next read  *)
(* that needs the transport).                                              *)
(***************************************************************************)
Cond(name, c) ==
    /\ name \in Ops
    /\ st = "open" /\ tc = "none" /\ ~Connecting
    /\ rk # <<>> \/ U = <<>>
    /\ \/ CloseNow(RealOf(c)) /\ UNCHANGED wc
       \/ /\ rk = <<>>
          /\ tc' = c
          /\ cbl' = "na"
          /\ UNCHANGED <<cfg, RdVars, WrVars, st, serr, buf, co, ccb, rdead, wc>>
    /\ step' = Obs(name, <<>>)

PeerEOF == Cond("eof", "eof")
Reset   == Cond("reset", "reset")
TError  == Cond("terror", "error")

(***************************************************************************)
(* Local close: close() / close(exc_info = ValueError())                   *)
(***************************************************************************)
CloseLocal(name, e) ==
    /\ name \in Ops
    /\ IF st = "open" THEN CloseNow(e) /\ UNCHANGED wc
       ELSE /\ cbl' = "na"
            /\ UNCHANGED <<cfg, RdVars, WrVars, ClVars, rdead, wc>>
    /\ step' = Obs(name, <<>>)

Close    == CloseLocal("close", "none")
CloseExc == CloseLocal("closeexc", "ValueError")

(***************************************************************************)
(* Writes                                                                  *)
(***************************************************************************)
\* payload of the j-th write call: distinct bytes so that loss, duplication and reordering show
Payload(j, n) == [o \in 1..n |-> 100 + ((j * 7 + o) % 100)]

(* Hand as much of queue q to the transport as credit c allows and resolve, in call order,  *)
(* the futures whose threshold has been reached.                                             *)
Flush(q, c, th, outs) ==
    LET k == Min2(Len(q), c)
        newsent == sent \o SubSeq(q, 1, k)
        nd == Cardinality({i \in 1..Len(th) : th[i] <= Len(newsent)})      \* th is non-decreasing: a prefix
        rank(i) == Cardinality({j \in 1..i : outs[j] = Pending})
    IN /\ sent' = newsent
       /\ wq' = SubSeq(q, k + 1, Len(q))
       /\ credit' = c - k
       /\ wth' = SubSeq(th, nd + 1, Len(th))
       /\ wr' = [i \in 1..Len(outs) |-> IF outs[i] = Pending /\ rank(i) <= nd THEN Ok(<<>>) ELSE outs[i]]

Write(n) ==
    /\ "write" \in Ops
    /\ Len(wr) < MaxWrites
    /\ tc = "none"          \* (when an unnoticed read-side condition is noticed is not specified: no write-side steps then)
    /\ LET data == Payload(Len(wr) + 1, n) IN
       /\ IF st = "closed"
            THEN /\ wr' = Append(wr, Closed(serr))
                 /\ cbl' = "na"
                 /\ UNCHANGED <<cfg, RdVars, ClVars, rdead, wc, wq, sent, wall, wth, credit>>
          ELSE IF cfg.mwb > 0 /\ n > 0 /\ Len(wq) + n > cfg.mwb          \* refused, no side effect
            THEN /\ wr' = Append(wr, Exc("StreamBufferFullError", "none"))
                 /\ cbl' = "na"
                 /\ UNCHANGED <<cfg, RdVars, ClVars, rdead, wc, wq, sent, wall, wth, credit>>
          ELSE IF Connecting                                            \* queued until connected
            THEN /\ wq' = wq \o data
                 /\ wall' = wall \o data
                 /\ wth' = Append(wth, Len(sent) + Len(wq) + n)
                 /\ wr' = Append(wr, Pending)
                 /\ cbl' = "na"
                 /\ UNCHANGED <<cfg, RdVars, ClVars, rdead, wc, sent, credit>>
          ELSE IF wc # "none" /\ wq \o data # <<>>                      \* the transport refuses: the stream closes
            THEN /\ LET x == PendingAtClose(RealOf(wc)) IN
                      CloseWith(RealOf(wc), x.o, x.p, Append(wr, Pending), rk)
                 /\ UNCHANGED wc
          ELSE /\ Flush(wq \o data, credit, Append(wth, Len(sent) + Len(wq) + n), Append(wr, Pending))
               /\ wall' = wall \o data
               /\ cbl' = "na"
               /\ UNCHANGED <<cfg, RdVars, ClVars, rdead, wc>>
       /\ step' = Obs("write", <<data>>)

(* The transport becomes willing to accept g more bytes. *)
Grant(g) ==
    /\ "grant" \in Ops
    /\ st = "open" /\ wc = "none" /\ tc = "none"
    /\ credit + g <= MaxCredit
    /\ IF Connecting
         THEN credit' = credit + g /\ UNCHANGED <<sent, wq, wth, wr>>
         ELSE Flush(wq, credit + g, wth, wr)
    /\ cbl' = "na"
    /\ UNCHANGED <<cfg, RdVars, ClVars, rdead, wc, wall>>
    /\ step' = Obs("grant", <<g>>)

(* The transport starts failing writes (connection reset, or another OSError).  With bytes   *)
(* queued the failure is noticed at once; otherwise by the next non-empty write.             *)
WCond(name, c) ==
    /\ name \in Ops
    /\ st = "open" /\ wc = "none" /\ ~Connecting /\ tc = "none"
    /\ wc' = c
    /\ IF wq # <<>>
         THEN CloseNow(RealOf(c))
         ELSE /\ cbl' = "na"
              /\ UNCHANGED <<cfg, RdVars, WrVars, ClVars, rdead>>
    /\ step' = Obs(name, <<>>)

WReset == WCond("wreset", "reset")
WError == WCond("werror", "error")

(***************************************************************************)
(* Connect (cfg.conn = 1: connect() was called at creation; writes queue)  *)
(***************************************************************************)
ConnOk ==
    /\ "connok" \in Ops
    /\ st = "open" /\ Connecting
    /\ co' = Ok(<<>>)
    /\ Flush(wq, credit, wth, wr)
    /\ cbl' = "na"
    /\ UNCHANGED <<cfg, RdVars, st, serr, tc, buf, ccb, rdead, wc, wall>>
    /\ step' = Obs("connok", <<>>)

ConnFail ==
    /\ "connfail" \in Ops
    /\ st = "open" /\ Connecting
    /\ CloseNow("ConnectionRefusedError") /\ UNCHANGED wc
    /\ step' = Obs("connfail", <<>>)

----------------------------------------------------------------------------
Chunks == UNION {[1..n -> Alphabet] : n \in 1..MaxChunk}

Next ==
    \/ \E k \in ReadKinds : Read(k)
    \/ \E c \in Chunks : Deliver(c)
    \/ PeerEOF \/ Reset \/ TError
    \/ Close \/ CloseExc
    \/ \E n \in WriteLens : Write(n)
    \/ \E g \in Grants : Grant(g)
    \/ WReset \/ WError
    \/ ConnOk \/ ConnFail

Spec == InitState /\ [][Next]_<<vars, step>>

----------------------------------------------------------------------------
(* Properties *)

IsOutcome(x) == x \in {None, Pending} \/ x[1] \in {"ok", "exc"}
Settled(x) == x[1] \in {"ok", "exc"}

TypeOK ==
    /\ pos \in 0..Len(stream)
    /\ st \in {"open", "closed"}
    /\ IsOutcome(rd) /\ IsOutcome(co)
    /\ \A i \in 1..Len(wr) : IsOutcome(wr[i])
    /\ buf \in 0..(Len(stream) - pos)
    /\ held \in 0..(Len(stream) - pos)
    /\ ccb \in 0..1

(* C11: a completed read returned exactly the stream segment that ends at pos: nothing       *)
(* lost, duplicated or reordered (pos only ever advances by the length returned).            *)
ReadDataIsStreamSegment ==
    (rd[1] = "ok") => (Len(rd[2]) <= pos /\ rd[2] = SubSeq(stream, pos - Len(rd[2]) + 1, pos))

ConsumedOnlyByReads ==
    [][pos' # pos => (rd'[1] = "ok" /\ pos' = pos + Len(rd'[2]))]_<<vars, step>>

(* a read is pending only while what is available cannot complete it, and never while more   *)
(* than max_bytes are available without a match                                               *)
PendingMeansUnsatisfied ==
    (rk # <<>>) => /\ rd = Pending /\ st = "open"
                   /\ Completions(rk, U) = {}
                   /\ ~Unsat(rk, U)
                   /\ held = Len(U)

(* C11 max_bytes: a delimiter read never returns more than max_bytes *)
MaxBytesRespected ==
    [][(step'.act = "read" /\ rd # Pending /\ IsDelim(step'.args[1]) /\ step'.args[1][3] # 0 /\ rd'[1] = "ok")
            => Len(rd'[2]) <= step'.args[1][3]]_<<vars, step>>
PendingMaxBytesRespected ==
    [][(rk # <<>> /\ IsDelim(rk) /\ rk[3] # 0 /\ rd'[1] = "ok") => Len(rd'[2]) <= rk[3]]_<<vars, step>>

(* C12: the transport got a prefix of the concatenation of the accepted writes; while the    *)
(* stream is open nothing is lost: sent o wq is that concatenation                            *)
SentIsPrefix == Len(sent) <= Len(wall) /\ sent = SubSeq(wall, 1, Len(sent))
Conservation == st = "open" => sent \o wq = wall

WriteBookkeeping ==
    /\ Len(wth) = Cardinality({i \in 1..Len(wr) : wr[i] = Pending})
    /\ \A i \in 1..Len(wth) : wth[i] <= Len(sent) + Len(wq)
    /\ \A i, j \in 1..Len(wth) : i < j => wth[i] <= wth[j]
    /\ ~Connecting => \A i \in 1..Len(wth) : wth[i] > Len(sent)     \* a reached threshold is resolved at once
    /\ (st = "open" /\ ~Connecting /\ wc = "none") => (wq = <<>> \/ credit = 0)   \* nothing waits while the transport accepts
    /\ st = "closed" => (wq = <<>> /\ wth = <<>>)

(* C12: resolution in call order - no pending write precedes a resolved one *)
ResolveInOrder ==
    \A i, j \in 1..Len(wr) : (i < j /\ wr[i] = Pending) => wr[j] # Ok(<<>>)

(* C12: a refused write has no side effect *)
RefusedNoEffect ==
    [][(Len(wr') = Len(wr) + 1 /\ wr'[Len(wr')] = Exc("StreamBufferFullError", "none"))
          => UNCHANGED <<wq, sent, wall, wth, st>>]_<<vars, step>>

(* C13: after close nothing is pending and the close callback has run (once) *)
ClosedSettlesAll ==
    st = "closed" => /\ rd # Pending /\ co # Pending /\ rk = <<>>
                     /\ \A i \in 1..Len(wr) : wr[i] # Pending
                     /\ ccb = cfg.cc

(* C13: outcomes are final - "exactly once"; closed is forever *)
OutcomesFinal ==
    [][/\ \A i \in 1..Len(wr) : Settled(wr[i]) => (Len(wr') >= i /\ wr'[i] = wr[i])
       /\ Settled(co) => co' = co
       /\ ccb' >= ccb
       /\ (st = "closed" => st' = "closed" /\ serr' = serr /\ ccb' = ccb)]_<<vars, step>>

(* C13: no write or connect succeeds after close; the transport gets nothing more; later     *)
(* reads return only bytes that had arrived before the close                                  *)
NothingAfterClose ==
    [][st = "closed" => /\ sent' = sent /\ stream' = stream
                        /\ \A i \in 1..Len(wr') : (i > Len(wr) => wr'[i][1] = "exc")]_<<vars, step>>

(* C13: the close callback runs after the futures *)
CallbackLast == [][ccb' > ccb => cbl' = "yes"]_<<vars, step>>

View == vars
=============================================================================
