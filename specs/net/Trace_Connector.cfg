SPECIFICATION TraceSpec
CONSTANTS
  MaxN = 1
  Modes = {"async"}
  Cts = {0}
CONSTRAINT Report
INVARIANT TypeOK
INVARIANT OnePerFamily
INVARIANT WinnerSucceeded
INVARIANT ErrorMeansAllFailedOrTimeout
INVARIANT NoLeak
INVARIANT TraceResolved
PROPERTY ResultOnce
PROPERTY FirstSuccessWins
PROPERTY NoAttemptAfterResult
CHECK_DEADLOCK FALSE
