---------------------------- MODULE GenG_StreamBuffer ----------------------------
(* Bounded state graph of StreamBuffer for path enumeration (see GenG_IOStreamContract). *)
EXTENDS StreamBuffer
CONSTANT L
VARIABLE n
GInit == InitState /\ n = 0
GNext == n < L /\ Next /\ n' = n + 1
GSpec == GInit /\ [][GNext]_<<vars, step, n>>
=============================================================================
