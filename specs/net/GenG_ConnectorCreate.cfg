SPECIFICATION GSpec
CONSTANTS
  MaxN = 2
  Modes = {"async", "sockerr", "streamerr", "binderr"}
  Cts = {0, 2}
  L = 6
CHECK_DEADLOCK FALSE
