---------------------------- MODULE StreamCancel ----------------------------
(***************************************************************************)
(* C13 extension: the APPLICATION cancels futures the stream handed out    *)
(* (asyncio.wait_for timing out around read_bytes / write / connect) and   *)
(* the stream closes afterwards.  IOStreamContract.tla has no such action: *)
(* there every future collected by _signal_closed is pending.  Here a      *)
(* future is none / pending / cancelled / closed (failed with              *)
(* StreamClosedError) / ok; a cancelled future is done, so the close must  *)
(* leave it alone, still fail every other pending future exactly once,     *)
(* run the close callback once after them, and raise nothing.              *)
(* One action = one public call or one transport event + loop quiescence.  *)
(***************************************************************************)
EXTENDS Integers, Sequences, TLC

CONSTANTS Conns,      \* 0: stream starts connected, 1: starts inside connect()
          Causes      \* subset of {"close", "closeexc", "eof", "reset"}

VARIABLES cfg, rd, wr, co, st, ccb, cbl, raised,
          dl,     \* 1 once the bytes the read asked for have arrived (offered once)
          step
vars == <<cfg, rd, wr, co, st, ccb, cbl, raised, dl>>

Proj == [rd |-> rd, wr |-> wr, co |-> co, st |-> st, ccb |-> ccb, cbl |-> cbl, raised |-> raised]
Obs(a) == [act |-> a, args |-> <<>>, exp |-> Proj']

InitWith(c) ==
    /\ cfg = c /\ rd = "none" /\ wr = "none" /\ co = (IF c.conn = 1 THEN "pending" ELSE "none")
    /\ st = "open" /\ ccb = 0 /\ cbl = "na" /\ raised = 0 /\ dl = 0
    /\ step = [act |-> "init", args |-> <<>>, exp |-> [rd |-> "none", wr |-> "none",
               co |-> (IF c.conn = 1 THEN "pending" ELSE "none"), st |-> "open", ccb |-> 0, cbl |-> "na", raised |-> 0]]
InitState == \E c \in [conn : Conns] : InitWith(c)

Usable == st = "open" /\ co \in {"none", "ok"}

(* read_bytes(n) with nothing buffered / write() with a transport that takes nothing *)
Read  == Usable /\ rd = "none" /\ rd' = "pending" /\ UNCHANGED <<cfg, wr, co, st, ccb, cbl, raised, dl>> /\ step' = Obs("read")
Write == Usable /\ wr = "none" /\ wr' = "pending" /\ UNCHANGED <<cfg, rd, co, st, ccb, cbl, raised, dl>> /\ step' = Obs("write")
ConnOk == st = "open" /\ co = "pending" /\ co' = "ok" /\ UNCHANGED <<cfg, rd, wr, st, ccb, cbl, raised, dl>> /\ step' = Obs("connok")

(* the application cancels a future it was given; the stream is not told *)
CancelRd == st = "open" /\ rd = "pending" /\ rd' = "cancelled" /\ UNCHANGED <<cfg, wr, co, st, ccb, cbl, raised, dl>> /\ step' = Obs("cancelrd")
CancelWr == st = "open" /\ wr = "pending" /\ wr' = "cancelled" /\ UNCHANGED <<cfg, rd, co, st, ccb, cbl, raised, dl>> /\ step' = Obs("cancelwr")
CancelCo == st = "open" /\ co = "pending" /\ co' = "cancelled" /\ UNCHANGED <<cfg, rd, wr, st, ccb, cbl, raised, dl>> /\ step' = Obs("cancelco")

(* the bytes the read asked for arrive: a pending read completes; a cancelled one stays cancelled (the stream
   finishes its read quietly) *)
Deliver == /\ Usable /\ rd \in {"pending", "cancelled"} /\ dl = 0
           /\ dl' = 1 /\ rd' = (IF rd = "pending" THEN "ok" ELSE rd)
           /\ UNCHANGED <<cfg, wr, co, st, ccb, cbl, raised>> /\ step' = Obs("deliver")

Fail(x) == IF x = "pending" THEN "closed" ELSE x
(* close(), close(exc_info), or the peer's EOF / reset noticed by a stream that is reading *)
Close(c) ==
    /\ st = "open"
    /\ c \in {"eof", "reset"} => (rd \in {"pending", "cancelled"} /\ co \in {"none", "ok"} /\ dl = 0)
    /\ st' = "closed" /\ rd' = Fail(rd) /\ wr' = Fail(wr) /\ co' = Fail(co)
    /\ ccb' = ccb + 1 /\ cbl' = "yes"
    /\ UNCHANGED <<cfg, raised, dl>>
    /\ step' = Obs(c)

Next == Read \/ Write \/ Deliver \/ ConnOk \/ CancelRd \/ CancelWr \/ CancelCo \/ \E c \in Causes : Close(c)
Spec == InitState /\ [][Next]_<<vars, step>>

----------------------------------------------------------------------------
Done(x) == x \in {"cancelled", "closed", "ok"}
TypeOK == /\ wr \in {"none", "pending", "cancelled", "closed"}
          /\ rd \in {"none", "pending", "cancelled", "closed", "ok"}
          /\ co \in {"none", "pending", "cancelled", "closed", "ok"}
          /\ st \in {"open", "closed"}
(* whenever the stream is closed, nothing is left pending *)
ClosedSettlesAll == st = "closed" => "pending" \notin {rd, wr, co}
(* an outcome, once there, never changes: completed exactly once; a cancelled future stays cancelled *)
OutcomesFinal == [][/\ (Done(rd) => rd' = rd) /\ (Done(wr) => wr' = wr) /\ (Done(co) => co' = co)]_vars
(* the close callback runs exactly once, after the futures *)
CallbackOnce == ccb = (IF st = "closed" THEN 1 ELSE 0)
CallbackLast == [][ccb' > ccb => cbl' = "yes"]_vars
NeverRaises == raised = 0
NothingAfterClose == [][st = "closed" => UNCHANGED vars]_vars
=============================================================================
