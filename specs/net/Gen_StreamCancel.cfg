SPECIFICATION GenSpec
CONSTANTS
  Conns = {0, 1}
  Causes = {"close", "closeexc", "eof", "reset"}
  L = 6
CHECK_DEADLOCK FALSE
