SPECIFICATION Spec
CONSTANTS
  PieceLens = {0, 1, 3, 4, 5, 9}
  PeekLens = {1, 3, 20}
  MaxLen = 12
  MaxApp = 5
VIEW View
INVARIANT PeekIsPrefix
PROPERTY PeekNonEmpty
CHECK_DEADLOCK FALSE
