SPECIFICATION Spec
CONSTANTS
  PieceLens = {0, 1, 2, 3, 4, 5, 6, 9}
  PeekLens = {1, 2, 3, 5, 9, 20}
  MaxLen = 12
VIEW View
INVARIANT PeekIsPrefix
PROPERTY PeekNonEmpty
CHECK_DEADLOCK FALSE
