---------------------------- MODULE Connector ----------------------------
(***************************************************************************)
(* tornado.tcpclient._Connector ("happy eyeballs") + TCPClient._create_     *)
(* stream, property C10.                                                    *)
(*                                                                         *)
(* Addresses 1..N in resolver order, fam[a] their family; the family of    *)
(* address 1 is primary (list P), the rest secondary (list S).  One action *)
(* = one event (start, an attempt completes, two attempts complete in the  *)
(* same loop iteration, a timer fires) followed by running the loop to     *)
(* quiescence.  mode[a] says how the attempt on a behaves when it is made: *)
(*   "async"     the connect is in flight until Succeed / Fail             *)
(*   "sync"      socket.connect() fails synchronously                      *)
(*   "sockerr"   socket.socket(af) raises OSError (family unsupported, ...) *)
(*   "streamerr" IOStream(socket) raises OSError                            *)
(*   "binderr"   binding the requested source address fails (socket exists) *)
(* All these failures mean "this address failed": the connector goes on.    *)
(*                                                                         *)
(* When the secondary family is started after a failure (at once, or at    *)
(* the 0.3 s timer) is not part of the property: both are allowed.         *)
(***************************************************************************)
EXTENDS Integers, Sequences, FiniteSets, TLC

CONSTANTS MaxN,     \* longest address list
          Modes,    \* attempt modes explored
          Cts       \* connect timeouts explored: 0 none, 1 before the 0.3 s timer, 2 after it

VARIABLES cfg,      \* [fam, mode, ct]
          c,        \* connector state record (below)
          step
vars == <<cfg, c>>

N == Len(cfg.fam)
Addrs == 1..N
ListOf(f) == SelectSeq([i \in 1..N |-> i], LAMBDA a : (cfg.fam[a] = cfg.fam[1]) = f)
P == ListOf(TRUE)
S == ListOf(FALSE)

(* c = [att  : per address "idle" | "inflight" | "won" | "failed" | "aborted",              *)
(*      sock : per address "none" | "connecting" | "connected" | "closed",                   *)
(*      res  : <<"pending">> | <<"ok", a>> | <<"exc", "error">> | <<"exc", "TimeoutError">>, *)
(*      pi, si : next untried position in P / S,   he, ct : "off" | "armed" | "fired"]      *)

Proj(x) == [res |-> x.res, sock |-> x.sock]
Obs(a, args, x) == [act |-> a, args |-> args, exp |-> Proj(x)]

Pend == <<"pending">>
InFlight(x) == {a \in Addrs : x.att[a] = "inflight"}

\* position of the first "async" address of list Q at or after position i (Len(Q) + 1 if none)
NextAsync(Q, i) ==
    LET Js == {j \in i..Len(Q) : cfg.mode[Q[j]] = "async"}
    IN IF Js = {} THEN Len(Q) + 1 ELSE CHOOSE j \in Js : \A k \in Js : j <= k

(* try the addresses of list Q from position i: those failing at creation / synchronously are *)
(* failed (their socket, if one was created, is closed), the first asynchronous one is in flight *)
TryFrom(x, Q, i, isP) ==
    LET j == NextAsync(Q, i)
        dead == {Q[k] : k \in i..(j - 1)}
        live == IF j <= Len(Q) THEN {Q[j]} ELSE {}
        att2 == [a \in Addrs |-> IF a \in dead THEN "failed" ELSE IF a \in live THEN "inflight" ELSE x.att[a]]
        sock2 == [a \in Addrs |-> IF a \in dead THEN (IF cfg.mode[a] = "sockerr" THEN "none" ELSE "closed")
                                  ELSE IF a \in live THEN "connecting" ELSE x.sock[a]]
        nxt == IF j <= Len(Q) THEN j + 1 ELSE Len(Q) + 1
    IN IF isP THEN [x EXCEPT !.att = att2, !.sock = sock2, !.pi = nxt]
       ELSE [x EXCEPT !.att = att2, !.sock = sock2, !.si = nxt]

StartSecondary(x) == [TryFrom(x, S, x.si, FALSE) EXCEPT !.he = "fired"]

(* the connector fails once every address has failed *)
Settle(x) == IF x.res = Pend /\ \A a \in Addrs : x.att[a] = "failed"
               THEN [x EXCEPT !.res = <<"exc", "error">>, !.he = "off", !.ct = "off"] ELSE x

(* every socket that is not the winner's is closed *)
CloseOthers(x) ==
    [x EXCEPT !.att = [a \in Addrs |-> IF x.att[a] = "inflight" THEN "aborted" ELSE x.att[a]],
              !.sock = [a \in Addrs |-> IF x.sock[a] = "connecting" THEN "closed" ELSE x.sock[a]]]

\* early = start the secondary family now (only meaningful while the 0.3 s timer is armed)
FailF(x, a, early) ==
    IF x.res # Pend
      THEN [x EXCEPT !.att[a] = "failed", !.sock[a] = "closed"]          \* (only inside Pair)
    ELSE LET x1 == [x EXCEPT !.att[a] = "failed", !.sock[a] = "closed"]
             x2 == IF cfg.fam[a] = cfg.fam[1] THEN TryFrom(x1, P, x1.pi, TRUE) ELSE TryFrom(x1, S, x1.si, FALSE)
             x3 == IF early /\ x2.he = "armed" THEN StartSecondary(x2) ELSE x2
         IN Settle(x3)

SucceedF(x, a) ==
    IF x.res # Pend
      THEN [x EXCEPT !.att[a] = "aborted", !.sock[a] = "closed"]          \* late arrival: dropped and closed
    ELSE CloseOthers([x EXCEPT !.att[a] = "won", !.sock[a] = "connected", !.res = <<"ok", a>>,
                               !.he = "off", !.ct = "off"])

Done(x, a, o, early) == IF o = "ok" THEN SucceedF(x, a) ELSE FailF(x, a, early)

----------------------------------------------------------------------------
Fams(n) == {f \in [1..n -> {4, 6}] : f[1] = 4}
InitWith(k) ==
    /\ cfg = k
    /\ c = [att |-> [a \in 1..Len(k.fam) |-> "idle"], sock |-> [a \in 1..Len(k.fam) |-> "none"], res |-> Pend,
            pi |-> 1, si |-> 1, he |-> "off", ct |-> "off"]
    /\ step = [act |-> "init", args |-> <<>>,
               exp |-> [res |-> Pend, sock |-> [a \in 1..Len(k.fam) |-> "none"]]]
InitState == \E n \in 1..MaxN : \E f \in Fams(n), m \in [1..n -> Modes], t \in Cts :
                 InitWith([fam |-> f, mode |-> m, ct |-> t])

Started == c.he # "off" \/ c.res # Pend \/ \E a \in Addrs : c.att[a] # "idle"

Start ==
    /\ ~Started
    /\ \E early \in BOOLEAN :
         LET x1 == [TryFrom(c, P, 1, TRUE) EXCEPT !.he = "armed", !.ct = IF cfg.ct = 0 THEN "off" ELSE "armed"]
             failed == \E a \in Addrs : x1.att[a] = "failed"
             x2 == IF early /\ failed THEN StartSecondary(x1) ELSE x1
         IN /\ (early => failed)
            /\ c' = Settle(x2)
    /\ UNCHANGED cfg
    /\ step' = Obs("start", <<>>, c')

Succeed(a) ==
    /\ c.att[a] = "inflight"
    /\ c' = SucceedF(c, a)
    /\ UNCHANGED cfg
    /\ step' = Obs("succeed", <<a>>, c')

Fail(a) ==
    /\ c.att[a] = "inflight"
    /\ \E early \in BOOLEAN : (early => c.he = "armed") /\ c' = FailF(c, a, early)
    /\ UNCHANGED cfg
    /\ step' = Obs("fail", <<a>>, c')

(* two attempts (one per family) complete in the same loop iteration, a first *)
Pair(a, oa, b, ob) ==
    /\ a # b /\ c.att[a] = "inflight" /\ c.att[b] = "inflight"
    /\ \E e1, e2 \in BOOLEAN :
         LET x1 == Done(c, a, oa, e1) IN
         /\ (e1 => (oa = "fail" /\ c.he = "armed")) /\ (e2 => (ob = "fail" /\ x1.he = "armed"))
         /\ c' = (IF x1.att[b] = "inflight" \/ x1.att[b] = "aborted"
                    THEN (IF x1.att[b] = "aborted" /\ ob = "fail" THEN x1 ELSE Done([x1 EXCEPT !.att[b] = "inflight"], b, ob, e2))
                    ELSE x1)
    /\ UNCHANGED cfg
    /\ step' = Obs("pair", <<a, oa, b, ob>>, c')

(* the 0.3 s "happy eyeballs" timer *)
HE ==
    /\ c.he = "armed" /\ c.res = Pend
    /\ c.ct # "armed" \/ cfg.ct = 2
    /\ c' = Settle(StartSecondary(c))
    /\ UNCHANGED cfg
    /\ step' = Obs("he", <<>>, c')

(* the overall connect timeout *)
CT ==
    /\ c.ct = "armed" /\ c.res = Pend
    /\ c.he # "armed" \/ cfg.ct = 1
    /\ c' = CloseOthers([c EXCEPT !.res = <<"exc", "TimeoutError">>, !.ct = "fired", !.he = "off"])
    /\ UNCHANGED cfg
    /\ step' = Obs("ct", <<>>, c')

SucceedAny == \E a \in Addrs : Succeed(a)
FailAny == \E a \in Addrs : Fail(a)
PairAny == \E a, b \in Addrs, oa, ob \in {"ok", "fail"} : Pair(a, oa, b, ob)
Next == Start \/ SucceedAny \/ FailAny \/ PairAny \/ HE \/ CT

Spec == InitState /\ [][Next]_<<vars, step>>

----------------------------------------------------------------------------
(* Properties (C10) *)
TypeOK ==
    /\ c.att \in [Addrs -> {"idle", "inflight", "won", "failed", "aborted"}]
    /\ c.sock \in [Addrs -> {"none", "connecting", "connected", "closed"}]
    /\ c.pi \in 1..(Len(P) + 1) /\ c.si \in 1..(Len(S) + 1)

(* at most one attempt per address family is in flight *)
OnePerFamily == \A f \in {4, 6} : Cardinality({a \in InFlight(c) : cfg.fam[a] = f}) <= 1

(* the result is assigned once and never changes *)
ResultOnce == [][c.res # Pend => c'.res = c.res]_vars

(* success is the first success: the winner is the address whose completion set the result *)
WinnerSucceeded == c.res[1] = "ok" => (c.att[c.res[2]] = "won" /\ c.sock[c.res[2]] = "connected")
FirstSuccessWins == [][(c.res = Pend /\ c'.res[1] = "ok") =>
                          (step'.act \in {"succeed", "pair"} /\ c.att[c'.res[2]] = "inflight")]_<<vars, step>>

(* an error result means every address failed, or the connect timeout fired *)
ErrorMeansAllFailedOrTimeout ==
    /\ c.res = <<"exc", "error">> => \A a \in Addrs : c.att[a] = "failed"
    /\ c.res = <<"exc", "TimeoutError">> => c.ct = "fired"

(* once the connector has resolved, every socket it opened except the winner's is closed, *)
(* and nothing is in flight                                                              *)
NoLeak == c.res # Pend => /\ InFlight(c) = {}
                          /\ \A a \in Addrs : c.sock[a] \in {"none", "closed"} \/ (c.res = <<"ok", a>> /\ c.sock[a] = "connected")

(* it always resolves: whenever nothing more can happen, a result has been delivered *)
Quiescent == ~ENABLED Next
ResolvesEventually == Quiescent => c.res # Pend
(* no address is tried again, nothing starts after the result *)
NoAttemptAfterResult == [][c.res # Pend => \A a \in Addrs : (c.att[a] = "idle" => c'.att[a] = "idle")]_vars

View == vars
=============================================================================
