SPECIFICATION Spec
CONSTANTS
  Alphabet = {97, 98, 13, 10}
  MaxStream = 4
  MaxChunk = 2
  ReadIds = {1, 3, 4, 7, 10, 11, 12, 13, 14, 15, 16, 17, 18, 19}
  WriteLens = {}
  MaxWrites = 0
  Grants = {}
  MaxCredit = 12
  Mwbs = {0}
  Ccs = {1}
  Conns = {0}
  Ops = {"read", "deliver", "close", "eof"}
VIEW View
INVARIANT TypeOK
INVARIANT ReadDataIsStreamSegment
INVARIANT PendingMeansUnsatisfied
INVARIANT ClosedSettlesAll
PROPERTY ConsumedOnlyByReads
PROPERTY MaxBytesRespected
PROPERTY PendingMaxBytesRespected
PROPERTY OutcomesFinal
PROPERTY NothingAfterClose
PROPERTY CallbackLast
CHECK_DEADLOCK FALSE
