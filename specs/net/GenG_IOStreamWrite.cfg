SPECIFICATION GSpec
CONSTANTS
  Alphabet = {97}
  MaxStream = 0
  MaxChunk = 1
  ReadIds = {}
  WriteLens = {0, 1, 3, 5}
  MaxWrites = 4
  Grants = {1, 2, 6}
  MaxCredit = 12
  Mwbs = {0, 6}
  Ccs = {0}
  Conns = {0}
  Ops = {"write", "grant", "close", "wreset", "werror"}
  L = 5
CHECK_DEADLOCK FALSE
