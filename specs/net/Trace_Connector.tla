---------------------------- MODULE Trace_Connector ----------------------------
(* Validates traces recorded from the real TCPClient.connect / _Connector / _create_stream
   (scripted sockets, virtual time) against Connector.tla.  One ndjson line per trace:
     {"id": n, "cfg": {"fam":[..], "mode":[..], "ct":..}, "ev": [{"a":..,"args":[..],"obs":{..}}]}
   Every event must be explained by the action of the same name with the logged arguments and
   the projection after it must equal the logged observation; all invariants are evaluated at
   every step. *)
EXTENDS Connector, Json, IOUtils, TLCExt
Traces == ndJsonDeserialize(IOEnv.TRACE_FILE)
Verbose == IOEnv.TRACE_VERBOSE = "1"
VARIABLES tid, l
Ev == Traces[tid].ev
TraceInit ==
    /\ tid \in 1..Len(Traces)
    /\ l = 1
    /\ InitWith([fam |-> Traces[tid].cfg.fam, mode |-> Traces[tid].cfg.mode, ct |-> Traces[tid].cfg.ct])
IsEvent(a) == l <= Len(Ev) /\ Ev[l].a = a /\ l' = l + 1 /\ UNCHANGED tid
Bind == Proj(c') = Ev[l].obs
Arg(i) == Ev[l].args[i]
TrStart   == IsEvent("start") /\ Start /\ Bind
TrSucceed == IsEvent("succeed") /\ Succeed(Arg(1)) /\ Bind
TrFail    == IsEvent("fail") /\ Fail(Arg(1)) /\ Bind
TrPair    == IsEvent("pair") /\ Pair(Arg(1), Arg(2), Arg(3), Arg(4)) /\ Bind
TrHE      == IsEvent("he") /\ HE /\ Bind
TrCT      == IsEvent("ct") /\ CT /\ Bind
TraceNext == TrStart \/ TrSucceed \/ TrFail \/ TrPair \/ TrHE \/ TrCT
TraceSpec == TraceInit /\ [][TraceNext]_<<vars, step, tid, l>>
Report == IF Verbose THEN PrintT(<<"AT", Traces[tid].id, l>>)
          ELSE (l = Len(Ev) + 1 => PrintT(<<"ACCEPT", Traces[tid].id>>))
(* a recorded run is driven until nothing is in flight and no timer is armed: it must have resolved *)
TraceResolved == (l = Len(Ev) + 1 /\ Traces[tid].complete = 1) => c.res # Pend
=============================================================================
