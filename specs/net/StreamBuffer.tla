---------------------------- MODULE StreamBuffer ----------------------------
(***************************************************************************)
(* Contract of tornado.iostream._StreamBuffer (the write FIFO of IOStream, *)
(* property C12): append pieces, peek at the front, advance.               *)
(*   append(piece)  adds the piece's bytes at the end                       *)
(*   peek(n)        a view of a non-empty prefix of at most n bytes of the  *)
(*                  content (empty iff the buffer is empty); how long the   *)
(*                  prefix is (piece boundaries, coalescing) is not part of *)
(*                  the contract                                             *)
(*   advance(k)     drops the first k bytes, 0 < k <= len                   *)
(*   len()          number of bytes held                                    *)
(***************************************************************************)
EXTENDS Integers, Sequences, TLC
CONSTANTS PieceLens,   \* lengths of appended pieces
          PeekLens,    \* arguments of peek
          MaxLen,      \* bound on the content length
          MaxApp       \* bound on the number of appends

VARIABLES cfg,     \* [thr]: _large_buf_threshold used by the real object (does not influence the contract)
          data,    \* content, front first
          napp,    \* number of appends so far (payload bytes are distinct per piece)
          last,    \* result of the last peek (<<>> otherwise)
          step
vars == <<cfg, data, napp, last>>

Proj == [len |-> Len(data), peek |-> last]
Obs(a, args) == [act |-> a, args |-> args, exp |-> Proj']
Piece(j, n) == [o \in 1..n |-> (j * 16 + o) % 256]

InitWith(c) ==
    /\ cfg = c /\ data = <<>> /\ napp = 0 /\ last = <<>>
    /\ step = [act |-> "init", args |-> <<>>, exp |-> [len |-> 0, peek |-> <<>>]]
InitState == \E c \in [thr : {4}] : InitWith(c)

DoAppend(n) ==
    /\ Len(data) + n <= MaxLen /\ napp < MaxApp
    /\ data' = data \o Piece(napp + 1, n)
    /\ napp' = napp + 1
    /\ last' = <<>>
    /\ UNCHANGED cfg
    /\ step' = Obs("append", <<Piece(napp + 1, n)>>)

Peek(n) ==
    /\ IF data = <<>> THEN last' = <<>>
       ELSE \E k \in 1..(IF n < Len(data) THEN n ELSE Len(data)) : last' = SubSeq(data, 1, k)
    /\ UNCHANGED <<cfg, data, napp>>
    /\ step' = Obs("peek", <<n>>)

Advance(k) ==
    /\ k \in 1..Len(data)
    /\ data' = SubSeq(data, k + 1, Len(data))
    /\ last' = <<>>
    /\ UNCHANGED <<cfg, napp>>
    /\ step' = Obs("advance", <<k>>)

Next == \/ \E n \in PieceLens : DoAppend(n)
        \/ \E n \in PeekLens : Peek(n)
        \/ \E k \in 1..MaxLen : Advance(k)
Spec == InitState /\ [][Next]_<<vars, step>>

(* FIFO: what peek shows is a prefix of the content; advancing never reorders (by construction  *)
(* of data); a peek on a non-empty buffer is never empty                                        *)
PeekIsPrefix == Len(last) <= Len(data) /\ last = SubSeq(data, 1, Len(last))
PeekNonEmpty == [][(step'.act = "peek" /\ data # <<>>) => (last' # <<>> /\ Len(last') <= step'.args[1])]_<<vars, step>>
View == <<cfg, data, napp>>      \* `last` is an observation
=============================================================================
