SPECIFICATION Spec
CONSTANTS
  Alphabet = {97, 10}
  MaxStream = 2
  MaxChunk = 2
  ReadIds = {2, 4, 7, 13, 19}
  WriteLens = {2}
  MaxWrites = 2
  Grants = {1, 3}
  MaxCredit = 3
  Mwbs = {0}
  Ccs = {1}
  Conns = {0, 1}
  Ops = {"read", "deliver", "write", "grant", "close", "closeexc", "eof", "reset", "terror", "wreset", "werror", "connok", "connfail"}
VIEW View
INVARIANT TypeOK
INVARIANT ReadDataIsStreamSegment
INVARIANT PendingMeansUnsatisfied
INVARIANT SentIsPrefix
INVARIANT Conservation
INVARIANT WriteBookkeeping
INVARIANT ResolveInOrder
INVARIANT ClosedSettlesAll
PROPERTY ConsumedOnlyByReads
PROPERTY OutcomesFinal
PROPERTY NothingAfterClose
PROPERTY CallbackLast
CHECK_DEADLOCK FALSE
