---------------------------- MODULE GenG_IOStreamContract ----------------------------
(* State-graph generation for IOStreamContract.  A step counter bounds the depth; the states
   (which include the observation `step`) and action-labelled edges reachable within L steps
   are dumped by TLC and the harness enumerates every path through that graph
   (harness.net_driver.graph_paths) - the same path set a history variable would give. *)
EXTENDS IOStreamContract
CONSTANT L
VARIABLE n
GInit == InitState /\ n = 0
GNext == n < L /\ Next /\ n' = n + 1
GSpec == GInit /\ [][GNext]_<<vars, step, n>>
=============================================================================
