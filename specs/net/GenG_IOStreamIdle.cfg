SPECIFICATION GSpec
CONSTANTS
  Alphabet = {97}
  MaxStream = 12
  MaxChunk = 6
  ReadIds = {1, 2, 4, 7}
  WriteLens = {}
  MaxWrites = 0
  Grants = {}
  MaxCredit = 12
  Mwbs = {0}
  Ccs = {1}
  Conns = {0}
  Ops = {"read", "deliver"}
  L = 4
CHECK_DEADLOCK FALSE
