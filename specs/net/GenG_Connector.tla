---------------------------- MODULE GenG_Connector ----------------------------
(* Bounded state graph of Connector for path enumeration (see GenG_IOStreamContract). *)
EXTENDS Connector
CONSTANT L
VARIABLE n
GInit == InitState /\ n = 0
GNext == n < L /\ Next /\ n' = n + 1
GSpec == GInit /\ [][GNext]_<<vars, step, n>>
=============================================================================
