---------------------------- MODULE Gen_StreamCancel ----------------------------
(* Path enumeration for StreamCancel: every action sequence up to length L with the expected projection. *)
EXTENDS StreamCancel
CONSTANT L
VARIABLE hist
GenInit == InitState /\ hist = <<>>
GenNext == Len(hist) < L /\ Next /\ hist' = Append(hist, step')
GenSpec == GenInit /\ [][GenNext]_<<vars, step, hist>>
=============================================================================
