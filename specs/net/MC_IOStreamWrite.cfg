SPECIFICATION Spec
CONSTANTS
  Alphabet = {97}
  MaxStream = 0
  MaxChunk = 1
  ReadIds = {}
  WriteLens = {0, 1, 3, 5}
  MaxWrites = 4
  Grants = {1, 2, 6}
  MaxCredit = 8
  Mwbs = {0, 6}
  Ccs = {1}
  Conns = {0}
  Ops = {"write", "grant", "close", "wreset", "werror"}
VIEW View
INVARIANT TypeOK
INVARIANT SentIsPrefix
INVARIANT Conservation
INVARIANT WriteBookkeeping
INVARIANT ResolveInOrder
INVARIANT ClosedSettlesAll
PROPERTY RefusedNoEffect
PROPERTY OutcomesFinal
PROPERTY NothingAfterClose
PROPERTY CallbackLast
CHECK_DEADLOCK FALSE
