SPECIFICATION GSpec
CONSTANTS
  Alphabet = {97, 10}
  MaxStream = 3
  MaxChunk = 1
  ReadIds = {2, 4, 7, 11, 13, 19}
  WriteLens = {0, 2}
  MaxWrites = 2
  Grants = {1, 3}
  MaxCredit = 12
  Mwbs = {0}
  Ccs = {1}
  Conns = {0, 1}
  Ops = {"read", "deliver", "write", "grant", "close", "closeexc", "eof", "reset", "terror", "wreset", "werror", "connok", "connfail"}
  L = 4
CHECK_DEADLOCK FALSE
