SPECIFICATION GSpec
CONSTANTS
  Alphabet = {97, 10}
  MaxStream = 4
  MaxChunk = 2
  ReadIds = {3, 13, 15, 20, 23}
  WriteLens = {}
  MaxWrites = 0
  Grants = {}
  MaxCredit = 12
  Mwbs = {0}
  Ccs = {0}
  Conns = {0}
  Ops = {"read", "deliver"}
  L = 4
CHECK_DEADLOCK FALSE
