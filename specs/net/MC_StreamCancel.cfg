SPECIFICATION Spec
CONSTANTS
  Conns = {0, 1}
  Causes = {"close", "closeexc", "eof", "reset"}
INVARIANT TypeOK
INVARIANT ClosedSettlesAll
INVARIANT CallbackOnce
INVARIANT NeverRaises
PROPERTY OutcomesFinal
PROPERTY CallbackLast
PROPERTY NothingAfterClose
CHECK_DEADLOCK FALSE
