---------------------------- MODULE Gen_IOStreamContract ----------------------------
(* Path enumeration for IOStreamContract: with the history in the state every path is a
   distinct state, so TLC's BFS enumerates every operation sequence up to length L. *)
EXTENDS IOStreamContract
CONSTANT L
VARIABLE hist
GenInit == InitState /\ hist = <<>>
GenNext == Len(hist) < L /\ Next /\ hist' = Append(hist, step')
GenSpec == GenInit /\ [][GenNext]_<<vars, step, hist>>
GenBound == Len(hist) <= L
=============================================================================
