SPECIFICATION GSpec
CONSTANTS
  Alphabet = {97, 10}
  MaxStream = 4
  MaxChunk = 2
  ReadIds = {1, 3, 4, 7, 11, 13, 19, 25}
  WriteLens = {}
  MaxWrites = 0
  Grants = {}
  MaxCredit = 12
  Mwbs = {0}
  Ccs = {1}
  Conns = {0}
  Ops = {"read", "deliver", "close", "eof"}
  L = 4
CHECK_DEADLOCK FALSE
