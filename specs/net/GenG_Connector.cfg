SPECIFICATION GSpec
CONSTANTS
  MaxN = 3
  Modes = {"async", "sync"}
  Cts = {0, 1, 2}
  L = 8
CHECK_DEADLOCK FALSE
