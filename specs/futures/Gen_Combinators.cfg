SPECIFICATION GenSpec
CONSTANTS
  NF = 3
  Combs = {"multi", "multid", "wait", "waitkw", "timeout", "tmulti", "chain"}
  MaxSlots = 3
  Dups = TRUE
  Deadlines = {0, 1, 2}
  MaxAdvance = 2
  Outcomes = {"ok", "exc", "cancel"}
  BPre = {"none", "ok", "cancel"}
  L = 12
CONSTRAINT GenBound
CONSTRAINT GenOut
CHECK_DEADLOCK FALSE
