---------------------------- MODULE Gen_CoroLang ----------------------------
(* Path enumeration: every program of the bounded grammar x every interleaving of Start and
   the completions (with every outcome) of the futures the program can await.  Behaviours are
   finite (one Start, one Complete per future); L is a safety net. *)
EXTENDS CoroLang, Json
CONSTANT L
VARIABLE hist
GenInit == InitState /\ hist = <<>>
GenNext == Next /\ hist' = Append(hist, step')
GenSpec == GenInit /\ [][GenNext]_<<vars, step, hist>>
GenBound == Len(hist) <= L
(* every complete behaviour (no action enabled, or cut by L) is printed once as JSON: with hist in
   the state each path is one distinct state, and a state constraint is evaluated once per state *)
GenOut == (Len(hist) > 0 /\ (Len(hist) = L \/ ~ENABLED Next)) =>
              PrintT(ToJson(<<"VPATH", [prog |-> cfg.prog, subs |-> cfg.subs], hist>>))
=============================================================================
