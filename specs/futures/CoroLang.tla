---------------------------- MODULE CoroLang ----------------------------
(***************************************************************************)
(* Small-step semantics of a bounded language of coroutine bodies          *)
(* (property C37).  The same program is emitted by the harness as a        *)
(* @gen.coroutine generator and as an `async def` run as a task; each must *)
(* produce the side-effect log and the outcome this semantics defines, for *)
(* every order in which the awaited futures complete.                      *)
(*                                                                         *)
(* Statements are uniform records [op, a, b, B, H, F]:                     *)
(*   eff(a)        append ("eff", a) to the log                            *)
(*   await(a)      x <- await future a; append ("got", x)                  *)
(*   list(a, b)    x <- await [F_a, F_b]  (gen.multi); append ("got", x)   *)
(*   dict(a, b)    x <- await {"p": F_a, "q": F_b}; append ("got", values) *)
(*   moment        let the event loop run one iteration                    *)
(*   sub(a)        x <- await sub_a()  (a native coroutine, body Subs[a]); *)
(*                 append ("sub", x)                                       *)
(*   ret(a)        return a                 raise     raise Boom()         *)
(*   rdctx         append ("ctx", value of the context variable)           *)
(*   setctx(a)     set the context variable                                *)
(*   try B except Exception as e: log ("caught", class of e); H finally: F *)
(*                 (H = <<>>: no except clause; F = <<>>: no finally)      *)
(*                                                                         *)
(* The machine is a stack of frames; MicroStep is one small step, Run its  *)
(* closure up to the next suspension (the code between two awaits is       *)
(* atomic on a single-threaded event loop).  Environment actions: Start    *)
(* (the caller calls the coroutine and lets the loop settle) and           *)
(* Complete(f, o) (future f gets a result, an exception or is cancelled).  *)
(***************************************************************************)
EXTENDS Integers, Sequences, FiniteSets, TLC

CONSTANTS TopOps,     \* atom names allowed at top level
          BodyOps,    \* ... in a try body
          HOps,       \* ... in an except handler ("none" = no except clause)
          FOps,       \* ... in a finally block   ("none" = no finally clause)
          MaxTop,     \* number of top-level statements
          MaxBody,    \* number of statements of a try body
          MaxTry,     \* number of try statements at top level
          Nest,       \* TRUE: a try body may itself be a (flat) try statement
          Outcomes    \* outcomes offered to Complete: subset of {"ok","exc","cancel"}

NF == 3                \* futures: 1, 2 awaited by the body, 3 awaited inside sub-coroutines
Futs == 1..NF
EName == <<"E1", "E2", "E3">>

Pend     == [s |-> "pending",   v |-> <<>>, e |-> ""]
Canc     == [s |-> "cancelled", v |-> <<>>, e |-> ""]
Ok(vs)   == [s |-> "ok",        v |-> vs,   e |-> ""]
Exc(c)   == [s |-> "exc",       v |-> <<>>, e |-> c]
OutcomeOf(f, o) == IF o = "ok" THEN Ok(<<10 + f>>) ELSE IF o = "exc" THEN Exc(EName[f]) ELSE Canc

S(op, a, b)  == [op |-> op, a |-> a, b |-> b, B |-> <<>>, H |-> <<>>, F |-> <<>>]
Try(B, H, F) == [op |-> "try", a |-> 0, b |-> 0, B |-> B, H |-> H, F |-> F]

(* atoms by name; region r labels the effects: 1 top, 2 body, 3 handler, 4 finally *)
Atom(n, r) ==
    CASE n = "eff"    -> S("eff", r, 0)
      [] n = "await1" -> S("await", 1, 0)
      [] n = "await2" -> S("await", 2, 0)
      [] n = "list"   -> S("list", 1, 2)
      [] n = "listdup" -> S("list", 1, 1)
      [] n = "dict"   -> S("dict", 2, 1)
      [] n = "moment" -> S("moment", 0, 0)
      [] n = "sub1"   -> S("sub", 1, 0)
      [] n = "sub2"   -> S("sub", 2, 0)
      [] n = "sub3"   -> S("sub", 3, 0)
      [] n = "ret"    -> S("ret", 7, 0)
      [] n = "raise"  -> S("raise", 0, 0)
      [] n = "rdctx"  -> S("rdctx", 0, 0)
      [] n = "setctx" -> S("setctx", 2, 0)

(* bodies of the sub-coroutines: returns without suspending / awaits future 3 / awaits and raises *)
Subs == << <<S("eff", 9, 0), S("rdctx", 0, 0), S("ret", 5, 0)>>,
           <<S("eff", 9, 0), S("await", 3, 0), S("ret", 5, 0)>>,
           <<S("await", 3, 0), S("raise", 0, 0)>> >>

----------------------------------------------------------------------------
(* the bounded grammar *)
Terminal(s) == s.op \in {"ret", "raise"}
NoDeadCode(b) == \A i \in 1..(Len(b) - 1) : ~Terminal(b[i])
SeqsUpTo(S_, lo, hi) == UNION {[1..n -> S_] : n \in lo..hi}

Clause(ops, r) == {<<Atom(n, r)>> : n \in ops \ {"none"}} \cup (IF "none" \in ops THEN {<<>>} ELSE {})
FlatBodies == {b \in SeqsUpTo({Atom(n, 2) : n \in BodyOps}, 1, MaxBody) : NoDeadCode(b)}
FlatTries  == {Try(B, H, F) : B \in FlatBodies, H \in Clause(HOps, 3), F \in Clause(FOps, 4)}
                 \ {Try(B, <<>>, <<>>) : B \in FlatBodies}
InnerTries == {Try(<<Atom(n, 2)>>, H, F) : n \in BodyOps, H \in Clause(HOps, 5), F \in Clause(FOps, 6)}
                 \ {Try(<<Atom(n, 2)>>, <<>>, <<>>) : n \in BodyOps}
NestTries  == IF Nest THEN {Try(<<t>>, H, F) : t \in InnerTries, H \in Clause(HOps, 3), F \in Clause(FOps, 4)}
                              \ {Try(<<t>>, <<>>, <<>>) : t \in InnerTries}
              ELSE {}
TopStmts == {Atom(n, 1) : n \in TopOps} \cup FlatTries \cup NestTries
Programs == {p \in SeqsUpTo(TopStmts, 1, MaxTop) :
                /\ NoDeadCode(p)
                /\ Cardinality({i \in 1..Len(p) : p[i].op = "try"}) <= MaxTry}

RECURSIVE FutsOfBlock(_)
FutsOfStmt(s) ==
    CASE s.op = "await" -> {s.a}
      [] s.op \in {"list", "dict"} -> {s.a, s.b}
      [] s.op = "sub" -> FutsOfBlock(Subs[s.a])
      [] s.op = "try" -> FutsOfBlock(s.B) \cup FutsOfBlock(s.H) \cup FutsOfBlock(s.F)
      [] OTHER -> {}
FutsOfBlock(b) == UNION {FutsOfStmt(b[i]) : i \in 1..Len(b)}

----------------------------------------------------------------------------
VARIABLES cfg,    \* [prog, subs, used]: the program, the sub-coroutine bodies, the futures it can await
          fs,     \* fs[f]: outcome of future f
          mach,   \* the coroutine: [stk, mode, compl, wait, log, ctx, out]
          step    \* observation of the last step: [act, args, exp]

vars == <<cfg, fs, mach>>

Norm == [k |-> "norm", v |-> 0, e |-> ""]
Frame(code, kind, H, F, pend) == [code |-> code, pc |-> 1, kind |-> kind, H |-> H, F |-> F, pend |-> pend]
NoWait == [kind |-> "none", fs |-> <<>>]
Entry(t, v, e) == [t |-> t, v |-> v, e |-> e]

Last(s) == s[Len(s)]
Pop(s)  == SubSeq(s, 1, Len(s) - 1)
SetTop(s, fr) == [s EXCEPT ![Len(s)] = fr]
Min(S_) == CHOOSE x \in S_ : \A y \in S_ : x <= y
Done(F, f) == F[f].s # "pending"
Catchable(e) == e # "CancelledError"        \* `except Exception` does not catch CancelledError

(* gen.multi over the futures q: all results in order, or the first failing one's outcome *)
MultiOf(F, q) ==
    LET bad == {i \in 1..Len(q) : F[q[i]].s \in {"exc", "cancelled"}} IN
    IF bad = {} THEN Ok([i \in 1..Len(q) |-> F[q[i]].v[1]]) ELSE F[q[Min(bad)]]
AwaitRef(F, w) == IF w.kind = "one" THEN F[w.fs[1]] ELSE MultiOf(F, w.fs)

(* the awaited thing finished with outcome r: bind and log the value, or raise *)
Deliver(m, r) ==
    IF r.s = "ok" THEN [m EXCEPT !.mode = "run", !.wait = NoWait, !.log = Append(@, Entry("got", r.v, ""))]
    ELSE [m EXCEPT !.mode = "run", !.wait = NoWait,
                   !.compl = [k |-> "exc", v |-> 0, e |-> IF r.s = "cancelled" THEN "CancelledError" ELSE r.e]]

AwaitOn(m, F, w) ==
    IF \A i \in 1..Len(w.fs) : Done(F, w.fs[i]) THEN Deliver(m, AwaitRef(F, w))
    ELSE [m EXCEPT !.mode = "wait", !.wait = w]

Finish(m) ==
    [m EXCEPT !.mode = "done",
              !.out = IF m.compl.k = "exc"
                        THEN (IF m.compl.e = "CancelledError" THEN Canc ELSE Exc(m.compl.e))
                        ELSE Ok(<<m.compl.v>>),        \* falling off the end returns None (0)
              !.compl = Norm]

(* an abrupt completion (return / exception) propagates through the top frame *)
Unwind(m, top) ==
    CASE top.kind = "try" ->
            IF m.compl.k = "exc" /\ Catchable(m.compl.e) /\ top.H # <<>>
              THEN [m EXCEPT !.stk = SetTop(@, Frame(top.H, "exc", <<>>, top.F, Norm)),
                             !.log = Append(@, Entry("caught", <<>>, m.compl.e)),
                             !.compl = Norm]
            ELSE IF top.F # <<>>
              THEN [m EXCEPT !.stk = SetTop(@, Frame(top.F, "fin", <<>>, <<>>, m.compl)), !.compl = Norm]
            ELSE [m EXCEPT !.stk = Pop(@)]
      [] top.kind = "exc" ->
            IF top.F # <<>>
              THEN [m EXCEPT !.stk = SetTop(@, Frame(top.F, "fin", <<>>, <<>>, m.compl)), !.compl = Norm]
            ELSE [m EXCEPT !.stk = Pop(@)]
      [] top.kind = "fin" -> [m EXCEPT !.stk = Pop(@)]         \* replaces the pending completion
      [] top.kind = "top" -> [m EXCEPT !.stk = Pop(@)]
      [] top.kind = "sub" ->
            IF m.compl.k = "ret"
              THEN [m EXCEPT !.stk = Pop(@), !.log = Append(@, Entry("sub", <<m.compl.v>>, "")), !.compl = Norm]
            ELSE [m EXCEPT !.stk = Pop(@)]

(* the top frame's block ran to its end *)
BlockEnd(m, top) ==
    CASE top.kind \in {"try", "exc"} ->
            IF top.F # <<>>
              THEN [m EXCEPT !.stk = SetTop(@, Frame(top.F, "fin", <<>>, <<>>, Norm))]
            ELSE [m EXCEPT !.stk = Pop(@)]
      [] top.kind = "fin" -> [m EXCEPT !.stk = Pop(@), !.compl = top.pend]
      [] top.kind = "top" -> [m EXCEPT !.stk = Pop(@)]
      [] top.kind = "sub" -> [m EXCEPT !.stk = Pop(@), !.log = Append(@, Entry("sub", <<0>>, ""))]

Exec(m, F, s) ==
    CASE s.op = "eff"    -> [m EXCEPT !.log = Append(@, Entry("eff", <<s.a>>, ""))]
      [] s.op = "await"  -> AwaitOn(m, F, [kind |-> "one", fs |-> <<s.a>>])
      [] s.op \in {"list", "dict"} -> AwaitOn(m, F, [kind |-> "multi", fs |-> <<s.a, s.b>>])
      [] s.op = "moment" -> [m EXCEPT !.mode = "wait", !.wait = [kind |-> "moment", fs |-> <<>>]]
      [] s.op = "sub"    -> [m EXCEPT !.stk = Append(@, Frame(cfg.subs[s.a], "sub", <<>>, <<>>, Norm))]
      [] s.op = "ret"    -> [m EXCEPT !.compl = [k |-> "ret", v |-> s.a, e |-> ""]]
      [] s.op = "raise"  -> [m EXCEPT !.compl = [k |-> "exc", v |-> 0, e |-> "Boom"]]
      [] s.op = "rdctx"  -> [m EXCEPT !.log = Append(@, Entry("ctx", <<m.ctx>>, ""))]
      [] s.op = "setctx" -> [m EXCEPT !.ctx = s.a]
      [] s.op = "try"    -> [m EXCEPT !.stk = Append(@, Frame(s.B, "try", s.H, s.F, Norm))]

MicroStep(m, F) ==
    IF m.mode \in {"new", "done"} THEN m
    ELSE IF m.mode = "wait" THEN
        IF m.wait.kind = "moment" THEN [m EXCEPT !.mode = "run", !.wait = NoWait]
        ELSE IF \A i \in 1..Len(m.wait.fs) : Done(F, m.wait.fs[i]) THEN Deliver(m, AwaitRef(F, m.wait))
        ELSE m
    ELSE IF m.stk = <<>> THEN Finish(m)
    ELSE LET top == Last(m.stk) IN
         IF m.compl.k # "norm" THEN Unwind(m, top)
         ELSE IF top.pc > Len(top.code) THEN BlockEnd(m, top)
         ELSE Exec([m EXCEPT !.stk = SetTop(@, [top EXCEPT !.pc = @ + 1])], F, top.code[top.pc])

RECURSIVE Run(_, _)
Run(m, F) == LET n == MicroStep(m, F) IN IF n = m THEN m ELSE Run(n, F)

NewMach(p) == [stk |-> <<Frame(p, "top", <<>>, <<>>, Norm)>>, mode |-> "new", compl |-> Norm, wait |-> NoWait,
               log |-> <<>>, ctx |-> 1, out |-> Pend]

Proj == [log |-> mach.log, out |-> mach.out]
Obs(a, args) == [act |-> a, args |-> args, exp |-> Proj']

InitWith(p) ==
    /\ cfg = [prog |-> p, subs |-> Subs, used |-> FutsOfBlock(p)]
    /\ fs = [f \in Futs |-> Pend]
    /\ mach = NewMach(p)
    /\ step = [act |-> "init", args |-> <<>>, exp |-> [log |-> <<>>, out |-> Pend]]

InitState == \E p \in Programs : InitWith(p)

(* the caller (context variable = 1) calls the coroutine; the loop runs to quiescence *)
Start ==
    /\ mach.mode = "new"
    /\ mach' = Run([mach EXCEPT !.mode = "run"], fs)
    /\ UNCHANGED <<cfg, fs>>
    /\ step' = Obs("start", <<>>)

(* future f completes; a coroutine waiting for it resumes and runs to its next suspension *)
Complete(f, o) ==
    /\ f \in cfg.used
    /\ fs[f].s = "pending"
    /\ fs' = [fs EXCEPT ![f] = OutcomeOf(f, o)]
    /\ mach' = IF mach.mode = "wait" THEN Run(mach, fs') ELSE mach
    /\ UNCHANGED cfg
    /\ step' = Obs("complete", <<f, o>>)

Next == Start \/ \E f \in Futs, o \in Outcomes : Complete(f, o)

Spec == InitState /\ [][Next]_<<vars, step>>

----------------------------------------------------------------------------
(* Properties of the semantics *)

TypeOK ==
    /\ mach.mode \in {"new", "run", "wait", "done"}
    /\ mach.out.s \in {"pending", "ok", "exc", "cancelled"}
    /\ \A i \in 1..Len(mach.log) : mach.log[i].t \in {"eff", "got", "caught", "ctx", "sub"}

(* every action runs the coroutine up to a suspension point or to its end *)
Quiescent == mach.mode # "run" /\ MicroStep(mach, fs) = mach

(* the result future settles exactly when the body has finished *)
DoneIffOut == (mach.mode = "done") <=> (mach.out.s # "pending")
DoneClean  == mach.mode = "done" => mach.stk = <<>> /\ mach.compl = Norm

(* a suspended coroutine waits for something that is still pending: it is never left
   waiting once what it awaits is done *)
NeverStuck == mach.mode = "wait" =>
                 /\ mach.wait.kind \in {"one", "multi"}
                 /\ \E i \in 1..Len(mach.wait.fs) : ~Done(fs, mach.wait.fs[i])

(* "for every order in which the awaited futures complete": once every future has completed
   the log and the outcome are those of the run in which all futures were done before the
   call - the completion order is not observable *)
OrderIndependent ==
    (mach.mode # "new" /\ \A f \in cfg.used : Done(fs, f)) =>
        LET r == Run([NewMach(cfg.prog) EXCEPT !.mode = "run"], fs) IN
        /\ mach.mode = "done"
        /\ mach.log = r.log /\ mach.out = r.out

(* the context variable set by the caller is what the body reads unless it set it itself *)
CallerContextVisible ==
    \A i \in 1..Len(mach.log) : mach.log[i].t = "ctx" => mach.log[i].v \in {<<1>>, <<2>>}

IsPrefix(s, t) == Len(s) <= Len(t) /\ SubSeq(t, 1, Len(s)) = s
(* side effects are never retracted; a finished coroutine does nothing more *)
LogGrows   == [][IsPrefix(mach.log, mach'.log)]_vars
DoneFrozen == [][mach.mode = "done" => mach' = mach]_vars

View == vars
=============================================================================
