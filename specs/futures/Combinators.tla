---------------------------- MODULE Combinators ----------------------------
(***************************************************************************)
(* Reference model of Tornado's future combinators (property C36):         *)
(*   gen.multi (list and dict form), gen.WaitIterator (positional and      *)
(*   keyword form), gen.with_timeout (over one future and over a list,     *)
(*   i.e. over multi) and concurrent.chain_future.                         *)
(*                                                                         *)
(* One behaviour = one combinator (cfg.comb) over the input futures        *)
(* 1..NF placed at the positions cfg.slots (a future may occupy several    *)
(* positions: duplicates).  One action = one call by the application       *)
(* (resolve / cancel an input, create the combinator, WaitIterator.next(), *)
(* cancel the output, advance the clock) followed by running the event     *)
(* loop to quiescence.  Inputs resolved before Create are "already done".  *)
(*                                                                         *)
(* Outcomes are uniform records [s, v, e]: s in {"pending","ok","exc",     *)
(* "cancelled"}, v the result as a sequence of integers (a single value is *)
(* <<x>>, a multi result the list of values in position / key order), e    *)
(* the exception class.  Future f resolves to the value 10+f or fails with *)
(* the class EName[f], so that "which input" is visible in the output.     *)
(* A cancelled outcome is what an awaiter experiences as CancelledError    *)
(* (Future.cancelled() or an exception of class CancelledError).           *)
(***************************************************************************)
EXTENDS Integers, Sequences, FiniteSets, TLC

CONSTANTS NF,          \* input futures are 1..NF
          Combs,       \* subset of {"multi","multid","wait","waitkw","timeout","tmulti","chain"}
          MaxSlots,    \* largest number of positions for multi / wait / tmulti
          Dups,        \* TRUE: a future may occupy several positions
          Deadlines,   \* relative deadlines offered to with_timeout (0 = expires in the same settle)
          MaxAdvance,  \* largest single clock step
          Outcomes,    \* subset of {"ok","exc","cancel"}
          BPre         \* chain: states of the target before chaining, subset of {"none","ok","cancel"}

NoDl == 999
Futs == 1..NF
EName == <<"E1", "E2", "E3", "E4", "E5", "E6", "E7", "E8", "E9", "E10", "E11", "E12">>

Pend     == [s |-> "pending",   v |-> <<>>, e |-> ""]
Canc     == [s |-> "cancelled", v |-> <<>>, e |-> ""]
Ok(vs)   == [s |-> "ok",        v |-> vs,   e |-> ""]
Exc(c)   == [s |-> "exc",       v |-> <<>>, e |-> c]
TimedOut == Exc("TimeoutError")
Preset   == Ok(<<99>>)          \* value of a chain target completed by somebody else

OutcomeOf(f, o) == IF o = "ok" THEN Ok(<<10 + f>>) ELSE IF o = "exc" THEN Exc(EName[f]) ELSE Canc

VARIABLES cfg,      \* [comb, slots, dl, bpre] - fixed during a behaviour
          fs,       \* fs[f]: outcome of input future f
          created,  \* the combinator exists
          out,      \* the output future of multi / with_timeout / chain_future
          rem,      \* time left on with_timeout's timer (NoDl: no live timer)
          wq,       \* WaitIterator: inputs finished but not yet handed out, in the order seen
          nexts,    \* WaitIterator: outcome of the future returned by each next() call
          cur,      \* WaitIterator: the input sitting at current_index (0 = None)
          err,      \* exception class of the last call ("none" if it returned)
          \* history variables (determined by the rest; used by the invariants only)
          order,    \* inputs in completion order
          seen,     \* WaitIterator: inputs in the order the iterator learnt of their completion
          expired,  \* with_timeout: the deadline passed while the output was pending
          ucanc,    \* the application cancelled the output (or the running next() future)
          pre,      \* inputs that were already done when the combinator was created
          step      \* observation of the last step: [act, args, exp]

vars == <<cfg, fs, created, out, rem, wq, nexts, cur, err, order, seen, expired, ucanc, pre>>

Slots   == cfg.slots
NSlots  == Len(Slots)
Used    == {Slots[i] : i \in 1..NSlots}
IsMulti == cfg.comb \in {"multi", "multid"}
IsWait  == cfg.comb \in {"wait", "waitkw"}
IsTime  == cfg.comb \in {"timeout", "tmulti"}
IsChain == cfg.comb = "chain"

Done(F, f)  == F[f].s # "pending"
AllDone(F)  == \A f \in Used : Done(F, f)
Min(S)      == CHOOSE x \in S : \A y \in S : x <= y
Last(s)     == s[Len(s)]

(* what multi reports once all inputs are done: values in position order, or the outcome
   of the first position whose input failed (a cancelled input counts as failed) *)
MultiRef(F) ==
    LET bad == {i \in 1..NSlots : F[Slots[i]].s \in {"exc", "cancelled"}} IN
    IF bad = {} THEN Ok([i \in 1..NSlots |-> 10 + Slots[i]])
    ELSE F[Slots[Min(bad)]]

(* the single source with_timeout / chain_future copy from *)
SourceDone(F) == IF cfg.comb = "tmulti" THEN AllDone(F) ELSE Done(F, 1)
SourceRef(F)  == IF cfg.comb = "tmulti" THEN MultiRef(F) ELSE F[1]

(* distinct inputs in order of first position *)
FirstPos(f)  == Min({i \in 1..NSlots : Slots[i] = f})
DistinctSeq  == LET idx == {i \in 1..NSlots : FirstPos(Slots[i]) = i}
                    Nth[k \in 1..Cardinality(idx)] ==
                        CHOOSE i \in idx : Cardinality({j \in idx : j < i}) = k - 1
                IN [k \in 1..Cardinality(idx) |-> Slots[Nth[k]]]

Running == nexts # <<>> /\ Last(nexts).s = "pending"
Yielded == Cardinality(Used) - Len(wq) - Cardinality({f \in Used : ~Done(fs, f)})   \* inputs handed out so far
WDone   == created /\ IsWait /\ wq = <<>> /\ AllDone(fs) /\ ~Running
              /\ Len(seen) = Cardinality(Used)

Proj == [out |-> out, nexts |-> nexts, cur |-> cur, wdone |-> WDone, err |-> err]
Obs(a, args) == [act |-> a, args |-> args, exp |-> Proj']

----------------------------------------------------------------------------
Canonical(s) == \A i \in 1..Len(s) : s[i] <= 1 + Len(s) /\
                    \A k \in 1..(s[i] - 1) : \E j \in 1..(i - 1) : s[j] = k
SlotSeqs == {s \in UNION {[1..n -> Futs] : n \in 0..MaxSlots} :
                Canonical(s) /\ (~Dups => \A i, j \in 1..Len(s) : i # j => s[i] # s[j])}

Configs ==
    {c \in [comb : Combs, slots : SlotSeqs, dl : Deadlines \cup {NoDl}, bpre : BPre] :
        /\ c.comb \in {"timeout", "chain"} => c.slots = <<1>>
        /\ c.comb = "tmulti" => Len(c.slots) >= 1
        /\ c.comb \in {"timeout", "tmulti"} <=> c.dl # NoDl
        /\ c.comb # "chain" => c.bpre = "none"}

InitWith(c) ==
    /\ cfg = c
    /\ fs = [f \in Futs |-> Pend]
    /\ created = FALSE
    /\ out = IF c.bpre = "ok" THEN Preset ELSE IF c.bpre = "cancel" THEN Canc ELSE Pend
    /\ rem = NoDl
    /\ wq = <<>>
    /\ nexts = <<>>
    /\ cur = 0
    /\ err = "none"
    /\ order = <<>>
    /\ seen = <<>>
    /\ expired = FALSE
    /\ ucanc = FALSE
    /\ pre = {}
    /\ step = [act |-> "init", args |-> <<>>,
               exp |-> [out |-> out, nexts |-> <<>>, cur |-> 0, wdone |-> FALSE, err |-> "none"]]

InitState == \E c \in Configs : InitWith(c)

----------------------------------------------------------------------------
(* the application resolves / fails / cancels input f *)
Resolve(f, o) ==
    /\ f \in Used
    /\ fs[f].s = "pending"
    /\ fs' = [fs EXCEPT ![f] = OutcomeOf(f, o)]
    /\ order' = Append(order, f)
    /\ err' = "none"
    /\ IF ~created THEN UNCHANGED <<out, rem, wq, nexts, cur, seen>>
       ELSE IF IsMulti THEN
            /\ out' = IF out.s = "pending" /\ AllDone(fs') THEN MultiRef(fs') ELSE out
            /\ UNCHANGED <<rem, wq, nexts, cur, seen>>
       ELSE IF IsTime \/ IsChain THEN
            /\ out' = IF out.s = "pending" /\ SourceDone(fs') THEN SourceRef(fs') ELSE out
            /\ rem' = IF SourceDone(fs') THEN NoDl ELSE rem      \* the timer is removed
            /\ UNCHANGED <<wq, nexts, cur, seen>>
       ELSE \* WaitIterator
            /\ seen' = Append(seen, f)
            /\ IF Running
                 THEN /\ nexts' = [nexts EXCEPT ![Len(nexts)] = fs'[f]]
                      /\ cur' = f
                      /\ UNCHANGED wq
                 ELSE /\ wq' = Append(wq, f)
                      /\ UNCHANGED <<nexts, cur>>
            /\ UNCHANGED <<out, rem>>
    /\ UNCHANGED <<cfg, created, expired, ucanc, pre>>
    /\ step' = Obs("resolve", <<f, o>>)

(* the combinator is constructed over the inputs, some of which may be done already *)
Create ==
    /\ ~created
    /\ created' = TRUE
    /\ err' = "none"
    /\ IF IsMulti THEN
            /\ out' = IF AllDone(fs) THEN MultiRef(fs) ELSE Pend
            /\ UNCHANGED <<rem, wq, seen, expired>>
       ELSE IF IsTime THEN
            /\ out' = IF SourceDone(fs) THEN SourceRef(fs) ELSE IF cfg.dl = 0 THEN TimedOut ELSE Pend
            /\ rem' = IF SourceDone(fs) \/ cfg.dl = 0 THEN NoDl ELSE cfg.dl
            /\ expired' = (~SourceDone(fs) /\ cfg.dl = 0)
            /\ UNCHANGED <<wq, seen>>
       ELSE IF IsChain THEN
            /\ out' = IF out.s = "pending" /\ Done(fs, 1) THEN fs[1] ELSE out
            /\ UNCHANGED <<rem, wq, seen, expired>>
       ELSE \* WaitIterator: inputs that are already done are queued in position order
            /\ wq' = SelectSeq(DistinctSeq, LAMBDA f : Done(fs, f))
            /\ seen' = wq'
            /\ UNCHANGED <<out, rem, expired>>
    /\ pre' = {f \in Used : Done(fs, f)}
    /\ UNCHANGED <<cfg, fs, nexts, cur, order, ucanc>>
    /\ step' = Obs("create", <<>>)

(* WaitIterator.next(), used as documented: not while a previous next() future is pending,
   not after done() *)
NextCall ==
    /\ created /\ IsWait
    /\ ~Running
    /\ ~WDone
    /\ IF wq # <<>>
         THEN /\ nexts' = Append(nexts, fs[Head(wq)])
              /\ cur' = Head(wq)
              /\ wq' = Tail(wq)
         ELSE /\ nexts' = Append(nexts, Pend)
              /\ UNCHANGED <<cur, wq>>
    /\ err' = "none"
    /\ UNCHANGED <<cfg, fs, created, out, rem, order, seen, expired, ucanc, pre>>
    /\ step' = Obs("next", <<>>)

(* the clock advances by d; with_timeout's timer fires if it is still live *)
Advance(d) ==
    /\ created /\ IsTime
    /\ rem # NoDl
    /\ IF rem <= d
         THEN /\ out' = IF out.s = "pending" THEN TimedOut ELSE out
              /\ expired' = (out.s = "pending")
              /\ rem' = NoDl
         ELSE /\ rem' = rem - d
              /\ UNCHANGED <<out, expired>>
    /\ err' = "none"
    /\ UNCHANGED <<cfg, fs, created, wq, nexts, cur, order, seen, ucanc, pre>>
    /\ step' = Obs("advance", <<d>>)

(* the application cancels the output future (for WaitIterator: the pending next() future) *)
CancelOut ==
    /\ created
    /\ ~ucanc
    /\ IF IsWait
         THEN /\ Running
              /\ nexts' = [nexts EXCEPT ![Len(nexts)] = Canc]
              /\ UNCHANGED out
         ELSE /\ out.s = "pending"
              /\ out' = Canc
              /\ UNCHANGED nexts
    /\ ucanc' = TRUE
    /\ err' = "none"
    /\ UNCHANGED <<cfg, fs, created, rem, wq, cur, order, seen, expired, pre>>
    /\ step' = Obs("cancelout", <<>>)

Next ==
    \/ \E f \in Futs, o \in Outcomes : Resolve(f, o)
    \/ Create
    \/ NextCall
    \/ \E d \in 1..MaxAdvance : Advance(d)
    \/ CancelOut

Spec == InitState /\ [][Next]_<<vars, step>>

----------------------------------------------------------------------------
(* Properties (C36) *)

OutcomeRec(r) == /\ r.s \in {"pending", "ok", "exc", "cancelled"}
                 /\ r.s # "ok" => r.v = <<>>
                 /\ r.s # "exc" => r.e = ""

TypeOK ==
    /\ \A f \in Futs : OutcomeRec(fs[f])
    /\ OutcomeRec(out)
    /\ \A i \in 1..Len(nexts) : OutcomeRec(nexts[i])
    /\ cur \in {0} \cup Used
    /\ \A f \in Futs : f \notin Used => fs[f] = Pend

(* "None of them is left pending forever once its inputs are done" *)
NoPendingForever ==
    created /\ AllDone(fs) =>
        /\ ~IsWait => out.s # "pending"
        /\ IsWait => ~Running

(* multi: resolves once (and only once) all inputs are done, with the results in input order
   or the first failing input's outcome *)
MultiOutcome ==
    created /\ IsMulti /\ ~ucanc =>
        IF AllDone(fs) THEN out = MultiRef(fs) ELSE out = Pend

(* with_timeout: the source's outcome if it finished before the deadline, TimeoutError otherwise *)
TimeoutOutcome ==
    created /\ IsTime /\ ~ucanc =>
        /\ expired => out = TimedOut
        /\ ~expired => out = IF SourceDone(fs) THEN SourceRef(fs) ELSE Pend
        /\ rem # NoDl => ~SourceDone(fs) /\ ~expired

(* chain_future: the target copies the source's outcome, including cancellation, unless already done *)
ChainOutcome ==
    created /\ IsChain =>
        IF cfg.bpre = "ok" THEN out = Preset
        ELSE IF cfg.bpre = "cancel" \/ ucanc THEN out = Canc
        ELSE out = fs[1]

(* WaitIterator: every input handed out exactly once, in the order of completion, with the
   matching index *)
HandedOut == SelectSeq(nexts, LAMBDA r : r.s \notin {"pending"})
WaitOnce ==
    created /\ IsWait =>
        /\ \A i, j \in 1..Len(seen) : i # j => seen[i] # seen[j]
        /\ Len(seen) = Len(wq) + Yielded
        /\ \A i \in 1..Len(wq) : wq[i] = seen[Yielded + i]
        /\ \A i \in 1..Len(wq) : Done(fs, wq[i])
        /\ Running => wq = <<>>
        /\ ~ucanc => /\ Len(HandedOut) = Yielded
                     /\ \A i \in 1..Yielded : HandedOut[i] = fs[seen[i]]
        /\ (Yielded > 0 /\ ~ucanc) => cur = seen[Yielded]
        /\ WDone => Yielded = Cardinality(Used)
(* inputs that complete after the iterator exists are seen in completion order; inputs that
   were already done when it was created come first, in position order *)
Pos(s, x) == CHOOSE i \in 1..Len(s) : s[i] = x
WaitCompletionOrder ==
    created /\ IsWait =>
        \A a, b \in 1..Len(seen) : a < b =>
            /\ seen[b] \in pre => seen[a] \in pre /\ FirstPos(seen[a]) < FirstPos(seen[b])
            /\ seen[a] \notin pre => Pos(order, seen[a]) < Pos(order, seen[b])

(* settled futures never change *)
Sticky == [][/\ \A f \in Futs : fs[f].s # "pending" => fs'[f] = fs[f]
             /\ out.s # "pending" => out' = out
             /\ \A i \in 1..Len(nexts) : nexts[i].s # "pending" => (Len(nexts') >= i /\ nexts'[i] = nexts[i])]_vars
(* no call of the combinator API raises *)
NoRaise == err = "none"

View == vars
=============================================================================
