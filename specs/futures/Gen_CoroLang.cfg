SPECIFICATION GenSpec
CONSTANTS
  TopOps = {"eff", "await1", "ret"}
  BodyOps = {"eff", "await1", "await2", "list", "dict", "moment", "sub1", "sub2", "sub3", "ret", "raise", "rdctx", "setctx"}
  HOps = {"none", "eff", "await2", "ret", "raise"}
  FOps = {"none", "eff", "await2", "ret", "raise"}
  MaxTop = 2
  MaxBody = 1
  MaxTry = 1
  Nest = FALSE
  Outcomes = {"ok", "exc"}
  L = 6
CONSTRAINT GenBound
CONSTRAINT GenOut
CHECK_DEADLOCK FALSE
