SPECIFICATION Spec
CONSTANTS
  NF = 3
  Combs = {"multi", "multid", "wait", "waitkw", "timeout", "tmulti", "chain"}
  MaxSlots = 3
  Dups = TRUE
  Deadlines = {0, 1, 2}
  MaxAdvance = 2
  Outcomes = {"ok", "exc", "cancel"}
  BPre = {"none", "ok", "cancel"}
VIEW View
INVARIANT TypeOK
INVARIANT NoPendingForever
INVARIANT MultiOutcome
INVARIANT TimeoutOutcome
INVARIANT ChainOutcome
INVARIANT WaitOnce
INVARIANT WaitCompletionOrder
INVARIANT NoRaise
PROPERTY Sticky
CHECK_DEADLOCK FALSE
