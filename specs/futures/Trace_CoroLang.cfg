SPECIFICATION TraceSpec
CONSTANTS
  TopOps = {"eff"}
  BodyOps = {"eff"}
  HOps = {"none"}
  FOps = {"eff"}
  MaxTop = 1
  MaxBody = 1
  MaxTry = 0
  Nest = FALSE
  Outcomes = {"ok"}
CONSTRAINT Report
INVARIANT TypeOK
INVARIANT Quiescent
INVARIANT DoneIffOut
INVARIANT DoneClean
INVARIANT NeverStuck
INVARIANT OrderIndependent
INVARIANT CallerContextVisible
PROPERTY LogGrows
PROPERTY DoneFrozen
CHECK_DEADLOCK FALSE
