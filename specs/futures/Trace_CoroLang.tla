---------------------------- MODULE Trace_CoroLang ----------------------------
(* Validates runs recorded from the real code against CoroLang.tla.  One ndjson line per run:
   {"id":n, "cfg":{"prog":[..statements..], "subs":[..]}, "ev":[{"a":"start"|"complete",
   "args":[..], "obs":{"dec":{log,out}, "nat":{log,out}}}]}.
   The program was executed in both forms (@gen.coroutine generator, async def task); after
   every event the log and outcome of EACH form must equal the specification's. *)
EXTENDS CoroLang, Json, IOUtils, TLCExt
Traces == ndJsonDeserialize(IOEnv.TRACE_FILE)
Verbose == IOEnv.TRACE_VERBOSE = "1"
VARIABLES tid, l
Ev == Traces[tid].ev
TraceInit ==
    /\ tid \in 1..Len(Traces)
    /\ l = 1
    /\ Traces[tid].cfg.subs = Subs
    /\ InitWith(Traces[tid].cfg.prog)
IsEvent(a) == l <= Len(Ev) /\ Ev[l].a = a /\ l' = l + 1 /\ UNCHANGED tid
Bind == Proj' = Ev[l].obs.dec /\ Proj' = Ev[l].obs.nat
TrStart    == IsEvent("start") /\ Start /\ Bind
TrComplete == IsEvent("complete") /\ Complete(Ev[l].args[1], Ev[l].args[2]) /\ Bind
TraceNext == TrStart \/ TrComplete
TraceSpec == TraceInit /\ [][TraceNext]_<<vars, step, tid, l>>
Report == IF Verbose THEN PrintT(<<"AT", Traces[tid].id, l>>)
          ELSE (l = Len(Ev) + 1 => PrintT(<<"ACCEPT", Traces[tid].id>>))
=============================================================================
