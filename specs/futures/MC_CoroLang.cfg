SPECIFICATION Spec
CONSTANTS
  TopOps = {"eff", "await1", "list", "moment", "sub2", "ret", "raise", "rdctx", "setctx"}
  BodyOps = {"eff", "await1", "await2", "list", "dict", "moment", "sub1", "sub2", "sub3", "ret", "raise", "rdctx", "setctx"}
  HOps = {"none", "eff", "await2", "ret", "raise"}
  FOps = {"none", "eff", "await2", "ret", "raise"}
  MaxTop = 2
  MaxBody = 1
  MaxTry = 1
  Nest = FALSE
  Outcomes = {"ok", "exc", "cancel"}
VIEW View
INVARIANT TypeOK
INVARIANT Quiescent
INVARIANT DoneIffOut
INVARIANT DoneClean
INVARIANT NeverStuck
INVARIANT OrderIndependent
INVARIANT CallerContextVisible
PROPERTY LogGrows
PROPERTY DoneFrozen
CHECK_DEADLOCK FALSE
