SPECIFICATION TraceSpec
CONSTANTS
  NF = 8
  Combs = {"multi"}
  MaxSlots = 0
  Dups = TRUE
  Deadlines = {0}
  MaxAdvance = 1
  Outcomes = {"ok"}
  BPre = {"none"}
CONSTRAINT Report
INVARIANT TypeOK
INVARIANT NoPendingForever
INVARIANT MultiOutcome
INVARIANT TimeoutOutcome
INVARIANT ChainOutcome
INVARIANT WaitOnce
INVARIANT WaitCompletionOrder
INVARIANT NoRaise
PROPERTY Sticky
CHECK_DEADLOCK FALSE
