---------------------------- MODULE Gen_Combinators ----------------------------
(* Path enumeration: with the history in the state every path is a distinct state, so TLC's
   BFS enumerates every operation sequence up to length L; -dump writes them out.  Every
   behaviour of Combinators is finite (each action consumes an input, the single Create, the
   single CancelOut, time on the timer, or a queued / pending next()), L is a safety net. *)
EXTENDS Combinators, Json
CONSTANT L
VARIABLE hist
GenInit == InitState /\ hist = <<>>
GenNext == Next /\ hist' = Append(hist, step')
GenSpec == GenInit /\ [][GenNext]_<<vars, step, hist>>
GenBound == Len(hist) <= L
(* every complete behaviour (no action enabled, or cut by L) is printed once as JSON: with hist in
   the state each path is one distinct state, and a state constraint is evaluated once per state *)
GenOut == (Len(hist) > 0 /\ (Len(hist) = L \/ ~ENABLED Next)) =>
              PrintT(ToJson(<<"VPATH", cfg, hist>>))
=============================================================================
