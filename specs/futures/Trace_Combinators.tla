---------------------------- MODULE Trace_Combinators ----------------------------
(* Validates traces recorded from the real tornado.gen / tornado.concurrent combinators against
   Combinators.tla.  One ndjson line per trace:
   {"id":n, "cfg":{"comb":..,"slots":[..],"dl":..,"bpre":..}, "ev":[{"a":..,"args":[..],"obs":{..}}]}.
   Every event must be explained by the spec action of the same name with the logged arguments,
   and the projection of the spec state after the action must equal the logged observation.
   All invariants of Combinators are evaluated at every step. *)
EXTENDS Combinators, Json, IOUtils, TLCExt
Traces == ndJsonDeserialize(IOEnv.TRACE_FILE)
Verbose == IOEnv.TRACE_VERBOSE = "1"
VARIABLES tid, l
Ev == Traces[tid].ev
TraceInit ==
    /\ tid \in 1..Len(Traces)
    /\ l = 1
    /\ InitWith([comb |-> Traces[tid].cfg.comb, slots |-> Traces[tid].cfg.slots,
                 dl |-> Traces[tid].cfg.dl, bpre |-> Traces[tid].cfg.bpre])
IsEvent(a) == l <= Len(Ev) /\ Ev[l].a = a /\ l' = l + 1 /\ UNCHANGED tid
Bind == Proj' = Ev[l].obs
TrResolve == IsEvent("resolve") /\ Resolve(Ev[l].args[1], Ev[l].args[2]) /\ Bind
TrCreate  == IsEvent("create") /\ Create /\ Bind
TrNext    == IsEvent("next") /\ NextCall /\ Bind
TrAdvance == IsEvent("advance") /\ Advance(Ev[l].args[1]) /\ Bind
TrCancel  == IsEvent("cancelout") /\ CancelOut /\ Bind
TraceNext == TrResolve \/ TrCreate \/ TrNext \/ TrAdvance \/ TrCancel
TraceSpec == TraceInit /\ [][TraceNext]_<<vars, step, tid, l>>
Report == IF Verbose THEN PrintT(<<"AT", Traces[tid].id, l>>)
          ELSE (l = Len(Ev) + 1 => PrintT(<<"ACCEPT", Traces[tid].id>>))
=============================================================================
