SPECIFICATION TraceSpec
CONSTANTS
  NCs = {1}
  MaxC = 8
  Statuses = {0}
  Kinds = {"cb", "wr", "wn"}
CONSTRAINT Report
INVARIANT TypeOK
INVARIANT CallbackOnce
INVARIANT FutureOutcome
INVARIANT ReturnCodeRight
INVARIANT OnlyRegisteredReaped
INVARIANT ReportedAtQuiescence
PROPERTY ExitBeforeRegister
PROPERTY Sticky
CHECK_DEADLOCK FALSE
