SPECIFICATION TraceSpec
CONSTANTS
  Ns = {1}
  Budgets = {0}
  Cpus = {1}
  Statuses = {0}
  MaxN = 6
  MaxPid = 60
CONSTRAINT Report
INVARIANT TypeOK
INVARIANT OneWorkerPerId
INVARIANT StartsExact
INVARIANT AllStartedBeforeWaiting
INVARIANT BudgetRule
INVARIANT SuccessOnlyAfterAllNormal
INVARIANT ChildSeesOwnId
PROPERTY NormalNeverRestarted
PROPERTY RestartSameId
PROPERTY Terminal
CHECK_DEADLOCK FALSE
