---------------------------- MODULE ForkSupervisor ----------------------------
(***************************************************************************)
(* Reference model of tornado.process.fork_processes (property C41).       *)
(*                                                                         *)
(* The supervisor is a sequential program that blocks in os.fork() and     *)
(* os.wait().  One action = the environment's answer to the call the       *)
(* supervisor is blocked in (fork returns a pid in the parent / 0 in the   *)
(* child; wait returns (pid, status)), followed by the supervisor running  *)
(* up to its next call or to its end.  `pc` is what the supervisor does    *)
(* next: "fork" | "wait" | "ret" (fork_processes returned - we are in a    *)
(* worker) | "exit" (sys.exit) | "raise" (it failed with an exception).    *)
(*                                                                         *)
(* Pids are opaque: the environment may hand out any pid that is not       *)
(* currently a live worker, including the pid of a worker that was already *)
(* reaped (pid reuse), and wait() may report pids that are not workers.    *)
(* Next explores one fresh pid and every reaped pid (fresh pids are        *)
(* interchangeable); the actions themselves accept any free pid, so that   *)
(* recorded traces with arbitrary pids validate.                           *)
(***************************************************************************)
EXTENDS Integers, Sequences, FiniteSets, TLC, WaitStatus

CONSTANTS Ns,        \* values of num_processes explored (NoN = None; <= 0 = autodetect)
          Budgets,   \* values of max_restarts explored (NoBudget = None = default 100)
          Cpus,      \* cpu counts reported to autodetection
          Statuses,  \* abstract exit statuses explored (see WaitStatus)
          MaxN,      \* task ids live in 0..MaxN-1
          MaxPid     \* pids live in 1..MaxPid

NoN      == 99
NoBudget == 999
NoId     == 99
NoTid    == 0 - 1
Pids == 1..MaxPid
Ids  == 0..(MaxN - 1)

ASSUME StatusesOK == \A st \in Statuses : ValidStatus(st) /\ RoundTrip(st)

VARIABLES cfg,       \* [n, budget, cpus] - arguments / environment, fixed in Init
          pc,        \* what the supervisor is blocked in / how it ended
          forkId,    \* task id the pending fork is for (NoId if pc # "fork")
          owner,     \* owner[p] = task id of the live worker with pid p, NoId if none
          slot,      \* slot[i] \in {"unstarted","running","done","failed"}
          starts,    \* starts[i] = number of times a worker with id i was started (history)
          abn,       \* abn[i] = number of abnormal exits of workers with id i (history)
          restarts,  \* number of abnormal exits seen
          reaped,    \* pids of reaped workers not handed out again
          fresh,     \* smallest pid never handed out
          val,       \* return value (pc = "ret") / exit code (pc = "exit")
          err,       \* "none" | "fail" (pc = "raise")
          selfid,    \* what task_id() returns in this process (NoTid = None)
          step

vars == <<cfg, pc, forkId, owner, slot, starts, abn, restarts, reaped, fresh, val, err, selfid>>

N == IF cfg.n = NoN \/ cfg.n <= 0 THEN cfg.cpus ELSE cfg.n
B == IF cfg.budget = NoBudget THEN 100 ELSE cfg.budget
Live == 0..(N - 1)

Proj == [pc |-> pc, val |-> val, err |-> err, tid |-> selfid]
Obs(a, args) == [act |-> a, args |-> args, exp |-> Proj']

InitWith(c) ==
    /\ cfg = c
    /\ pc = "fork"
    /\ forkId = 0
    /\ owner = [p \in Pids |-> NoId]
    /\ slot = [i \in Ids |-> "unstarted"]
    /\ starts = [i \in Ids |-> 0]
    /\ abn = [i \in Ids |-> 0]
    /\ restarts = 0
    /\ reaped = {}
    /\ fresh = 1
    /\ val = 0
    /\ err = "none"
    /\ selfid = NoTid
    /\ step = [act |-> "init", args |-> <<>>, exp |-> [pc |-> pc, val |-> val, err |-> err, tid |-> selfid]]

InitState == \E c \in [n : Ns, budget : Budgets, cpus : Cpus] :
                 /\ (c.n # NoN /\ c.n > 0) => c.cpus = 1        \* cpus only matters for autodetection
                 /\ InitWith(c)

Unstarted(s) == {i \in Live : s[i] = "unstarted"}
Min(S) == CHOOSE x \in S : \A y \in S : x <= y

(* os.fork() returns p > 0: we stay in the supervisor, a worker with pid p now runs *)
ForkParent(p) ==
    /\ pc = "fork"
    /\ p \in Pids /\ owner[p] = NoId
    /\ owner' = [owner EXCEPT ![p] = forkId]
    /\ slot' = [slot EXCEPT ![forkId] = "running"]
    /\ starts' = [starts EXCEPT ![forkId] = @ + 1]
    /\ reaped' = reaped \ {p}
    /\ fresh' = IF p >= fresh THEN p + 1 ELSE fresh
    /\ IF Unstarted(slot') # {}
         THEN pc' = "fork" /\ forkId' = Min(Unstarted(slot'))     \* initial start-up, ids in order
         ELSE pc' = "wait" /\ forkId' = NoId
    /\ UNCHANGED <<cfg, abn, restarts, val, err, selfid>>
    /\ step' = Obs("fork_parent", <<p>>)

(* os.fork() returns 0: this process is the new worker; fork_processes returns its id *)
ForkChild ==
    /\ pc = "fork"
    /\ pc' = "ret"
    /\ val' = forkId
    /\ selfid' = forkId
    /\ slot' = [slot EXCEPT ![forkId] = "running"]
    /\ starts' = [starts EXCEPT ![forkId] = @ + 1]
    /\ forkId' = NoId
    /\ UNCHANGED <<cfg, owner, abn, restarts, reaped, fresh, err>>
    /\ step' = Obs("fork_child", <<>>)

(* os.wait() reports the exit of a live worker *)
Wait(p, st) ==
    /\ pc = "wait"
    /\ p \in Pids /\ owner[p] # NoId
    /\ LET i == owner[p] IN
       /\ owner' = [owner EXCEPT ![p] = NoId]
       /\ reaped' = reaped \cup {p}
       /\ IF Normal(st)
            THEN /\ slot' = [slot EXCEPT ![i] = "done"]
                 /\ UNCHANGED <<abn, restarts, err, forkId>>
                 /\ IF \A q \in Pids : owner'[q] = NoId
                      THEN pc' = "exit" /\ val' = 0
                      ELSE pc' = "wait" /\ val' = val
            ELSE /\ slot' = [slot EXCEPT ![i] = "failed"]
                 /\ abn' = [abn EXCEPT ![i] = @ + 1]
                 /\ restarts' = restarts + 1
                 /\ val' = val
                 /\ IF restarts' > B
                      THEN pc' = "raise" /\ err' = "fail" /\ forkId' = NoId
                      ELSE pc' = "fork" /\ err' = err /\ forkId' = i
    /\ UNCHANGED <<cfg, starts, fresh, selfid>>
    /\ step' = Obs("wait", <<p, st, Encode(st)>>)

(* os.wait() reports a pid that is not one of our live workers: ignored *)
WaitUnknown(p, st) ==
    /\ pc = "wait"
    /\ p \in Pids /\ owner[p] = NoId
    /\ UNCHANGED vars
    /\ step' = Obs("wait", <<p, st, Encode(st)>>)

FreePidChoices == {p \in Pids : owner[p] = NoId /\ (p = fresh \/ p \in reaped)}

(* Next offers one fresh pid and every reaped pid (named wrappers so that TLC reports coverage) *)
ForkParentSym(p) == p \in FreePidChoices /\ ForkParent(p)
WaitUnknownSym(p, st) == p \in FreePidChoices /\ WaitUnknown(p, st)

Next ==
    \/ \E p \in Pids : ForkParentSym(p)
    \/ ForkChild
    \/ \E p \in Pids, st \in Statuses : Wait(p, st)
    \/ \E p \in Pids, st \in Statuses : WaitUnknownSym(p, st)

Spec == InitState /\ [][Next]_<<vars, step>>

----------------------------------------------------------------------------
(* Properties (C41) *)

RECURSIVE SumTo(_, _)
SumTo(f, k) == IF k < 0 THEN 0 ELSE f[k] + SumTo(f, k - 1)

TypeOK ==
    /\ pc \in {"fork", "wait", "ret", "exit", "raise"}
    /\ owner \in [Pids -> Ids \cup {NoId}]
    /\ slot \in [Ids -> {"unstarted", "running", "done", "failed"}]
    /\ (pc = "fork") = (forkId # NoId)
    /\ forkId # NoId => forkId \in Live
    /\ \A i \in Ids \ Live : slot[i] = "unstarted" /\ starts[i] = 0

(* at most one live worker per task id, and the supervisor's table agrees with the slots *)
OneWorkerPerId ==
    /\ \A p, q \in Pids : (owner[p] # NoId /\ owner[p] = owner[q]) => p = q
    /\ \A p \in Pids : owner[p] # NoId => owner[p] \in Live /\ slot[owner[p]] = "running"
    /\ pc # "ret" => \A i \in Live : slot[i] = "running" => \E p \in Pids : owner[p] = i

(* every id is started once, plus once per abnormal exit that was followed by a restart:
   an id whose last worker failed is either about to be restarted (pending fork for it)
   or was the one that exhausted the budget *)
StartsExact ==
    \A i \in Live :
        /\ starts[i] = (IF slot[i] = "unstarted" THEN 0 ELSE 1) + abn[i] - (IF slot[i] = "failed" THEN 1 ELSE 0)
        /\ slot[i] = "failed" => ((pc = "fork" /\ forkId = i) \/ pc = "raise")

(* initial start-up goes through 0..N-1; the supervisor does not wait before all are started *)
AllStartedBeforeWaiting == pc \in {"wait", "exit", "raise"} => Unstarted(slot) = {}

BudgetRule ==
    /\ restarts = SumTo(abn, MaxN - 1)
    /\ (pc = "raise") = (restarts > 0 /\ restarts > B)      \* a budget below 0 fails at the first abnormal exit
    /\ pc = "raise" => err = "fail"
    /\ B >= 0 => restarts <= B + 1

(* sys.exit(0) only after every worker exited normally; and then it does exit *)
SuccessOnlyAfterAllNormal ==
    /\ pc = "exit" => (val = 0 /\ \A i \in Live : slot[i] = "done")
    /\ ((\A i \in Live : slot[i] = "done") /\ pc # "ret") => pc = "exit"

(* the worker sees its own id, the supervisor has none *)
ChildSeesOwnId ==
    /\ pc = "ret" => (val \in Live /\ selfid = val /\ slot[val] = "running" /\ \A p \in Pids : owner[p] # val)
    /\ pc # "ret" => selfid = NoTid

(* a worker that exited normally is never restarted *)
NormalNeverRestarted == [][\A i \in Ids : slot[i] = "done" => slot'[i] = "done" /\ starts'[i] = starts[i]]_vars
(* a restart is for the id of the worker whose abnormal exit was just reported *)
RestartSameId == [][(pc = "wait" /\ pc' = "fork") =>
                      \E p \in Pids : owner[p] = forkId' /\ owner'[p] = NoId /\ abn'[forkId'] = abn[forkId'] + 1]_vars
(* reports about pids that are not live workers change nothing *)
Terminal == [][(pc \in {"ret", "exit", "raise"}) => (UNCHANGED vars)]_vars

StateBound == TRUE
View == vars
=============================================================================
