---------------------------- MODULE Trace_ForkSupervisor ----------------------------
(* Validates runs recorded from the real tornado.process.fork_processes (fork / wait answered
   by a seeded random environment) against ForkSupervisor.tla.
   One ndjson line per run: {"id":n, "cfg":{"n":..,"budget":..,"cpus":..}, "ev":[{"a":..,"args":[..],"obs":{..}}]}.
   ev[1] is {"a":"init"} carrying the observation of the supervisor's first blocking call.
   Every event must be explained by the spec action of the same name with the logged
   arguments, and the projection of the spec state after the action must equal the logged
   observation; the raw wait status the environment handed to the code must be the encoding
   of the abstract status.  All invariants of ForkSupervisor are evaluated at every step. *)
EXTENDS ForkSupervisor, Json, IOUtils, TLCExt
Traces == ndJsonDeserialize(IOEnv.TRACE_FILE)
Verbose == IOEnv.TRACE_VERBOSE = "1"
VARIABLES tid, l
Ev == Traces[tid].ev
TraceInit ==
    /\ tid \in 1..Len(Traces)
    /\ l = 1
    /\ InitWith([n |-> Traces[tid].cfg.n, budget |-> Traces[tid].cfg.budget, cpus |-> Traces[tid].cfg.cpus])
IsEvent(a) == l <= Len(Ev) /\ Ev[l].a = a /\ l' = l + 1 /\ UNCHANGED tid
Bind == Proj' = Ev[l].obs
TrInit       == IsEvent("init") /\ l = 1 /\ UNCHANGED <<vars, step>> /\ Proj = Ev[l].obs
TrForkParent == IsEvent("fork_parent") /\ ForkParent(Ev[l].args[1]) /\ Bind
TrForkChild  == IsEvent("fork_child") /\ ForkChild /\ Bind
TrWait       == /\ IsEvent("wait")
                /\ ValidStatus(Ev[l].args[2]) /\ RoundTrip(Ev[l].args[2])
                /\ Ev[l].args[3] = Encode(Ev[l].args[2])
                /\ (Wait(Ev[l].args[1], Ev[l].args[2]) \/ WaitUnknown(Ev[l].args[1], Ev[l].args[2]))
                /\ Bind
TraceNext == TrInit \/ TrForkParent \/ TrForkChild \/ TrWait
TraceSpec == TraceInit /\ [][TraceNext]_<<vars, step, tid, l>>
Report == IF Verbose THEN PrintT(<<"AT", Traces[tid].id, l>>)
          ELSE (l = Len(Ev) + 1 => PrintT(<<"ACCEPT", Traces[tid].id>>))
=============================================================================
