---------------------------- MODULE SubprocessExit ----------------------------
(***************************************************************************)
(* Reference model of exit reporting by tornado.process.Subprocess         *)
(* (property C42): set_exit_callback / wait_for_exit, the SIGCHLD handler, *)
(* status decoding.                                                        *)
(*                                                                         *)
(* Children 1..cfg.nc are Subprocess objects created at the start.  The    *)
(* kernel side of a child is `life`: running -> zombie (it exited with     *)
(* status xst, nobody has waited for it yet) -> reaped.  One action = one  *)
(* public call / one kernel event / one delivery of SIGCHLD to the handler,*)
(* followed by running the event loop to quiescence.                       *)
(*                                                                         *)
(* SIGCHLD is not queued: several exits may be announced by one delivery   *)
(* (`sigpending` is a flag, not a counter), deliveries may be spurious,    *)
(* and an exit that happens while no handler is installed is announced by  *)
(* nobody - which is why registration must poll once by itself.            *)
(***************************************************************************)
EXTENDS Integers, Sequences, FiniteSets, TLC, WaitStatus

CONSTANTS NCs,       \* numbers of children explored
          MaxC,      \* functions are over 1..MaxC
          Statuses,  \* abstract exit statuses explored (see WaitStatus)
          Kinds      \* registration kinds: "cb" set_exit_callback, "wr" wait_for_exit(), "wn" wait_for_exit(raise_error=False)

NoSt == 9999
NoRc == 999
Slots == 1..MaxC

ASSUME StatusesOK == \A st \in Statuses : ValidStatus(st) /\ RoundTrip(st)

VARIABLES cfg,         \* [nc]
          life,        \* life[c] \in {"running", "zombie", "reaped"}
          xst,         \* exit status of c (NoSt while running)
          reg,         \* "none" or the kind of the registration made for c
          waiting,     \* c is registered and its exit has not been collected yet
          cbs,         \* cbs[c] = values the user's exit callback was called with, in order
          fut,         \* fut[c] = [s, v]: state of the wait_for_exit future
          rc,          \* Subprocess.returncode (NoRc = None)
          initialized, \* a SIGCHLD handler is installed
          sigpending,  \* an exit happened (with the handler installed) and no delivery ran since
          lostsig,     \* an exit of a registered child went unannounced (handler was not installed)
          err,         \* exception class of the last call ("none")
          unc,         \* exceptions that escaped into the event loop (never, in the model)
          step

vars == <<cfg, life, xst, reg, waiting, cbs, fut, rc, initialized, sigpending, lostsig, err, unc>>

Children == 1..cfg.nc

Proj == [cbs |-> cbs, fut |-> fut, rc |-> rc, err |-> err, unc |-> unc]
Obs(a, args) == [act |-> a, args |-> args, exp |-> Proj']

NoFut == [s |-> "none", v |-> 0]
Pending == [s |-> "pending", v |-> 0]

InitWith(c) ==
    /\ cfg = c
    /\ life = [x \in Slots |-> "running"]
    /\ xst = [x \in Slots |-> NoSt]
    /\ reg = [x \in Slots |-> "none"]
    /\ waiting = [x \in Slots |-> FALSE]
    /\ cbs = [x \in Slots |-> <<>>]
    /\ fut = [x \in Slots |-> NoFut]
    /\ rc = [x \in Slots |-> NoRc]
    /\ initialized = FALSE
    /\ sigpending = FALSE
    /\ lostsig = FALSE
    /\ err = "none"
    /\ unc = 0
    /\ step = [act |-> "init", args |-> <<>>,
               exp |-> [cbs |-> cbs, fut |-> fut, rc |-> rc, err |-> err, unc |-> unc]]

InitState == \E n \in NCs : InitWith([nc |-> n])

(* --- what reporting the exit of child c (status st, registration kind k) does --- *)
FutAfter(k, f, st) ==
    IF f.s # "pending" THEN f                             \* no future, or the caller cancelled it
    ELSE IF k = "wr" /\ ReturnCode(st) # 0 THEN [s |-> "CalledProcessError", v |-> ReturnCode(st)]
    ELSE [s |-> "ok", v |-> ReturnCode(st)]
CbsAfter(k, s, st) == IF k = "cb" THEN Append(s, ReturnCode(st)) ELSE s

(* collect every child in R (registered, zombie) and report it *)
Collect(R, reg2, fut2) ==
    /\ life' = [x \in Slots |-> IF x \in R THEN "reaped" ELSE life[x]]
    /\ waiting' = [x \in Slots |-> IF x \in R THEN FALSE ELSE (waiting[x] \/ (reg2[x] # reg[x] /\ life[x] = "running"))]
    /\ cbs' = [x \in Slots |-> IF x \in R THEN CbsAfter(reg2[x], cbs[x], xst[x]) ELSE cbs[x]]
    /\ fut' = [x \in Slots |-> IF x \in R THEN FutAfter(reg2[x], fut2[x], xst[x]) ELSE fut2[x]]
    /\ rc' = [x \in Slots |-> IF x \in R THEN ReturnCode(xst[x]) ELSE rc[x]]

(* the child terminates (kernel event; no Tornado code runs) *)
Exit(c, st) ==
    /\ c \in Children /\ life[c] = "running"
    /\ life' = [life EXCEPT ![c] = "zombie"]
    /\ xst' = [xst EXCEPT ![c] = st]
    /\ sigpending' = (sigpending \/ initialized)
    /\ lostsig' = (lostsig \/ (~initialized /\ waiting[c]))
    /\ err' = "none"
    /\ UNCHANGED <<cfg, reg, waiting, cbs, fut, rc, initialized, unc>>
    /\ step' = Obs("exit", <<c, st, Encode(st)>>)

(* set_exit_callback(cb) / wait_for_exit(raise_error): installs the handler if needed and
   polls this child once, so an exit that happened before registration is reported now *)
Register(c, k) ==
    /\ c \in Children /\ reg[c] = "none" /\ k \in Kinds
    /\ LET reg2 == [reg EXCEPT ![c] = k]
           fut2 == [fut EXCEPT ![c] = IF k = "cb" THEN NoFut ELSE Pending] IN
       /\ reg' = reg2
       /\ Collect(IF life[c] = "zombie" THEN {c} ELSE {}, reg2, fut2)
    /\ initialized' = TRUE
    /\ err' = "none"
    /\ UNCHANGED <<cfg, xst, sigpending, lostsig, unc>>
    /\ step' = Obs("register", <<c, k>>)

(* SIGCHLD reaches the installed handler: every registered child is polled *)
Sigchld ==
    /\ initialized
    /\ Collect({c \in Children : waiting[c] /\ life[c] = "zombie"}, reg, fut)
    /\ sigpending' = FALSE
    /\ lostsig' = FALSE
    /\ err' = "none"
    /\ UNCHANGED <<cfg, xst, reg, initialized, unc>>
    /\ step' = Obs("sigchld", <<>>)

(* the caller cancels the future wait_for_exit gave it *)
CancelWait(c) ==
    /\ c \in Children /\ fut[c].s = "pending"
    /\ fut' = [fut EXCEPT ![c] = [s |-> "cancelled", v |-> 0]]
    /\ err' = "none"
    /\ UNCHANGED <<cfg, life, xst, reg, waiting, cbs, rc, initialized, sigpending, lostsig, unc>>
    /\ step' = Obs("cancel", <<c>>)

(* explicit Subprocess.initialize() / Subprocess.uninitialize() *)
Initialize ==
    /\ ~initialized
    /\ initialized' = TRUE
    /\ err' = "none"
    /\ UNCHANGED <<cfg, life, xst, reg, waiting, cbs, fut, rc, sigpending, lostsig, unc>>
    /\ step' = Obs("initialize", <<>>)

Uninitialize ==
    /\ initialized
    /\ initialized' = FALSE
    /\ sigpending' = FALSE            \* a delivery that has not run yet finds no handler
    /\ lostsig' = (lostsig \/ (sigpending /\ \E c \in Children : waiting[c] /\ life[c] = "zombie"))
    /\ err' = "none"
    /\ UNCHANGED <<cfg, life, xst, reg, waiting, cbs, fut, rc, unc>>
    /\ step' = Obs("uninitialize", <<>>)

Next ==
    \/ \E c \in Slots, st \in Statuses : Exit(c, st)
    \/ \E c \in Slots, k \in Kinds : Register(c, k)
    \/ Sigchld
    \/ \E c \in Slots : CancelWait(c)
    \/ Initialize
    \/ Uninitialize

Spec == InitState /\ [][Next]_<<vars, step>>
(* every exit that raised SIGCHLD is eventually followed by a delivery *)
LiveSpec == Spec /\ WF_<<vars, step>>(sigpending /\ Sigchld)

----------------------------------------------------------------------------
(* Properties (C42) *)

Reported(c) == IF reg[c] = "cb" THEN Len(cbs[c]) > 0 ELSE fut[c].s \notin {"none", "pending"}

TypeOK ==
    /\ life \in [Slots -> {"running", "zombie", "reaped"}]
    /\ reg \in [Slots -> {"none"} \cup Kinds]
    /\ \A c \in Slots : (life[c] = "running") = (xst[c] = NoSt)
    /\ \A c \in Slots : waiting[c] => (reg[c] # "none" /\ life[c] # "reaped")
    /\ \A c \in Slots \ Children : life[c] = "running" /\ reg[c] = "none"
    /\ unc = 0 /\ err = "none"

(* the exit callback runs at most once, only after the exit, with the right value *)
CallbackOnce ==
    \A c \in Slots :
        /\ Len(cbs[c]) <= 1
        /\ Len(cbs[c]) = 1 => (reg[c] = "cb" /\ life[c] = "reaped" /\ cbs[c][1] = ReturnCode(xst[c]))

(* wait_for_exit: result = status (negative signal number); CalledProcessError exactly for
   non-zero statuses under raise_error *)
FutureOutcome ==
    \A c \in Slots :
        /\ fut[c].s = "none" <=> reg[c] \in {"none", "cb"}
        /\ fut[c].s = "ok" => (life[c] = "reaped" /\ fut[c].v = ReturnCode(xst[c]) /\ (reg[c] = "wr" => fut[c].v = 0))
        /\ fut[c].s = "CalledProcessError" => (life[c] = "reaped" /\ reg[c] = "wr" /\ fut[c].v = ReturnCode(xst[c]) /\ fut[c].v # 0)
        /\ fut[c].s \in {"none", "pending", "ok", "CalledProcessError", "cancelled"}

ReturnCodeRight == \A c \in Slots : IF life[c] = "reaped" THEN rc[c] = ReturnCode(xst[c]) ELSE rc[c] = NoRc

(* Tornado collects only children somebody registered for *)
OnlyRegisteredReaped == \A c \in Slots : life[c] = "reaped" => reg[c] # "none"

(* "exactly once", the at-least part: once no announcement is outstanding, every registered
   child that has exited has been reported - whatever the order of exit and registration *)
Owed == {c \in Children : reg[c] # "none" /\ life[c] # "running" /\ ~Reported(c)}
ReportedAtQuiescence == (~sigpending /\ ~lostsig) => Owed = {}
(* ... and an exit that precedes registration is reported by the registration itself *)
ExitBeforeRegister == [][\A c \in Slots : (reg[c] = "none" /\ reg'[c] # "none" /\ life[c] = "zombie") => Reported(c)']_vars

(* a report never changes afterwards *)
Sticky == [][\A c \in Slots : (fut[c].s \in {"ok", "CalledProcessError", "cancelled"} => fut'[c] = fut[c])
                              /\ (Len(cbs[c]) > 0 => cbs'[c] = cbs[c])
                              /\ (rc[c] # NoRc => rc'[c] = rc[c])]_vars

(* liveness under LiveSpec: a registered child's exit is eventually reported, unless its
   announcement was lost while the handler was uninstalled *)
EventuallyReported == \A c \in Slots : (reg[c] # "none" /\ life[c] # "running") ~> (Reported(c) \/ lostsig)

View == vars
=============================================================================
