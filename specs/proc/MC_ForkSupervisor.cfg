SPECIFICATION Spec
CONSTANTS
  Ns = {0, 1, 2, 3, 99}
  Budgets = {0, 1, 2, 3}
  Cpus = {1, 2, 3}
  Statuses = {0, 1, 255, 1009, 2011}
  MaxN = 3
  MaxPid = 5
VIEW View
INVARIANT TypeOK
INVARIANT OneWorkerPerId
INVARIANT StartsExact
INVARIANT AllStartedBeforeWaiting
INVARIANT BudgetRule
INVARIANT SuccessOnlyAfterAllNormal
INVARIANT ChildSeesOwnId
PROPERTY NormalNeverRestarted
PROPERTY RestartSameId
PROPERTY Terminal
CHECK_DEADLOCK FALSE
