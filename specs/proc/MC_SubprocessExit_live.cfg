SPECIFICATION LiveSpec
CONSTANTS
  NCs = {2}
  MaxC = 2
  Statuses = {0, 1, 1009}
  Kinds = {"cb", "wr", "wn"}
PROPERTY EventuallyReported
CHECK_DEADLOCK FALSE
