---------------------------- MODULE Gen_ForkSupervisor ----------------------------
(* Path enumeration: with the history in the state every path is a distinct state, so
   TLC's BFS enumerates every fork/wait history up to length L; -dump writes them out. *)
EXTENDS ForkSupervisor
CONSTANT L
VARIABLE hist
GenInit == InitState /\ hist = <<step>>        \* hist[1] is the init record (expected first call)
GenNext == Next /\ hist' = Append(hist, step')
GenSpec == GenInit /\ [][GenNext]_<<vars, step, hist>>
GenBound == Len(hist) <= L + 1
=============================================================================
