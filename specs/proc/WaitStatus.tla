---------------------------- MODULE WaitStatus ----------------------------
(***************************************************************************)
(* Exit statuses of child processes (shared by ForkSupervisor / C41 and    *)
(* SubprocessExit / C42).                                                  *)
(*                                                                         *)
(* Abstract status `st` (an integer so that it can live in cfg files and   *)
(* JSON traces):                                                           *)
(*     0..255          the child called exit(st)                            *)
(*     1000 + s        the child was killed by signal s (1 <= s <= 126)     *)
(*     2000 + s        killed by signal s and dumped core                   *)
(* `Encode(st)` is the 16-bit wait status POSIX systems hand to wait() /   *)
(* waitpid() for that event; the W* operators are the POSIX decoding       *)
(* macros written as arithmetic.  The harness feeds Encode(st) (taken from *)
(* the TLC-generated behaviour, never recomputed in python) to the real    *)
(* code, whose os.W* calls are the real ones; the thorough tier of C42     *)
(* validates Encode against statuses produced by real children.            *)
(***************************************************************************)
EXTENDS Integers

IsExit(st)   == st >= 0 /\ st <= 255
IsSignal(st) == st >= 1000
SigOf(st)    == st % 1000
HasCore(st)  == st >= 2000
ValidStatus(st) == IsExit(st) \/ (st >= 1001 /\ st <= 1126) \/ (st >= 2001 /\ st <= 2126)

Normal(st)   == st = 0                 \* "exited normally" in the sense of fork_processes
Abnormal(st) == st # 0                 \* non-zero exit status or any signal

(* what subprocess.Popen.returncode / Subprocess.returncode report *)
ReturnCode(st) == IF IsExit(st) THEN st ELSE 0 - SigOf(st)

Encode(st) == IF IsExit(st) THEN st * 256
              ELSE IF HasCore(st) THEN SigOf(st) + 128 ELSE SigOf(st)

WIFEXITED(raw)   == raw % 128 = 0
WEXITSTATUS(raw) == (raw \div 256) % 256
WIFSIGNALED(raw) == (raw % 128) # 0 /\ (raw % 128) # 127
WTERMSIG(raw)    == raw % 128
WCOREDUMP(raw)   == (raw \div 128) % 2 = 1

(* decoding the encoding gives back the abstract status (checked by TLC for every status
   used in a model: ASSUME in the MC modules, invariant in the trace specs) *)
RoundTrip(st) ==
    LET raw == Encode(st) IN
    /\ WIFEXITED(raw) = IsExit(st)
    /\ WIFSIGNALED(raw) = IsSignal(st)
    /\ IsExit(st) => WEXITSTATUS(raw) = st
    /\ IsSignal(st) => (WTERMSIG(raw) = SigOf(st) /\ WCOREDUMP(raw) = HasCore(st))
=============================================================================
