SPECIFICATION GenSpec
CONSTANTS
  NCs = {2}
  MaxC = 2
  Statuses = {0, 3, 1009}
  Kinds = {"cb", "wr", "wn"}
  L = 5
  MaxSpur = 1
  Ext = TRUE
CONSTRAINT GenBound
CHECK_DEADLOCK FALSE
