---------------------------- MODULE Trace_SubprocessExit ----------------------------
(* Validates runs recorded from real tornado.process.Subprocess objects against
   SubprocessExit.tla.  One ndjson line per run:
   {"id":n, "cfg":{"nc":..}, "ev":[{"a":..,"args":[..],"obs":{..}}]}; ev[1] is {"a":"init"}.
   Every event must be explained by the spec action of the same name with the logged
   arguments and the projection after the action must equal the logged observation.
   Events "real" come from real child processes (thorough tier): args = <<abstract status,
   raw status the kernel returned from waitpid, registration kind>>, obs = what the real
   Subprocess reported; they are checked against the same operators the actions use. *)
EXTENDS SubprocessExit, Json, IOUtils, TLCExt
Traces == ndJsonDeserialize(IOEnv.TRACE_FILE)
Verbose == IOEnv.TRACE_VERBOSE = "1"
VARIABLES tid, l
Ev == Traces[tid].ev
TraceInit ==
    /\ tid \in 1..Len(Traces)
    /\ l = 1
    /\ InitWith([nc |-> Traces[tid].cfg.nc])
IsEvent(a) == l <= Len(Ev) /\ Ev[l].a = a /\ l' = l + 1 /\ UNCHANGED tid
Bind == Proj' = Ev[l].obs
TrInit   == IsEvent("init") /\ l = 1 /\ UNCHANGED <<vars, step>> /\ Proj = Ev[l].obs
TrExit   == /\ IsEvent("exit")
            /\ ValidStatus(Ev[l].args[2]) /\ RoundTrip(Ev[l].args[2])
            /\ Ev[l].args[3] = Encode(Ev[l].args[2])
            /\ Exit(Ev[l].args[1], Ev[l].args[2]) /\ Bind
TrRegister == IsEvent("register") /\ Register(Ev[l].args[1], Ev[l].args[2]) /\ Bind
TrSigchld  == IsEvent("sigchld") /\ Sigchld /\ Bind
TrCancel   == IsEvent("cancel") /\ CancelWait(Ev[l].args[1]) /\ Bind
TrInitialize   == IsEvent("initialize") /\ Initialize /\ Bind
TrUninitialize == IsEvent("uninitialize") /\ Uninitialize /\ Bind
(* a real child: the kernel's raw status is the encoding the scripted runs use, and the
   report is what the model's reporting operators give for it *)
TrReal == /\ IsEvent("real")
          /\ LET st == Ev[l].args[1]  raw == Ev[l].args[2]  k == Ev[l].args[3]  o == Ev[l].obs IN
             /\ ValidStatus(st) /\ RoundTrip(st)
             /\ raw = Encode(st)
             /\ o.rc = ReturnCode(st)
             /\ o.cbs = CbsAfter(k, <<>>, st)
             /\ o.fut = FutAfter(k, IF k = "cb" THEN NoFut ELSE Pending, st)
          /\ UNCHANGED <<vars, step>>
TraceNext == TrInit \/ TrExit \/ TrRegister \/ TrSigchld \/ TrCancel \/ TrInitialize \/ TrUninitialize \/ TrReal
TraceSpec == TraceInit /\ [][TraceNext]_<<vars, step, tid, l>>
Report == IF Verbose THEN PrintT(<<"AT", Traces[tid].id, l>>)
          ELSE (l = Len(Ev) + 1 => PrintT(<<"ACCEPT", Traces[tid].id>>))
=============================================================================
