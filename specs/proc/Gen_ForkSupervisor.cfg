SPECIFICATION GenSpec
CONSTANTS
  Ns = {0, 1, 2, 3}
  Budgets = {0, 1, 2}
  Cpus = {2}
  Statuses = {0, 1, 1009}
  MaxN = 3
  MaxPid = 5
  L = 6
CONSTRAINT GenBound
CHECK_DEADLOCK FALSE
