---------------------------- MODULE Gen_SubprocessExit ----------------------------
(* Path enumeration: with the history in the state every path is a distinct state, so
   TLC's BFS enumerates every order of exits / registrations / SIGCHLD deliveries /
   cancellations / (un)initialize calls up to length L; -dump writes them out.
   `spur` counts deliveries that announce nothing (bounded by MaxSpur: they are no-ops of
   the specification, kept to see that the real handler also does nothing). *)
EXTENDS SubprocessExit
CONSTANTS L, MaxSpur, Ext        \* Ext = FALSE leaves out explicit initialize / uninitialize calls
VARIABLES hist, spur
GenInit == InitState /\ hist = <<step>> /\ spur = 0
GenNext == /\ Next
           /\ Ext \/ step'.act \notin {"initialize", "uninitialize"}
           /\ hist' = Append(hist, step')
           /\ spur' = IF step'.act = "sigchld" /\ ~sigpending /\ ~lostsig THEN spur + 1 ELSE spur
GenSpec == GenInit /\ [][GenNext]_<<vars, step, hist, spur>>
GenBound == Len(hist) <= L + 1 /\ spur <= MaxSpur
=============================================================================
