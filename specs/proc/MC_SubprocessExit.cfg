SPECIFICATION Spec
CONSTANTS
  NCs = {1, 2}
  MaxC = 2
  Statuses = {0, 1, 255, 1009, 2011}
  Kinds = {"cb", "wr", "wn"}
VIEW View
INVARIANT TypeOK
INVARIANT CallbackOnce
INVARIANT FutureOutcome
INVARIANT ReturnCodeRight
INVARIANT OnlyRegisteredReaped
INVARIANT ReportedAtQuiescence
PROPERTY ExitBeforeRegister
PROPERTY Sticky
CHECK_DEADLOCK FALSE
