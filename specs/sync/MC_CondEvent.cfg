SPECIFICATION Spec
CONSTANTS
  NW = 4
  Kinds = {"cond", "event"}
  Timeouts = {0, 1, 2, 999}
  MaxAdvance = 2
  MaxNotify = 3
VIEW View
INVARIANT TypeOK
INVARIANT QueueIsPending
INVARIANT WokenInArrivalOrder
INVARIANT WokenAreTrue
INVARIANT SetMeansNoWaiter
INVARIANT EventIff
INVARIANT NoResidue
PROPERTY NotifyExact
PROPERTY FalseOnlyByTimeout
PROPERTY Sticky
PROPERTY TimeoutOnlyByDeadline
PROPERTY ExpiryNoSideEffect
CHECK_DEADLOCK FALSE
