SPECIFICATION GenSpec
CONSTANTS
  NW = 4
  Kinds = {"cond", "event"}
  Timeouts = {0, 1, 999}
  MaxAdvance = 2
  MaxNotify = 2
  L = 4
CONSTRAINT GenBound
INVARIANT SimPrint
CHECK_DEADLOCK FALSE
