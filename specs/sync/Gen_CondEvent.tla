---------------------------- MODULE Gen_CondEvent ----------------------------
(* Path enumeration: with the history in the state every path is a distinct state, so
   TLC's BFS enumerates every operation sequence up to length L; -dump writes them out. *)
EXTENDS CondEvent
CONSTANT L
VARIABLE hist
GenInit == InitState /\ hist = <<>>
GenNext == Next /\ hist' = Append(hist, step')
GenSpec == GenInit /\ [][GenNext]_<<vars, step, hist>>
GenBound == Len(hist) <= L
(* simulation mode: print each walk once, when it reaches length L (always TRUE) *)
SimPrint == (Len(hist) = L) => PrintT(<<"SIMPATH", ToString(cfg), ToString(hist)>>)
=============================================================================
