SPECIFICATION TraceSpec
CONSTANTS
  NW = 8
  Inits = {0}
  Kinds = {"sem"}
  Timeouts = {0}
  MaxAdvance = 1
  MaxValue = 1000
CONSTRAINT Report
INVARIANT TypeOK
INVARIANT Conservation
INVARIANT NoOverGrant
INVARIANT NoIdlePermit
INVARIANT FifoGrants
INVARIANT QueueOrdered
INVARIANT GrantedOnce
INVARIANT DeadNeverGranted
PROPERTY Sticky
PROPERTY FailedReleaseNoEffect
PROPERTY GrantIsOldestLive
CHECK_DEADLOCK FALSE
