SPECIFICATION GenSpec
CONSTANTS
  NP = 4
  NG = 4
  NJ = 2
  Kinds = {"fifo", "lifo", "prio"}
  MaxSizes = {0, 1, 2}
  Prios = {1, 2}
  Timeouts = {0, 1, 999}
  MaxAdvance = 2
  Ops = {"put", "put_nowait", "get", "get_nowait", "task_done", "join", "advance", "cancel_put", "cancel_get", "cancel_join"}
  L = 4
CONSTRAINT GenBound
INVARIANT SimPrint
CHECK_DEADLOCK FALSE
