---------------------------- MODULE CondEvent ----------------------------
(***************************************************************************)
(* Sequential reference model of tornado.locks.Condition and               *)
(* tornado.locks.Event (property C34).                                     *)
(*                                                                         *)
(* One behaviour drives ONE object, chosen by cfg.kind ("cond" | "event"). *)
(* One action = one public call (or one clock advance, or one cancel of a  *)
(* pending wait future).  The model is sequential: whether the event loop  *)
(* runs between two calls is not part of a behaviour, so every placement   *)
(* of loop iterations between the calls of a behaviour must produce the    *)
(* same observations (the S2C replay runs each behaviour settled after     *)
(* every call, with all calls of a stretch inside ONE loop iteration, and  *)
(* with the calls that follow an Advance performed in the very iteration   *)
(* in which the timers fire, or one / two iterations later).  Only a wait  *)
(* with timeout 0 needs the loop to run before the next call (it expires   *)
(* "immediately").  Waiter ids are the serial numbers of the wait          *)
(* calls, so arrival order = id order.  Time is relative: rem[w] is the    *)
(* time left before waiter w's deadline (NoDl = no deadline).              *)
(*                                                                         *)
(* Condition: wait(timeout) / notify(n) / notify_all.  A wait resolves     *)
(*   "true" when notified, "false" when its deadline passes first.         *)
(* Event: wait(timeout) / set / clear / is_set.  A wait resolves "ok" iff  *)
(*   the event is set at the call or becomes set before the deadline,      *)
(*   otherwise "timeout" (TimeoutError).                                   *)
(* Cancelling a pending wait future (not named by the property text, but   *)
(* part of the mechanism) removes the waiter like an expiry does.          *)
(***************************************************************************)
EXTENDS Integers, Sequences, FiniteSets, TLC

CONSTANTS NW,          \* wait calls are numbered 1..NW
          Kinds,       \* subset of {"cond", "event"}
          Timeouts,    \* relative timeouts offered to the wait actions; NoTo = no timeout
          MaxAdvance,  \* largest single clock step
          MaxNotify    \* notify(n) is explored for n in 0..MaxNotify

NoTo == 999
NoDl == 999
Waiters == 1..NW

VARIABLES cfg,     \* [kind] - fixed during a behaviour
          q,       \* cond: live pending waiters in arrival order
          st,      \* st[w]: "idle" | "pending" | "true" | "false" | "ok" | "timeout" | "cancelled"
          rem,     \* time to deadline of pending waiters
          woken,   \* cond: waiter ids in the order they were woken with True
          flag,    \* event: the internal flag
          reg,     \* event: the waits the event object still refers to
          seen,    \* event, history: seen[w] <=> the event was set at w's call or while w was pending
          step     \* observation of the last step: [act, args, exp]

vars == <<cfg, q, st, rem, woken, flag, reg, seen>>

IsCond == cfg.kind = "cond"
IsEvent == cfg.kind = "event"

(* What the real object exposes.  cond: every wait future's state and the order in which the   *)
(* True-wakeups ran.  event: every wait future's state, is_set(), and which wait futures are   *)
(* still reachable after the caller dropped them (held[w], observed through weak references).  *)
Proj == IF IsCond
          THEN [st |-> st, woken |-> woken]
          ELSE [st |-> st, flag |-> flag, held |-> [w \in Waiters |-> w \in reg]]
Obs(a, args) == [act |-> a, args |-> args, exp |-> Proj']

Remove(s, dead) == SelectSeq(s, LAMBDA x : x \notin dead)
Min(a, b) == IF a < b THEN a ELSE b
Prefix(s, k) == SubSeq(s, 1, k)
Range(s) == {s[i] : i \in 1..Len(s)}

InitWith(c) ==
    /\ cfg = c
    /\ q = <<>>
    /\ st = [w \in Waiters |-> "idle"]
    /\ rem = [w \in Waiters |-> NoDl]
    /\ woken = <<>>
    /\ flag = FALSE
    /\ reg = {}
    /\ seen = [w \in Waiters |-> FALSE]
    /\ step = [act |-> "init", args |-> <<>>,
               exp |-> IF c.kind = "cond" THEN [st |-> st, woken |-> <<>>]
                       ELSE [st |-> st, flag |-> FALSE, held |-> [w \in Waiters |-> FALSE]]]

InitState == \E c \in [kind : Kinds] : InitWith(c)

NextId(w) == st[w] = "idle" /\ \A v \in Waiters : v < w => st[v] # "idle"

----------------------------------------------------------------------------
(* Condition *)

(* wait(timeout): to = NoTo means no timeout; to = 0 expires within the same settle *)
Wait(w, to) ==
    /\ IsCond
    /\ NextId(w)
    /\ IF to = 0
         THEN /\ st' = [st EXCEPT ![w] = "false"]
              /\ UNCHANGED <<q, rem>>
         ELSE /\ st' = [st EXCEPT ![w] = "pending"]
              /\ q' = Append(q, w)
              /\ rem' = [rem EXCEPT ![w] = IF to = NoTo THEN NoDl ELSE to]
    /\ UNCHANGED <<cfg, woken, flag, reg, seen>>
    /\ step' = Obs("wait", <<w, to>>)

(* wake the first k live waiters, in arrival order *)
Wake(k) ==
    LET ws == Range(Prefix(q, k)) IN
    /\ st' = [w \in Waiters |-> IF w \in ws THEN "true" ELSE st[w]]
    /\ rem' = [w \in Waiters |-> IF w \in ws THEN NoDl ELSE rem[w]]
    /\ woken' = woken \o Prefix(q, k)
    /\ q' = SubSeq(q, k + 1, Len(q))

Notify(n) ==
    /\ IsCond
    /\ Wake(Min(n, Len(q)))
    /\ UNCHANGED <<cfg, flag, reg, seen>>
    /\ step' = Obs("notify", <<n>>)

NotifyAll ==
    /\ IsCond
    /\ Wake(Len(q))
    /\ UNCHANGED <<cfg, flag, reg, seen>>
    /\ step' = Obs("notify_all", <<>>)

----------------------------------------------------------------------------
(* Event *)

EvWait(w, to) ==
    /\ IsEvent
    /\ NextId(w)
    /\ IF flag
         THEN /\ st' = [st EXCEPT ![w] = "ok"]
              /\ seen' = [seen EXCEPT ![w] = TRUE]
              /\ UNCHANGED <<rem, reg>>
         ELSE IF to = 0
           THEN /\ st' = [st EXCEPT ![w] = "timeout"]
                /\ UNCHANGED <<rem, reg, seen>>
           ELSE /\ st' = [st EXCEPT ![w] = "pending"]
                /\ rem' = [rem EXCEPT ![w] = IF to = NoTo THEN NoDl ELSE to]
                /\ reg' = reg \cup {w}
                /\ UNCHANGED seen
    /\ UNCHANGED <<cfg, q, woken, flag>>
    /\ step' = Obs("ev_wait", <<w, to>>)

Set ==
    /\ IsEvent
    /\ flag' = TRUE
    /\ st' = [w \in Waiters |-> IF st[w] = "pending" THEN "ok" ELSE st[w]]
    /\ seen' = [w \in Waiters |-> seen[w] \/ st[w] = "pending"]
    /\ rem' = [w \in Waiters |-> NoDl]
    /\ reg' = {}
    /\ UNCHANGED <<cfg, q, woken>>
    /\ step' = Obs("set", <<>>)

Clear ==
    /\ IsEvent
    /\ flag' = FALSE
    /\ UNCHANGED <<cfg, q, st, rem, woken, reg, seen>>
    /\ step' = Obs("clear", <<>>)

----------------------------------------------------------------------------
(* Both *)

HasDeadline == \E w \in Waiters : st[w] = "pending" /\ rem[w] # NoDl

Advance(d) ==
    /\ HasDeadline
    /\ LET expired == {w \in Waiters : st[w] = "pending" /\ rem[w] # NoDl /\ rem[w] <= d} IN
       /\ st' = [w \in Waiters |-> IF w \in expired THEN (IF IsCond THEN "false" ELSE "timeout") ELSE st[w]]
       /\ rem' = [w \in Waiters |-> IF w \in expired THEN NoDl
                                    ELSE IF st[w] = "pending" /\ rem[w] # NoDl THEN rem[w] - d ELSE rem[w]]
       /\ q' = Remove(q, expired)
       /\ reg' = reg \ expired
    /\ UNCHANGED <<cfg, woken, flag, seen>>
    /\ step' = Obs("advance", <<d>>)

Cancel(w) ==
    /\ st[w] = "pending"
    /\ st' = [st EXCEPT ![w] = "cancelled"]
    /\ rem' = [rem EXCEPT ![w] = NoDl]
    /\ q' = Remove(q, {w})
    /\ reg' = reg \ {w}
    /\ UNCHANGED <<cfg, woken, flag, seen>>
    /\ step' = Obs("cancel", <<w>>)

Next ==
    \/ \E w \in Waiters, to \in Timeouts : Wait(w, to)
    \/ \E n \in 0..MaxNotify : Notify(n)
    \/ NotifyAll
    \/ \E w \in Waiters, to \in Timeouts : EvWait(w, to)
    \/ Set
    \/ Clear
    \/ \E d \in 1..MaxAdvance : Advance(d)
    \/ \E w \in Waiters : Cancel(w)

Spec == InitState /\ [][Next]_<<vars, step>>

----------------------------------------------------------------------------
(* Properties (C34) *)

Pending == {w \in Waiters : st[w] = "pending"}
Terminal == {"true", "false", "ok", "timeout", "cancelled"}

TypeOK ==
    /\ st \in [Waiters -> {"idle", "pending"} \cup Terminal]
    /\ IsCond => (\A w \in Waiters : st[w] \notin {"ok", "timeout"}) /\ flag = FALSE /\ reg = {}
    /\ IsEvent => (\A w \in Waiters : st[w] \notin {"true", "false"}) /\ q = <<>> /\ woken = <<>>
    /\ \A w \in Waiters : rem[w] # NoDl => st[w] = "pending"

(* cond: the queue is exactly the pending waiters, in arrival order *)
QueueIsPending == IsCond => /\ Range(q) = Pending
                            /\ \A i \in 1..(Len(q) - 1) : q[i] < q[i + 1]
(* cond: wakeups happen in arrival order, each True waiter was woken exactly once *)
WokenInArrivalOrder == \A i \in 1..(Len(woken) - 1) : woken[i] < woken[i + 1]
WokenAreTrue == Range(woken) = {w \in Waiters : st[w] = "true"}

NewlyTrue == {w \in Waiters : st[w] = "pending" /\ st'[w] = "true"}
(* cond: notify(n) wakes exactly min(n, live) waiters and they are the oldest live ones;      *)
(* notify_all wakes every live waiter; nothing else wakes anybody with True                   *)
NotifyExact ==
    [][IsCond =>
        LET k == Cardinality(NewlyTrue) IN
        /\ NewlyTrue = Range(Prefix(q, k))
        /\ step'.act = "notify" => k = Min(step'.args[1], Cardinality(Pending))
        /\ step'.act = "notify_all" => k = Cardinality(Pending)
        /\ step'.act \notin {"notify", "notify_all"} => k = 0]_vars
(* a wait becomes False only by its own deadline (advance) or immediately with timeout 0, and  *)
(* a notify never turns a waiter False *)
FalseOnlyByTimeout ==
    [][\A w \in Waiters : (st[w] # "false" /\ st'[w] = "false") =>
          \/ (step'.act = "advance" /\ st[w] = "pending" /\ rem[w] <= step'.args[1])
          \/ (step'.act = "wait" /\ step'.args = <<w, 0>>)]_vars
(* a finished wait never changes again (a timed-out waiter is never notified later) *)
Sticky == [][\A w \in Waiters : st[w] \in Terminal => st'[w] = st[w]]_vars

(* event: a set event has no blocked waiter *)
SetMeansNoWaiter == (IsEvent /\ flag) => Pending = {}
(* event: a wait completed iff the event was set at the call or at some time before its deadline;
   a wait that timed out never saw the event set; a pending wait has not seen it yet *)
EventIff == IsEvent => \A w \in Waiters : /\ (st[w] = "ok" <=> seen[w])
                                           /\ (st[w] \in {"timeout", "pending"} => ~seen[w])
(* event: finished waits leave no residue - the event refers to exactly the pending waits *)
NoResidue == IsEvent => reg = Pending
(* event: TimeoutError only by the wait's own deadline *)
TimeoutOnlyByDeadline ==
    [][\A w \in Waiters : (st[w] # "timeout" /\ st'[w] = "timeout") =>
          \/ (step'.act = "advance" /\ st[w] = "pending" /\ rem[w] <= step'.args[1])
          \/ (step'.act = "ev_wait" /\ step'.args = <<w, 0>> /\ ~flag)]_vars
(* an expiry / cancel affects nobody else *)
ExpiryNoSideEffect ==
    [][step'.act \in {"advance", "cancel"} =>
          /\ flag' = flag /\ woken' = woken
          /\ \A w \in Waiters : st'[w] # st[w] => st'[w] \in {"false", "timeout", "cancelled"}]_vars

View == vars
=============================================================================
