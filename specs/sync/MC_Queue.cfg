SPECIFICATION Spec
CONSTANTS
  NP = 3
  NG = 2
  NJ = 1
  Kinds = {"fifo", "lifo", "prio"}
  MaxSizes = {0, 1, 2}
  Prios = {1, 2}
  Timeouts = {0, 1, 999}
  MaxAdvance = 2
  Ops = {"put", "put_nowait", "get", "get_nowait", "task_done", "join", "advance", "cancel_put", "cancel_get", "cancel_join"}
VIEW View
INVARIANT TypeOK
INVARIANT Conservation
INVARIANT SizeBound
INVARIANT NoIdleGetter
INVARIANT NoIdlePutter
INVARIANT AdmissionOrder
INVARIANT Accounting
INVARIANT JoinIff
PROPERTY Discipline
PROPERTY ArrivalOrder
PROPERTY Sticky
PROPERTY NoEffect
PROPERTY Raises
CHECK_DEADLOCK FALSE
