SPECIFICATION TraceSpec
CONSTANTS
  NP = 8
  NG = 8
  NJ = 8
  Kinds = {"fifo"}
  MaxSizes = {0}
  Prios = {1}
  Timeouts = {0}
  MaxAdvance = 1
  Ops = {"put", "put_nowait", "get", "get_nowait", "task_done", "join", "advance", "cancel_put", "cancel_get", "cancel_join"}
CONSTRAINT Report
INVARIANT TypeOK
INVARIANT Conservation
INVARIANT SizeBound
INVARIANT NoIdleGetter
INVARIANT NoIdlePutter
INVARIANT AdmissionOrder
INVARIANT Accounting
INVARIANT JoinIff
PROPERTY Discipline
PROPERTY ArrivalOrder
PROPERTY Sticky
PROPERTY NoEffect
PROPERTY Raises
CHECK_DEADLOCK FALSE
