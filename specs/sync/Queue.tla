---------------------------- MODULE Queue ----------------------------
(***************************************************************************)
(* Sequential reference model of tornado.queues.Queue / LifoQueue /        *)
(* PriorityQueue (property C35).                                           *)
(*                                                                         *)
(* One action = one public call (or one clock advance, or one cancel of a  *)
(* pending future).  The model is sequential: whether the event loop runs  *)
(* between two calls is not part of a behaviour, so every placement of     *)
(* loop iterations between the calls of a behaviour must produce the same  *)
(* observations (the S2C replay runs each behaviour settled after every    *)
(* call, with whole stretches of calls inside ONE loop iteration, and with *)
(* the calls that follow an Advance performed in the very iteration in     *)
(* which the timers fire, or one / two iterations later).  Only a call     *)
(* with timeout 0 needs the loop to run before the next call.              *)
(* put / put_nowait calls are numbered 1..NP in call                       *)
(* order, get / get_nowait calls 1..NG, join calls 1..NJ.  The item of put *)
(* call p is the pair <<priority, p>>: items are distinguishable, and for  *)
(* the priority queue the pair order (priority first, then serial) is the  *)
(* order the real heap uses on the same tuples.                            *)
(* Time is relative: *rem[x] is the time left before x's deadline.         *)
(*                                                                         *)
(* Linearization choice (DESIGN 5.C35): a get on a full queue with a       *)
(* blocked putter first admits the oldest live putter's item (that put     *)
(* succeeds at this instant) and then removes according to the discipline; *)
(* symmetrically a put with a blocked getter admits the item and the       *)
(* oldest live getter removes according to the discipline.  The size bound *)
(* is asserted at call boundaries.                                         *)
(***************************************************************************)
EXTENDS Integers, Sequences, FiniteSets, TLC

CONSTANTS NP, NG, NJ,   \* numbers of put / get / join calls
          Kinds,        \* subset of {"fifo", "lifo", "prio"}
          MaxSizes,     \* maxsize values explored (0 = unbounded)
          Prios,        \* priorities offered to put (priority queue only; others use 1)
          Timeouts,     \* relative timeouts offered; NoTo = no timeout
          MaxAdvance,   \* largest single clock step
          Ops           \* the calls explored: subset of AllOps (generation families restrict it)

NoTo == 999
NoDl == 999
None == <<>>            \* "no item"
AllOps == {"put", "put_nowait", "get", "get_nowait", "task_done", "join", "advance",
           "cancel_put", "cancel_get", "cancel_join"}
Puts == 1..NP
Gets == 1..NG
Joins == 1..NJ

VARIABLES cfg,         \* [kind, maxsize] - fixed during a behaviour
          items,       \* queued items in admission order
          pst,         \* pst[p]: "idle" | "pending" | "ok" | "timedout" | "cancelled" | "full"
          pitem,       \* pitem[p]: the item of put call p (None before the call)
          prem,        \* time to deadline of pending puts
          putters,     \* live blocked put calls, arrival order
          gst,         \* gst[g]: "idle" | "pending" | "ok" | "timedout" | "cancelled" | "empty"
          gval,        \* gval[g]: the item delivered to get call g (None otherwise)
          grem,
          getters,     \* live blocked get calls, arrival order
          jst,         \* jst[j]: "idle" | "pending" | "ok" | "timedout" | "cancelled"
          jrem,
          jseen,       \* history: unfinished was 0 at join j's call or while j was pending
          unfinished,  \* admitted items not yet matched by task_done
          ndone,       \* history: successful task_done calls
          err,         \* exception class of the last call ("none" if it returned)
          step

vars == <<cfg, items, pst, pitem, prem, putters, gst, gval, grem, getters, jst, jrem, jseen, unfinished, ndone, err>>

Full(its) == cfg.maxsize > 0 /\ Len(its) >= cfg.maxsize

Proj == [pst |-> pst, gst |-> gst, gval |-> gval, jst |-> jst,
         qsize |-> Len(items), empty |-> (Len(items) = 0), full |-> Full(items), err |-> err]
Obs(a, args) == [act |-> a, args |-> args, exp |-> Proj']

Remove(s, dead) == SelectSeq(s, LAMBDA x : x \notin dead)
RemoveAt(s, i) == SubSeq(s, 1, i - 1) \o SubSeq(s, i + 1, Len(s))
(* pair order of the priority queue *)
Less(a, b) == a[1] < b[1] \/ (a[1] = b[1] /\ a[2] < b[2])
(* index of the item the discipline removes from a non-empty content *)
Pick(its) ==
    IF cfg.kind = "fifo" THEN 1
    ELSE IF cfg.kind = "lifo" THEN Len(its)
    ELSE CHOOSE i \in 1..Len(its) : \A j \in 1..Len(its) : j # i => Less(its[i], its[j])

InitWith(c) ==
    /\ cfg = c
    /\ items = <<>>
    /\ pst = [p \in Puts |-> "idle"]
    /\ pitem = [p \in Puts |-> None]
    /\ prem = [p \in Puts |-> NoDl]
    /\ putters = <<>>
    /\ gst = [g \in Gets |-> "idle"]
    /\ gval = [g \in Gets |-> None]
    /\ grem = [g \in Gets |-> NoDl]
    /\ getters = <<>>
    /\ jst = [j \in Joins |-> "idle"]
    /\ jrem = [j \in Joins |-> NoDl]
    /\ jseen = [j \in Joins |-> FALSE]
    /\ unfinished = 0
    /\ ndone = 0
    /\ err = "none"
    /\ step = [act |-> "init", args |-> <<>>,
               exp |-> [pst |-> pst, gst |-> gst, gval |-> gval, jst |-> jst,
                        qsize |-> 0, empty |-> TRUE, full |-> FALSE, err |-> "none"]]

InitState == \E c \in [kind : Kinds, maxsize : MaxSizes] : InitWith(c)

NextPut(p) == pst[p] = "idle" /\ \A v \in Puts : v < p => pst[v] # "idle"
NextGet(g) == gst[g] = "idle" /\ \A v \in Gets : v < g => gst[v] # "idle"
NextJoin(j) == jst[j] = "idle" /\ \A v \in Joins : v < j => jst[v] # "idle"
PrioOK(pr) == cfg.kind = "prio" \/ pr = 1

----------------------------------------------------------------------------
(* put side.  blocking = TRUE: put(item, timeout); FALSE: put_nowait(item) *)

PutCommon(p, pr, to, blocking) ==
    LET it == <<pr, p>> IN
    /\ NextPut(p)
    /\ PrioOK(pr)
    /\ pitem' = [pitem EXCEPT ![p] = it]
    /\ IF getters # <<>>
         THEN (* hand over: admit the item, the oldest live getter removes by the discipline *)
              LET g == Head(getters)
                  its1 == Append(items, it)
                  i == Pick(its1) IN
              /\ gst' = [gst EXCEPT ![g] = "ok"]
              /\ gval' = [gval EXCEPT ![g] = its1[i]]
              /\ grem' = [grem EXCEPT ![g] = NoDl]
              /\ getters' = Tail(getters)
              /\ items' = RemoveAt(its1, i)
              /\ pst' = [pst EXCEPT ![p] = "ok"]
              /\ unfinished' = unfinished + 1
              /\ err' = "none"
              /\ UNCHANGED <<prem, putters>>
         ELSE IF Full(items)
           THEN /\ IF ~blocking
                     THEN /\ pst' = [pst EXCEPT ![p] = "full"]
                          /\ err' = "QueueFull"
                          /\ UNCHANGED <<prem, putters>>
                     ELSE /\ err' = "none"
                          /\ IF to = 0
                               THEN /\ pst' = [pst EXCEPT ![p] = "timedout"]
                                    /\ UNCHANGED <<prem, putters>>
                               ELSE /\ pst' = [pst EXCEPT ![p] = "pending"]
                                    /\ prem' = [prem EXCEPT ![p] = IF to = NoTo THEN NoDl ELSE to]
                                    /\ putters' = Append(putters, p)
                /\ UNCHANGED <<items, gst, gval, grem, getters, unfinished>>
           ELSE /\ items' = Append(items, it)
                /\ pst' = [pst EXCEPT ![p] = "ok"]
                /\ unfinished' = unfinished + 1
                /\ err' = "none"
                /\ UNCHANGED <<prem, putters, gst, gval, grem, getters>>
    /\ UNCHANGED <<cfg, jst, jrem, jseen, ndone>>

Put(p, pr, to) == "put" \in Ops /\ PutCommon(p, pr, to, TRUE) /\ step' = Obs("put", <<p, pr, to>>)
PutNowait(p, pr) == "put_nowait" \in Ops /\ PutCommon(p, pr, NoTo, FALSE) /\ step' = Obs("put_nowait", <<p, pr>>)

----------------------------------------------------------------------------
(* get side.  blocking = TRUE: get(timeout); FALSE: get_nowait() *)

GetCommon(g, to, blocking) ==
    /\ NextGet(g)
    /\ IF putters # <<>>
         THEN (* admit the oldest live putter's item, then remove by the discipline *)
              LET h == Head(putters)
                  its1 == Append(items, pitem[h])
                  i == Pick(its1) IN
              /\ pst' = [pst EXCEPT ![h] = "ok"]
              /\ prem' = [prem EXCEPT ![h] = NoDl]
              /\ putters' = Tail(putters)
              /\ unfinished' = unfinished + 1
              /\ gst' = [gst EXCEPT ![g] = "ok"]
              /\ gval' = [gval EXCEPT ![g] = its1[i]]
              /\ items' = RemoveAt(its1, i)
              /\ err' = "none"
              /\ UNCHANGED <<grem, getters>>
         ELSE IF items # <<>>
           THEN LET i == Pick(items) IN
                /\ gst' = [gst EXCEPT ![g] = "ok"]
                /\ gval' = [gval EXCEPT ![g] = items[i]]
                /\ items' = RemoveAt(items, i)
                /\ err' = "none"
                /\ UNCHANGED <<pst, prem, putters, unfinished, grem, getters>>
           ELSE /\ IF ~blocking
                     THEN /\ gst' = [gst EXCEPT ![g] = "empty"]
                          /\ err' = "QueueEmpty"
                          /\ UNCHANGED <<grem, getters>>
                     ELSE /\ err' = "none"
                          /\ IF to = 0
                               THEN /\ gst' = [gst EXCEPT ![g] = "timedout"]
                                    /\ UNCHANGED <<grem, getters>>
                               ELSE /\ gst' = [gst EXCEPT ![g] = "pending"]
                                    /\ grem' = [grem EXCEPT ![g] = IF to = NoTo THEN NoDl ELSE to]
                                    /\ getters' = Append(getters, g)
                /\ UNCHANGED <<items, pst, prem, putters, unfinished, gval>>
    /\ UNCHANGED <<cfg, pitem, jst, jrem, jseen, ndone>>

Get(g, to) == "get" \in Ops /\ GetCommon(g, to, TRUE) /\ step' = Obs("get", <<g, to>>)
GetNowait(g) == "get_nowait" \in Ops /\ GetCommon(g, NoTo, FALSE) /\ step' = Obs("get_nowait", <<g>>)

----------------------------------------------------------------------------
(* accounting *)

TaskDone ==
    /\ "task_done" \in Ops
    /\ IF unfinished = 0
         THEN /\ err' = "ValueError"
              /\ UNCHANGED <<unfinished, ndone, jst, jrem, jseen>>
         ELSE /\ err' = "none"
              /\ unfinished' = unfinished - 1
              /\ ndone' = ndone + 1
              /\ IF unfinished = 1
                   THEN /\ jst' = [j \in Joins |-> IF jst[j] = "pending" THEN "ok" ELSE jst[j]]
                        /\ jrem' = [j \in Joins |-> NoDl]
                        /\ jseen' = [j \in Joins |-> jseen[j] \/ jst[j] = "pending"]
                   ELSE UNCHANGED <<jst, jrem, jseen>>
    /\ UNCHANGED <<cfg, items, pst, pitem, prem, putters, gst, gval, grem, getters>>
    /\ step' = Obs("task_done", <<>>)

Join(j, to) ==
    /\ "join" \in Ops
    /\ NextJoin(j)
    /\ IF unfinished = 0
         THEN /\ jst' = [jst EXCEPT ![j] = "ok"]
              /\ jseen' = [jseen EXCEPT ![j] = TRUE]
              /\ UNCHANGED jrem
         ELSE IF to = 0
           THEN /\ jst' = [jst EXCEPT ![j] = "timedout"]
                /\ UNCHANGED <<jrem, jseen>>
           ELSE /\ jst' = [jst EXCEPT ![j] = "pending"]
                /\ jrem' = [jrem EXCEPT ![j] = IF to = NoTo THEN NoDl ELSE to]
                /\ UNCHANGED jseen
    /\ err' = "none"
    /\ UNCHANGED <<cfg, items, pst, pitem, prem, putters, gst, gval, grem, getters, unfinished, ndone>>
    /\ step' = Obs("join", <<j, to>>)

----------------------------------------------------------------------------
(* time and cancellation *)

HasDeadline == \/ \E p \in Puts : pst[p] = "pending" /\ prem[p] # NoDl
               \/ \E g \in Gets : gst[g] = "pending" /\ grem[g] # NoDl
               \/ \E j \in Joins : jst[j] = "pending" /\ jrem[j] # NoDl

Tick(r, pend, d) == IF pend /\ r # NoDl THEN (IF r <= d THEN NoDl ELSE r - d) ELSE r

Advance(d) ==
    /\ "advance" \in Ops
    /\ HasDeadline
    /\ LET pe == {p \in Puts : pst[p] = "pending" /\ prem[p] # NoDl /\ prem[p] <= d}
           ge == {g \in Gets : gst[g] = "pending" /\ grem[g] # NoDl /\ grem[g] <= d}
           je == {j \in Joins : jst[j] = "pending" /\ jrem[j] # NoDl /\ jrem[j] <= d} IN
       /\ pst' = [p \in Puts |-> IF p \in pe THEN "timedout" ELSE pst[p]]
       /\ gst' = [g \in Gets |-> IF g \in ge THEN "timedout" ELSE gst[g]]
       /\ jst' = [j \in Joins |-> IF j \in je THEN "timedout" ELSE jst[j]]
       /\ prem' = [p \in Puts |-> Tick(prem[p], pst[p] = "pending", d)]
       /\ grem' = [g \in Gets |-> Tick(grem[g], gst[g] = "pending", d)]
       /\ jrem' = [j \in Joins |-> Tick(jrem[j], jst[j] = "pending", d)]
       /\ putters' = Remove(putters, pe)
       /\ getters' = Remove(getters, ge)
    /\ err' = "none"
    /\ UNCHANGED <<cfg, items, pitem, gval, jseen, unfinished, ndone>>
    /\ step' = Obs("advance", <<d>>)

CancelPut(p) ==
    /\ "cancel_put" \in Ops
    /\ pst[p] = "pending"
    /\ pst' = [pst EXCEPT ![p] = "cancelled"]
    /\ prem' = [prem EXCEPT ![p] = NoDl]
    /\ putters' = Remove(putters, {p})
    /\ err' = "none"
    /\ UNCHANGED <<cfg, items, pitem, gst, gval, grem, getters, jst, jrem, jseen, unfinished, ndone>>
    /\ step' = Obs("cancel_put", <<p>>)

CancelGet(g) ==
    /\ "cancel_get" \in Ops
    /\ gst[g] = "pending"
    /\ gst' = [gst EXCEPT ![g] = "cancelled"]
    /\ grem' = [grem EXCEPT ![g] = NoDl]
    /\ getters' = Remove(getters, {g})
    /\ err' = "none"
    /\ UNCHANGED <<cfg, items, pst, pitem, prem, putters, gval, jst, jrem, jseen, unfinished, ndone>>
    /\ step' = Obs("cancel_get", <<g>>)

CancelJoin(j) ==
    /\ "cancel_join" \in Ops
    /\ jst[j] = "pending"
    /\ jst' = [jst EXCEPT ![j] = "cancelled"]
    /\ jrem' = [jrem EXCEPT ![j] = NoDl]
    /\ err' = "none"
    /\ UNCHANGED <<cfg, items, pst, pitem, prem, putters, gst, gval, grem, getters, jseen, unfinished, ndone>>
    /\ step' = Obs("cancel_join", <<j>>)

Next ==
    \/ \E p \in Puts, pr \in Prios, to \in Timeouts : Put(p, pr, to)
    \/ \E p \in Puts, pr \in Prios : PutNowait(p, pr)
    \/ \E g \in Gets, to \in Timeouts : Get(g, to)
    \/ \E g \in Gets : GetNowait(g)
    \/ TaskDone
    \/ \E j \in Joins, to \in Timeouts : Join(j, to)
    \/ \E d \in 1..MaxAdvance : Advance(d)
    \/ \E p \in Puts : CancelPut(p)
    \/ \E g \in Gets : CancelGet(g)
    \/ \E j \in Joins : CancelJoin(j)

Spec == InitState /\ [][Next]_<<vars, step>>

----------------------------------------------------------------------------
(* Properties (C35) *)

Range(s) == {s[i] : i \in 1..Len(s)}
PStates == {"idle", "pending", "ok", "timedout", "cancelled", "full"}
GStates == {"idle", "pending", "ok", "timedout", "cancelled", "empty"}
JStates == {"idle", "pending", "ok", "timedout", "cancelled"}

TypeOK ==
    /\ pst \in [Puts -> PStates] /\ gst \in [Gets -> GStates] /\ jst \in [Joins -> JStates]
    /\ unfinished \in Nat
    /\ Range(putters) = {p \in Puts : pst[p] = "pending"}
    /\ Range(getters) = {g \in Gets : gst[g] = "pending"}
    /\ \A i \in 1..(Len(putters) - 1) : putters[i] < putters[i + 1]
    /\ \A i \in 1..(Len(getters) - 1) : getters[i] < getters[i + 1]
    /\ \A g \in Gets : (gval[g] # None) <=> (gst[g] = "ok")

PutOK == {pitem[p] : p \in {x \in Puts : pst[x] = "ok"}}
Got == {gval[g] : g \in {x \in Gets : gst[x] = "ok"}}

(* every successfully put item is returned by exactly one get or remains queued *)
Conservation ==
    /\ PutOK = Got \cup Range(items)
    /\ Got \cap Range(items) = {}
    /\ Cardinality(Got) = Cardinality({g \in Gets : gst[g] = "ok"})     \* no item delivered twice
    /\ Cardinality(Range(items)) = Len(items)                           \* no item queued twice
(* the queue never holds more than maxsize items (at call boundaries) *)
SizeBound == cfg.maxsize > 0 => Len(items) <= cfg.maxsize
(* nobody is left waiting although it could be served *)
NoIdleGetter == getters # <<>> => items = <<>>
NoIdlePutter == putters # <<>> => Full(items)
(* admission order is call order (blocked putters are served in arrival order) *)
AdmissionOrder == \A i \in 1..(Len(items) - 1) : items[i][2] < items[i + 1][2]
(* accounting *)
Accounting == unfinished = Cardinality({p \in Puts : pst[p] = "ok"}) - ndone
(* join completes exactly when every admitted put has been matched by task_done *)
JoinIff == \A j \in Joins : /\ (jst[j] = "ok" <=> jseen[j])
                            /\ (jst[j] \in {"pending", "timedout"} => ~jseen[j])
                            /\ (jst[j] = "pending" => unfinished > 0)

(* the item a step delivers is the one the discipline names among everything present at that
   instant (the content after the step plus the delivered item itself) *)
NewGot == {g \in Gets : gst[g] # "ok" /\ gst'[g] = "ok"}
Discipline ==
    [][\A g \in NewGot :
          LET x == gval'[g] IN
          \A k \in 1..Len(items') :
              LET y == items'[k] IN
              CASE cfg.kind = "fifo" -> x[2] < y[2]
                [] cfg.kind = "lifo" -> x[2] > y[2]
                [] OTHER -> Less(x, y)]_vars
(* at most one delivery per step; blocked getters / putters are served oldest-live first *)
ArrivalOrder ==
    [][/\ Cardinality(NewGot) <= 1
       /\ \A g \in Gets : (gst[g] = "pending" /\ gst'[g] = "ok") =>
              \A v \in Gets : v < g => gst[v] # "pending"
       /\ \A p \in Puts : (pst[p] = "pending" /\ pst'[p] = "ok") =>
              \A v \in Puts : v < p => pst[v] # "pending"]_vars
(* finished operations never change again *)
Sticky ==
    [][/\ \A p \in Puts : pst[p] \notin {"idle", "pending"} => (pst'[p] = pst[p] /\ pitem'[p] = pitem[p])
       /\ \A g \in Gets : gst[g] \notin {"idle", "pending"} => (gst'[g] = gst[g] /\ gval'[g] = gval[g])
       /\ \A j \in Joins : jst[j] \notin {"idle", "pending"} => jst'[j] = jst[j]]_vars
(* timed-out / cancelled operations and failed calls have no effect on the queue *)
NoEffect ==
    [][(step'.act \in {"advance", "cancel_put", "cancel_get", "cancel_join"} \/ err' # "none") =>
          /\ UNCHANGED <<items, unfinished, ndone, gval>>
          /\ \A p \in Puts : pst'[p] # pst[p] => pst'[p] \in {"timedout", "cancelled", "full"}
          /\ \A g \in Gets : gst'[g] # gst[g] => gst'[g] \in {"timedout", "cancelled", "empty"}
          /\ \A j \in Joins : jst'[j] # jst[j] => jst'[j] \in {"timedout", "cancelled"}]_vars
(* which calls raise *)
Raises ==
    [][/\ (step'.act = "task_done" => (err' = "ValueError" <=> unfinished = 0))
       /\ (step'.act = "put_nowait" => (err' = "QueueFull" <=> (Full(items) /\ getters = <<>>)))
       /\ (step'.act = "get_nowait" => (err' = "QueueEmpty" <=> (items = <<>> /\ putters = <<>>)))
       /\ (step'.act \notin {"task_done", "put_nowait", "get_nowait"} => err' = "none")]_vars

View == vars
=============================================================================
