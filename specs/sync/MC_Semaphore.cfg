SPECIFICATION Spec
CONSTANTS
  NW = 4
  Inits = {0, 1, 2}
  Kinds = {"sem", "bounded", "lock"}
  Timeouts = {0, 1, 2, 999}
  MaxAdvance = 2
  MaxValue = 3
CONSTRAINT StateBound
VIEW View
INVARIANT TypeOK
INVARIANT Conservation
INVARIANT NoOverGrant
INVARIANT NoIdlePermit
INVARIANT FifoGrants
INVARIANT QueueOrdered
INVARIANT GrantedOnce
INVARIANT DeadNeverGranted
PROPERTY Sticky
PROPERTY FailedReleaseNoEffect
PROPERTY GrantIsOldestLive
CHECK_DEADLOCK FALSE
