---------------------------- MODULE Trace_Semaphore ----------------------------
(* Validates traces recorded from the real tornado.locks objects against Semaphore.tla.
   One ndjson line per trace: {"id":n, "cfg":{"kind":..,"init":..}, "ev":[{"a":..,"args":[..],"obs":{..}}]}.
   Every event must be explained by the spec action of the same name with the logged
   arguments, and the projection of the spec state after the action must equal the logged
   observation.  All invariants of Semaphore are evaluated at every step. *)
EXTENDS Semaphore, Json, IOUtils, TLCExt
Traces == ndJsonDeserialize(IOEnv.TRACE_FILE)
Verbose == IOEnv.TRACE_VERBOSE = "1"
VARIABLES tid, l
Ev == Traces[tid].ev
TraceInit ==
    /\ tid \in 1..Len(Traces)
    /\ l = 1
    /\ InitWith([kind |-> Traces[tid].cfg.kind, init |-> Traces[tid].cfg.init])
IsEvent(a) == l <= Len(Ev) /\ Ev[l].a = a /\ l' = l + 1 /\ UNCHANGED tid
Bind == Proj' = Ev[l].obs
TrAcquire == IsEvent("acquire") /\ Acquire(Ev[l].args[1], Ev[l].args[2]) /\ Bind
TrRelease == IsEvent("release") /\ Release /\ Bind
TrAdvance == IsEvent("advance") /\ Advance(Ev[l].args[1]) /\ Bind
TrCancel  == IsEvent("cancel") /\ Cancel(Ev[l].args[1]) /\ Bind
TraceNext == TrAcquire \/ TrRelease \/ TrAdvance \/ TrCancel
TraceSpec == TraceInit /\ [][TraceNext]_<<vars, step, tid, l>>
Report == IF Verbose THEN PrintT(<<"AT", Traces[tid].id, l>>)
          ELSE (l = Len(Ev) + 1 => PrintT(<<"ACCEPT", Traces[tid].id>>))
=============================================================================
