SPECIFICATION TraceSpec
CONSTANTS
  NW = 8
  Kinds = {"cond"}
  Timeouts = {0}
  MaxAdvance = 1
  MaxNotify = 1
CONSTRAINT Report
INVARIANT TypeOK
INVARIANT QueueIsPending
INVARIANT WokenInArrivalOrder
INVARIANT WokenAreTrue
INVARIANT SetMeansNoWaiter
INVARIANT EventIff
INVARIANT NoResidue
PROPERTY NotifyExact
PROPERTY FalseOnlyByTimeout
PROPERTY Sticky
PROPERTY TimeoutOnlyByDeadline
PROPERTY ExpiryNoSideEffect
CHECK_DEADLOCK FALSE
