---------------------------- MODULE Semaphore ----------------------------
(***************************************************************************)
(* Sequential reference model of tornado.locks.Semaphore /                 *)
(* BoundedSemaphore / Lock (property C33).                                 *)
(*                                                                         *)
(* One action = one public call (or one clock advance, or one cancel of a  *)
(* pending acquire future) followed by running the event loop to           *)
(* quiescence at the current instant.  Waiter ids are the serial numbers   *)
(* of acquire calls, so arrival order = id order.  Time is relative: rem[w]*)
(* is the time left before waiter w's deadline (NoDl = no deadline).       *)
(***************************************************************************)
EXTENDS Integers, Sequences, FiniteSets, TLC

CONSTANTS NW,          \* acquire calls are numbered 1..NW
          Inits,       \* initial values explored
          Kinds,       \* subset of {"sem", "bounded", "lock"}
          Timeouts,    \* relative timeouts offered to Acquire; NoTo = no timeout
          MaxAdvance,  \* largest single clock step
          MaxValue     \* bound on value for plain semaphores (state constraint only)

NoTo == 999
NoDl == 999
Waiters == 1..NW

VARIABLES cfg,     \* [kind, init] - fixed during a behaviour
          value,   \* free permits
          q,       \* live pending waiters, arrival order
          st,      \* st[w] \in {"idle","pending","granted","timedout","cancelled"}
          rem,     \* time to deadline for pending waiters
          grants,  \* waiter ids in the order they were granted
          rel,     \* number of successful release() calls (history, determined by the rest)
          err,     \* exception class of the last call ("none" if it returned)
          step     \* observation of the last step: [act, args, exp]

vars == <<cfg, value, q, st, rem, grants, rel, err>>

Proj == [st |-> st, grants |-> grants, err |-> err]
Obs(a, args) == [act |-> a, args |-> args, exp |-> Proj']

Remove(s, dead) == SelectSeq(s, LAMBDA x : x \notin dead)

InitWith(c) ==
    /\ cfg = c
    /\ value = c.init
    /\ q = <<>>
    /\ st = [w \in Waiters |-> "idle"]
    /\ rem = [w \in Waiters |-> NoDl]
    /\ grants = <<>>
    /\ rel = 0
    /\ err = "none"
    /\ step = [act |-> "init", args |-> <<>>, exp |-> [st |-> st, grants |-> grants, err |-> err]]

InitState == \E c \in [kind : Kinds, init : Inits] : (c.kind = "lock" => c.init = 1) /\ InitWith(c)

(* acquire(timeout): to = NoTo means no timeout; to = 0 expires within the same settle *)
Acquire(w, to) ==
    /\ st[w] = "idle"
    /\ \A v \in Waiters : v < w => st[v] # "idle"
    /\ IF value > 0
         THEN /\ value' = value - 1
              /\ st' = [st EXCEPT ![w] = "granted"]
              /\ grants' = Append(grants, w)
              /\ UNCHANGED <<q, rem>>
         ELSE IF to = 0
           THEN /\ st' = [st EXCEPT ![w] = "timedout"]
                /\ UNCHANGED <<value, q, rem, grants>>
           ELSE /\ q' = Append(q, w)
                /\ st' = [st EXCEPT ![w] = "pending"]
                /\ rem' = [rem EXCEPT ![w] = IF to = NoTo THEN NoDl ELSE to]
                /\ UNCHANGED <<value, grants>>
    /\ err' = "none"
    /\ UNCHANGED <<cfg, rel>>
    /\ step' = Obs("acquire", <<w, to>>)

Release ==
    /\ IF cfg.kind # "sem" /\ value >= cfg.init
         THEN /\ err' = (IF cfg.kind = "lock" THEN "RuntimeError" ELSE "ValueError")
              /\ UNCHANGED <<value, q, st, rem, grants, rel>>
         ELSE /\ err' = "none"
              /\ rel' = rel + 1
              /\ IF q # <<>>
                   THEN /\ st' = [st EXCEPT ![Head(q)] = "granted"]
                        /\ rem' = [rem EXCEPT ![Head(q)] = NoDl]
                        /\ grants' = Append(grants, Head(q))
                        /\ q' = Tail(q)
                        /\ UNCHANGED value
                   ELSE /\ value' = value + 1
                        /\ UNCHANGED <<q, st, rem, grants>>
    /\ UNCHANGED cfg
    /\ step' = Obs("release", <<>>)

HasDeadline == \E w \in Waiters : st[w] = "pending" /\ rem[w] # NoDl

Advance(d) ==
    /\ HasDeadline
    /\ LET expired == {w \in Waiters : st[w] = "pending" /\ rem[w] # NoDl /\ rem[w] <= d} IN
       /\ st' = [w \in Waiters |-> IF w \in expired THEN "timedout" ELSE st[w]]
       /\ rem' = [w \in Waiters |-> IF w \in expired THEN NoDl
                                    ELSE IF st[w] = "pending" /\ rem[w] # NoDl THEN rem[w] - d ELSE rem[w]]
       /\ q' = Remove(q, expired)
    /\ err' = "none"
    /\ UNCHANGED <<cfg, value, grants, rel>>
    /\ step' = Obs("advance", <<d>>)

Cancel(w) ==
    /\ st[w] = "pending"
    /\ st' = [st EXCEPT ![w] = "cancelled"]
    /\ rem' = [rem EXCEPT ![w] = NoDl]
    /\ q' = Remove(q, {w})
    /\ err' = "none"
    /\ UNCHANGED <<cfg, value, grants, rel>>
    /\ step' = Obs("cancel", <<w>>)

Next ==
    \/ \E w \in Waiters, to \in Timeouts : Acquire(w, to)
    \/ Release
    \/ \E d \in 1..MaxAdvance : Advance(d)
    \/ \E w \in Waiters : Cancel(w)

Spec == InitState /\ [][Next]_<<vars, step>>

----------------------------------------------------------------------------
(* Properties (C33) *)

TypeOK ==
    /\ value \in Nat
    /\ st \in [Waiters -> {"idle", "pending", "granted", "timedout", "cancelled"}]
    /\ \A i \in 1..Len(q) : st[q[i]] = "pending"
    /\ \A w \in Waiters : st[w] = "pending" => \E i \in 1..Len(q) : q[i] = w

Outstanding == Len(grants) - rel          \* granted and not yet released (may go negative for a plain semaphore)

Conservation == value = cfg.init + rel - Len(grants)
NoOverGrant  == cfg.kind # "sem" => (Outstanding <= cfg.init /\ value <= cfg.init)
NoIdlePermit == value > 0 => q = <<>>
\* stated over adjacent pairs (equivalent by transitivity of <; linear instead of quadratic so that
\* trace validation with > 100 waiters stays cheap)
FifoGrants   == \A i \in 1..(Len(grants) - 1) : grants[i] < grants[i + 1]
QueueOrdered == \A i \in 1..(Len(q) - 1) : q[i] < q[i + 1]
GrantedOnce  == \A i \in 1..(Len(grants) - 1) : grants[i] # grants[i + 1]
DeadNeverGranted == \A i \in 1..Len(grants) : st[grants[i]] = "granted"

(* a waiter that timed out, was cancelled or was granted never changes state again *)
Sticky == [][\A w \in Waiters : st[w] \in {"timedout", "cancelled", "granted"} => st'[w] = st[w]]_vars
(* a release that raises changes nothing *)
FailedReleaseNoEffect == [][err' # "none" => UNCHANGED <<value, q, st, grants>>]_vars
(* grants skip only dead waiters: when w is granted by a release it was the oldest live waiter *)
GrantIsOldestLive == [][\A w \in Waiters : (st[w] = "pending" /\ st'[w] = "granted") =>
                            \A v \in Waiters : v < w => st[v] # "pending"]_vars

StateBound == value <= MaxValue
View == vars
=============================================================================
