---------------------------- MODULE Trace_Queue ----------------------------
(* Validates traces recorded from the real tornado.queues objects against Queue.tla.
   One ndjson line per trace: {"id":n, "cfg":{"kind":..,"maxsize":..}, "ev":[{"a":..,"args":[..],"obs":{..}}]}.
   Every event must be explained by the spec action of the same name with the logged
   arguments, and the projection of the spec state after the action must equal the logged
   observation.  All invariants / action properties of Queue are evaluated at every step. *)
EXTENDS Queue, Json, IOUtils, TLCExt
Traces == ndJsonDeserialize(IOEnv.TRACE_FILE)
Verbose == IOEnv.TRACE_VERBOSE = "1"
VARIABLES tid, l
Ev == Traces[tid].ev
TraceInit ==
    /\ tid \in 1..Len(Traces)
    /\ l = 1
    /\ InitWith([kind |-> Traces[tid].cfg.kind, maxsize |-> Traces[tid].cfg.maxsize])
IsEvent(a) == l <= Len(Ev) /\ Ev[l].a = a /\ l' = l + 1 /\ UNCHANGED tid
Bind == Proj' = Ev[l].obs
A(i) == Ev[l].args[i]
TrPut        == IsEvent("put") /\ Put(A(1), A(2), A(3)) /\ Bind
TrPutNowait  == IsEvent("put_nowait") /\ PutNowait(A(1), A(2)) /\ Bind
TrGet        == IsEvent("get") /\ Get(A(1), A(2)) /\ Bind
TrGetNowait  == IsEvent("get_nowait") /\ GetNowait(A(1)) /\ Bind
TrTaskDone   == IsEvent("task_done") /\ TaskDone /\ Bind
TrJoin       == IsEvent("join") /\ Join(A(1), A(2)) /\ Bind
TrAdvance    == IsEvent("advance") /\ Advance(A(1)) /\ Bind
TrCancelPut  == IsEvent("cancel_put") /\ CancelPut(A(1)) /\ Bind
TrCancelGet  == IsEvent("cancel_get") /\ CancelGet(A(1)) /\ Bind
TrCancelJoin == IsEvent("cancel_join") /\ CancelJoin(A(1)) /\ Bind
TraceNext == TrPut \/ TrPutNowait \/ TrGet \/ TrGetNowait \/ TrTaskDone \/ TrJoin \/ TrAdvance
             \/ TrCancelPut \/ TrCancelGet \/ TrCancelJoin
TraceSpec == TraceInit /\ [][TraceNext]_<<vars, step, tid, l>>
Report == IF Verbose THEN PrintT(<<"AT", Traces[tid].id, l>>)
          ELSE (l = Len(Ev) + 1 => PrintT(<<"ACCEPT", Traces[tid].id>>))
=============================================================================
