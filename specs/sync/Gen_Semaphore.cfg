SPECIFICATION GenSpec
CONSTANTS
  NW = 4
  Inits = {0, 1, 2}
  Kinds = {"sem", "bounded", "lock"}
  Timeouts = {0, 1, 999}
  MaxAdvance = 2
  MaxValue = 3
  L = 4
CONSTRAINT GenBound
CHECK_DEADLOCK FALSE
