---------------------------- MODULE Trace_CondEvent ----------------------------
(* Validates traces recorded from the real tornado.locks.Condition / Event against CondEvent.tla.
   One ndjson line per trace: {"id":n, "cfg":{"kind":..}, "ev":[{"a":..,"args":[..],"obs":{..}}]}.
   Every event must be explained by the spec action of the same name with the logged
   arguments, and the projection of the spec state after the action must equal the logged
   observation.  All invariants / action properties of CondEvent are evaluated at every step. *)
EXTENDS CondEvent, Json, IOUtils, TLCExt
Traces == ndJsonDeserialize(IOEnv.TRACE_FILE)
Verbose == IOEnv.TRACE_VERBOSE = "1"
VARIABLES tid, l
Ev == Traces[tid].ev
TraceInit ==
    /\ tid \in 1..Len(Traces)
    /\ l = 1
    /\ InitWith([kind |-> Traces[tid].cfg.kind])
IsEvent_(a) == l <= Len(Ev) /\ Ev[l].a = a /\ l' = l + 1 /\ UNCHANGED tid
Bind == Proj' = Ev[l].obs
TrWait      == IsEvent_("wait") /\ Wait(Ev[l].args[1], Ev[l].args[2]) /\ Bind
TrNotify    == IsEvent_("notify") /\ Notify(Ev[l].args[1]) /\ Bind
TrNotifyAll == IsEvent_("notify_all") /\ NotifyAll /\ Bind
TrEvWait    == IsEvent_("ev_wait") /\ EvWait(Ev[l].args[1], Ev[l].args[2]) /\ Bind
TrSet       == IsEvent_("set") /\ Set /\ Bind
TrClear     == IsEvent_("clear") /\ Clear /\ Bind
TrAdvance   == IsEvent_("advance") /\ Advance(Ev[l].args[1]) /\ Bind
TrCancel    == IsEvent_("cancel") /\ Cancel(Ev[l].args[1]) /\ Bind
TraceNext == TrWait \/ TrNotify \/ TrNotifyAll \/ TrEvWait \/ TrSet \/ TrClear \/ TrAdvance \/ TrCancel
TraceSpec == TraceInit /\ [][TraceNext]_<<vars, step, tid, l>>
Report == IF Verbose THEN PrintT(<<"AT", Traces[tid].id, l>>)
          ELSE (l = Len(Ev) + 1 => PrintT(<<"ACCEPT", Traces[tid].id>>))
=============================================================================
