---------------------------- MODULE LogFormat ----------------------------
(***************************************************************************)
(* C45 - tornado.log.LogFormatter.format never fails and cannot forge log  *)
(* entries.  Relational specification: the formatter's exact output        *)
(* (timestamps, colours, traceback text) is not modelled; the property is  *)
(* the relation LogOk between any record and the returned value: a str in  *)
(* which every LF is followed by four spaces of indentation.               *)
(*                                                                         *)
(* cfg  = the record shape: message type (str / bytes), %-arguments (incl.  *)
(*        a mapping lacking the referenced key and an object whose __str__ *)
(*        raises RuntimeError),                                            *)
(*        exception info, colour, level;  inp = the message text built     *)
(*        token by token (LF, CR LF, format directives, non-ASCII and      *)
(*        non-UTF-8 bytes, a forged "[E ..." line).                        *)
(***************************************************************************)
EXTENDS TextBase

CONSTANTS MaxTok, Forms, ArgKinds, ExcKinds, Colors

VARIABLES cfg, inp, n, step
vars == <<cfg, inp, n>>

Indent4 == <<32, 32, 32, 32>>
LogOk(obs) == /\ "v" \in DOMAIN obs                 \* returned a str (the adapter reports anything else as err)
              /\ \A i \in 1..Len(obs.v) : obs.v[i] = 10 => HasAt(obs.v, i + 1, Indent4)

(* model of the last line of LogFormatter.format: sufficient for the relation whatever precedes it *)
Indent(s) == CatMap(LAMBDA c : IF c = 10 THEN <<10>> \o Indent4 ELSE <<c>>, s)

Tokens == {<<97>>, <<10>>, <<13, 10>>, <<37, 115>>, <<37, 100>>, <<37>>, <<233>>, <<255>>,
           <<10, 91, 69, 32, 50, 53>>, <<37, 40, 107, 41, 115>>, <<37, 40, 120, 41, 115>>}
           \* a LF "\r\n" %s %d % e-acute 0xFF "\n[E 25" %(k)s (key missing from the dict argument) %(x)s (key present)

Ref(fn, x) == [rel |-> "LogOk"]
Fns == {"format"}
Results(x) == [fn \in Fns |-> Ref(fn, x)]
Accept(fn, x, obs) == LogOk(obs)

Obs(a, args) == [act |-> a, args |-> args, exp |-> Results(inp')]

InitWith(c) ==
    /\ cfg = c
    /\ inp = <<>>
    /\ n = 0
    /\ step = [act |-> "init", args |-> <<>>, exp |-> Results(inp)]
InitState == \E f \in Forms, a \in ArgKinds, e \in ExcKinds, c \in Colors :
                InitWith([form |-> f, args |-> a, exc |-> e, color |-> c])

Extend(tok) ==
    /\ n < MaxTok
    /\ tok \in Tokens
    /\ inp' = inp \o tok
    /\ n' = n + 1
    /\ UNCHANGED cfg
    /\ step' = Obs("extend", <<tok>>)

Next == \E tok \in Tokens : Extend(tok)
Spec == InitState /\ [][Next]_<<vars, step>>

T_IndentSuffices == LogOk([v |-> Indent(inp)])
View == vars
=============================================================================
