SPECIFICATION TraceSpec
CONSTANTS
  Kinds = {"num"}
  MaxDigits = 9
  Digits = {0}
CONSTRAINT Report
INVARIANT T_GroupReadsBack
CHECK_DEADLOCK FALSE
