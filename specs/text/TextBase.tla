---------------------------- MODULE TextBase ----------------------------
(***************************************************************************)
(* Shared pure operators of the `text` family (C21 C22 C43-C46 C48).       *)
(* Text is Seq(Nat) (Unicode code points), bytes are Seq(0..255); TLC      *)
(* cannot index strings, so literals are code-point tuples with the string *)
(* in a comment.  Per-character iteration uses the Java-backed FoldLeft.   *)
(***************************************************************************)
EXTENDS Integers, Sequences, FiniteSets, SequencesExt, TLC

Cat(ss) == FoldLeft(LAMBDA acc, x : acc \o x, <<>>, ss)
CatMap(f(_), s) == FoldLeft(LAMBDA acc, c : acc \o f(c), <<>>, s)
MapSeq(f(_), s) == [i \in 1..Len(s) |-> f(s[i])]

HasAt(s, i, pat) == /\ i >= 1
                    /\ i + Len(pat) - 1 <= Len(s)
                    /\ \A k \in 1..Len(pat) : s[i + k - 1] = pat[k]
StartsWith(s, pat) == HasAt(s, 1, pat)
EndsWith(s, pat) == Len(pat) <= Len(s) /\ HasAt(s, Len(s) - Len(pat) + 1, pat)
DropFirst(s, n) == IF n >= Len(s) THEN <<>> ELSE SubSeq(s, n + 1, Len(s))
TakeFirst(s, n) == IF n >= Len(s) THEN s ELSE SubSeq(s, 1, n)
Min2(a, b) == IF a < b THEN a ELSE b
Max2(a, b) == IF a > b THEN a ELSE b

(* first index of an element satisfying Test, 0 if none *)
FirstIdx(s, Test(_)) == LET I == {i \in 1..Len(s) : Test(s[i])} IN
                        IF I = {} THEN 0 ELSE CHOOSE i \in I : \A j \in I : i <= j
LastIdx(s, Test(_)) == LET I == {i \in 1..Len(s) : Test(s[i])} IN
                       IF I = {} THEN 0 ELSE CHOOSE i \in I : \A j \in I : i >= j
IndexOf(s, c) == FirstIdx(s, LAMBDA x : x = c)
LastIndexOf(s, c) == LastIdx(s, LAMBDA x : x = c)
Count(s, c) == Cardinality({i \in 1..Len(s) : s[i] = c})

(* split on a separator element: always at least one piece *)
Split(s, sep) == FoldLeft(LAMBDA acc, c : IF c = sep THEN Append(acc, <<>>)
                                          ELSE [acc EXCEPT ![Len(acc)] = Append(@, c)],
                          << <<>> >>, s)
(* split at the first occurrence: <<before, after, found>> *)
Partition(s, sep) == LET i == IndexOf(s, sep) IN
                     IF i = 0 THEN <<s, <<>>, FALSE>>
                     ELSE <<SubSeq(s, 1, i - 1), SubSeq(s, i + 1, Len(s)), TRUE>>
Join(ss, sep) == FoldLeft(LAMBDA acc, i : IF i = 1 THEN ss[i] ELSE acc \o sep \o ss[i],
                          <<>>, [i \in 1..Len(ss) |-> i])

----------------------------------------------------------------------------
(* character classes (ASCII) *)
IsDigit(c) == c >= 48 /\ c <= 57
IsUpper(c) == c >= 65 /\ c <= 90
IsLower(c) == c >= 97 /\ c <= 122
IsAlpha(c) == IsUpper(c) \/ IsLower(c)
IsAlnum(c) == IsAlpha(c) \/ IsDigit(c)
IsHex(c) == IsDigit(c) \/ (c >= 65 /\ c <= 70) \/ (c >= 97 /\ c <= 102)
HexVal(c) == IF IsDigit(c) THEN c - 48 ELSE IF c >= 97 THEN c - 87 ELSE c - 55
LowerC(c) == IF IsUpper(c) THEN c + 32 ELSE c
UpperC(c) == IF IsLower(c) THEN c - 32 ELSE c
LowerS(s) == MapSeq(LowerC, s)
UpperS(s) == MapSeq(UpperC, s)
IsAscii(s) == \A i \in 1..Len(s) : s[i] < 128

HexUpper == <<48,49,50,51,52,53,54,55,56,57,65,66,67,68,69,70>>       \* "0123456789ABCDEF"
Hex2(b) == <<HexUpper[(b \div 16) + 1], HexUpper[(b % 16) + 1]>>

(* decimal rendering of a natural number < 2^31 *)
NumDigits(n) == IF n < 10 THEN 1 ELSE IF n < 100 THEN 2 ELSE IF n < 1000 THEN 3
                ELSE IF n < 10000 THEN 4 ELSE IF n < 100000 THEN 5 ELSE IF n < 1000000 THEN 6
                ELSE IF n < 10000000 THEN 7 ELSE IF n < 100000000 THEN 8
                ELSE IF n < 1000000000 THEN 9 ELSE 10
Pow10(k) == CASE k = 0 -> 1 [] k = 1 -> 10 [] k = 2 -> 100 [] k = 3 -> 1000 [] k = 4 -> 10000
              [] k = 5 -> 100000 [] k = 6 -> 1000000 [] k = 7 -> 10000000 [] k = 8 -> 100000000
              [] k = 9 -> 1000000000
DecStr(n) == LET nd == NumDigits(n) IN [i \in 1..nd |-> 48 + ((n \div Pow10(nd - i)) % 10)]
(* zero-padded to width w (n must fit) *)
DecPad(n, w) == [i \in 1..w |-> 48 + ((n \div Pow10(w - i)) % 10)]
AllDigits(s) == \A i \in 1..Len(s) : IsDigit(s[i])
(* value of a digit string (no overflow check beyond 9 digits: callers bound the length) *)
DecVal(s) == FoldLeft(LAMBDA acc, c : acc * 10 + (c - 48), 0, s)

----------------------------------------------------------------------------
(* civil dates (proleptic Gregorian, days since 1970-01-01) *)
DayNames == <<<<83,117,110>>, <<77,111,110>>, <<84,117,101>>, <<87,101,100>>, <<84,104,117>>, <<70,114,105>>, <<83,97,116>>>>
MonNames == <<<<74,97,110>>, <<70,101,98>>, <<77,97,114>>, <<65,112,114>>, <<77,97,121>>, <<74,117,110>>,
              <<74,117,108>>, <<65,117,103>>, <<83,101,112>>, <<79,99,116>>, <<78,111,118>>, <<68,101,99>>>>
W_GMT == <<32, 71, 77, 84>>
Civil(days) ==
    LET z == days + 719468
        era == z \div 146097
        doe == z - era * 146097
        yoe == (doe - doe \div 1460 + doe \div 36524 - doe \div 146096) \div 365
        doy == doe - (365 * yoe + yoe \div 4 - yoe \div 100)
        mp == (5 * doy + 2) \div 153
        d == doy - (153 * mp + 2) \div 5 + 1
        m == IF mp < 10 THEN mp + 3 ELSE mp - 9
        y == yoe + era * 400 + (IF m <= 2 THEN 1 ELSE 0) IN
    [y |-> y, m |-> m, d |-> d]
DaysFromCivil(y0, m, d) ==
    LET y == IF m <= 2 THEN y0 - 1 ELSE y0
        era == y \div 400
        yoe == y - era * 400
        doy == (153 * (IF m > 2 THEN m - 3 ELSE m + 9) + 2) \div 5 + d - 1
        doe == yoe * 365 + yoe \div 4 - yoe \div 100 + doy IN
    era * 146097 + doe - 719468
IsLeap(y) == (y % 4 = 0 /\ y % 100 # 0) \/ y % 400 = 0
DaysIn(y, m) == IF m = 2 THEN (IF IsLeap(y) THEN 29 ELSE 28) ELSE IF m \in {4, 6, 9, 11} THEN 30 ELSE 31
RECURSIVE Gcd(_, _)
Gcd(a, b) == IF b = 0 THEN a ELSE Gcd(b, a % b)

----------------------------------------------------------------------------
(* UTF-8 (RFC 3629): code points 0..10FFFF without surrogates *)
IsScalar(c) == c >= 0 /\ c <= 1114111 /\ ~(c >= 55296 /\ c <= 57343)
Utf8Char(c) ==
    IF c < 128 THEN <<c>>
    ELSE IF c < 2048 THEN <<192 + (c \div 64), 128 + (c % 64)>>
    ELSE IF c < 65536 THEN <<224 + (c \div 4096), 128 + ((c \div 64) % 64), 128 + (c % 64)>>
    ELSE <<240 + (c \div 262144), 128 + ((c \div 4096) % 64), 128 + ((c \div 64) % 64), 128 + (c % 64)>>
Utf8Enc(t) == CatMap(Utf8Char, t)

Utf8Step(st, b) ==
    IF ~st.ok THEN st
    ELSE IF st.need = 0 THEN
        IF b < 128 THEN [st EXCEPT !.out = Append(@, b)]
        ELSE IF b >= 194 /\ b <= 223 THEN [st EXCEPT !.need = 1, !.cp = b - 192, !.lo = 128, !.hi = 191]
        ELSE IF b = 224 THEN [st EXCEPT !.need = 2, !.cp = 0, !.lo = 160, !.hi = 191]
        ELSE IF b = 237 THEN [st EXCEPT !.need = 2, !.cp = 13, !.lo = 128, !.hi = 159]
        ELSE IF b >= 225 /\ b <= 239 THEN [st EXCEPT !.need = 2, !.cp = b - 224, !.lo = 128, !.hi = 191]
        ELSE IF b = 240 THEN [st EXCEPT !.need = 3, !.cp = 0, !.lo = 144, !.hi = 191]
        ELSE IF b >= 241 /\ b <= 243 THEN [st EXCEPT !.need = 3, !.cp = b - 240, !.lo = 128, !.hi = 191]
        ELSE IF b = 244 THEN [st EXCEPT !.need = 3, !.cp = 4, !.lo = 128, !.hi = 143]
        ELSE [st EXCEPT !.ok = FALSE]
    ELSE IF b >= st.lo /\ b <= st.hi THEN
        LET cp == st.cp * 64 + (b - 128) IN
        IF st.need = 1 THEN [st EXCEPT !.need = 0, !.cp = 0, !.out = Append(@, cp), !.lo = 128, !.hi = 191]
        ELSE [st EXCEPT !.need = @ - 1, !.cp = cp, !.lo = 128, !.hi = 191]
    ELSE [st EXCEPT !.ok = FALSE]
Utf8Run(bs) == FoldLeft(Utf8Step, [ok |-> TRUE, out |-> <<>>, need |-> 0, cp |-> 0, lo |-> 128, hi |-> 191], bs)
Utf8Valid(bs) == LET r == Utf8Run(bs) IN r.ok /\ r.need = 0
Utf8Dec(bs) == Utf8Run(bs).out          \* meaningful only when Utf8Valid(bs)

----------------------------------------------------------------------------
(* HTML *)
E_amp  == <<38,97,109,112,59>>        \* "&amp;"
E_lt   == <<38,108,116,59>>           \* "&lt;"
E_gt   == <<38,103,116,59>>           \* "&gt;"
E_quot == <<38,113,117,111,116,59>>   \* "&quot;"
E_apos == <<38,35,120,50,55,59>>      \* "&#x27;"
Entities == <<E_amp, E_lt, E_gt, E_quot, E_apos>>
EntChar  == <<38, 60, 62, 34, 39>>
HtmlEscChar(c) == CASE c = 38 -> E_amp [] c = 60 -> E_lt [] c = 62 -> E_gt
                    [] c = 34 -> E_quot [] c = 39 -> E_apos [] OTHER -> <<c>>
HtmlEscape(t) == CatMap(HtmlEscChar, t)

(* no raw markup character, and every '&' starts one of the five entities *)
HtmlSafe(s) == \A i \in 1..Len(s) :
                  /\ s[i] \notin {60, 62, 34, 39}
                  /\ s[i] = 38 => \E e \in 1..5 : HasAt(s, i, Entities[e])

----------------------------------------------------------------------------
(* percent-encoding of a byte sequence; bytes in `safe` are kept *)
Unreserved == (48..57) \cup (65..90) \cup (97..122) \cup {45, 46, 95, 126}     \* ALPHA DIGIT - . _ ~
PctByte(b, safe) == IF b \in safe THEN <<b>> ELSE <<37>> \o Hex2(b)
PctEncode(bs, safe) == CatMap(LAMBDA b : PctByte(b, safe), bs)

(* percent-decoding as urllib.parse.unquote_to_bytes: a '%' followed by two hex digits is a
   byte, any other '%' is kept literally *)
UnqStep(st, c) ==
    LET flush == st.out \o st.pend IN
    IF Len(st.pend) = 0 THEN
        IF c = 37 THEN [st EXCEPT !.pend = <<37>>] ELSE [st EXCEPT !.out = Append(@, c)]
    ELSE IF Len(st.pend) = 1 THEN
        IF IsHex(c) THEN [st EXCEPT !.pend = <<37, c>>]
        ELSE IF c = 37 THEN [out |-> flush, pend |-> <<37>>]
        ELSE [out |-> Append(flush, c), pend |-> <<>>]
    ELSE
        IF IsHex(c) THEN [out |-> Append(st.out, HexVal(st.pend[2]) * 16 + HexVal(c)), pend |-> <<>>]
        ELSE IF c = 37 THEN [out |-> flush, pend |-> <<37>>]
        ELSE [out |-> Append(flush, c), pend |-> <<>>]
PctDecode(bs) == LET r == FoldLeft(UnqStep, [out |-> <<>>, pend |-> <<>>], bs) IN r.out \o r.pend
PlusToSpace(s) == MapSeq(LAMBDA c : IF c = 43 THEN 32 ELSE c, s)

(* query strings: urllib.parse.parse_qsl on bytes - pairs <<name, value>> of decoded bytes;
   keep = keep_blank_values *)
QsDecode(s) == PctDecode(PlusToSpace(s))
QsPairs(b, keep) ==
    LET stp(acc, seg) ==
          IF seg = <<>> THEN acc
          ELSE LET p == Partition(seg, 61) IN
               IF ~p[3] THEN (IF keep THEN Append(acc, <<QsDecode(seg), <<>>>>) ELSE acc)
               ELSE IF Len(p[2]) > 0 \/ keep THEN Append(acc, <<QsDecode(p[1]), QsDecode(p[2])>>)
               ELSE acc
    IN FoldLeft(stp, <<>>, Split(b, 38))

(* lexicographic order on integer sequences *)
SeqLess(a, b) == \E k \in 1..(Min2(Len(a), Len(b)) + 1) :
                    /\ \A j \in 1..(k - 1) : a[j] = b[j]
                    /\ IF k > Len(a) THEN k <= Len(b)
                       ELSE k <= Len(b) /\ a[k] < b[k]
SeqLeq(a, b) == a = b \/ SeqLess(a, b)
=============================================================================
