SPECIFICATION TraceSpec
CONSTANTS
  MaxTok = 0
  Forms = {"str"}
  ArgKinds = {"none"}
  ExcKinds = {"none"}
  Colors = {FALSE}
CONSTRAINT Report
INVARIANT T_IndentSuffices
CHECK_DEADLOCK FALSE
