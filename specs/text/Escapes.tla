---------------------------- MODULE Escapes ----------------------------
(***************************************************************************)
(* C21 - escaping and encoding helpers of tornado.escape are safe and      *)
(* invertible.  Function-like specification: the state is an input built   *)
(* token by token (`inp`, of the kind fixed in `cfg`), `step.exp` is the   *)
(* record of reference results of every helper applicable to that input.  *)
(* The theorems of the property are invariants over `inp`.                 *)
(*                                                                         *)
(* kinds:  html  text for xhtml_escape / xhtml_unescape / utf8             *)
(*         url   text for url_escape / url_unescape (both plus modes)      *)
(*         utf8  bytes for to_unicode / utf8 / recursive_unicode /         *)
(*               url_escape(bytes) and the bytes round trip                *)
(*         qs    bytes for parse_qs_bytes                                  *)
(*         qsp   name/value pairs of arbitrary bytes (256 separates pairs, *)
(*               257 separates name and value) for the preservation theorem*)
(*         types non-str/bytes arguments (type tag numbers) for utf8 /      *)
(*               to_unicode                                                *)
(*         json  JSON values (records [k, v]) for json_encode              *)
(***************************************************************************)
EXTENDS TextBase

CONSTANTS Kinds,      \* kinds explored
          MaxTok      \* number of tokens per input

VARIABLES cfg, inp, n, step
vars == <<cfg, inp, n>>

----------------------------------------------------------------------------
(* HTML: HtmlEscape, Entities, HtmlSafe are defined in TextBase *)

(* inverse restricted to the five entities (the real xhtml_unescape is html.unescape) *)
HtmlUnescape5(s) ==
    LET stp(st, i) ==
          IF st.skip > 0 THEN [st EXCEPT !.skip = @ - 1]
          ELSE IF s[i] = 38 /\ \E e \in 1..5 : HasAt(s, i, Entities[e])
               THEN LET e == CHOOSE e \in 1..5 : HasAt(s, i, Entities[e]) IN
                    [out |-> Append(st.out, EntChar[e]), skip |-> Len(Entities[e]) - 1]
               ELSE [st EXCEPT !.out = Append(@, s[i])]
    IN FoldLeft(stp, [out |-> <<>>, skip |-> 0], [i \in 1..Len(s) |-> i]).out

----------------------------------------------------------------------------
(* URL quoting (urllib.parse.quote / quote_plus as selected by url_escape) *)
UrlQuote(bs, plus) ==
    IF plus THEN MapSeq(LAMBDA c : IF c = 32 THEN 43 ELSE c,
                        PctEncode(bs, Unreserved \cup {32}))
            ELSE PctEncode(bs, Unreserved \cup {47})
(* url_unescape(value, encoding=None, plus) on text *)
UrlUnquoteBytes(t, plus) == PctDecode(Utf8Enc(IF plus THEN PlusToSpace(t) ELSE t))
(* url_unescape(value, plus) on text: defined when the decoded bytes are UTF-8 *)
UrlUnquoteOk(t, plus) == Utf8Valid(UrlUnquoteBytes(t, plus))
UrlUnquoteText(t, plus) == Utf8Dec(UrlUnquoteBytes(t, plus))

----------------------------------------------------------------------------
(* query strings: urllib.parse.parse_qs semantics as used by parse_qs_bytes *)
(* QsDecode / QsPairs are defined in TextBase *)
(* dict of lists in first-occurrence order *)
Group(pairs) ==
    LET stp(acc, p) ==
          LET i == FirstIdx(acc, LAMBDA e : e.k = p[1]) IN
          IF i = 0 THEN Append(acc, [k |-> p[1], vs |-> <<p[2]>>])
          ELSE [acc EXCEPT ![i].vs = Append(@, p[2])]
    IN FoldLeft(stp, <<>>, pairs)
ParseQs(b, keep) == Group(QsPairs(b, keep))

(* qsp inputs: 256 separates pairs, 257 separates name from value *)
PairsOf(x) == IF x = <<>> THEN <<>> ELSE
              MapSeq(LAMBDA seg : LET p == Partition(seg, 257) IN <<p[1], p[2]>>, Split(x, 256))
EncodeQs(pairs) == Join(MapSeq(LAMBDA p : PctEncode(p[1], {}) \o <<61>> \o PctEncode(p[2], {}), pairs), <<38>>)

----------------------------------------------------------------------------
(* JSON values: [k |-> "str", v |-> code points] | [k |-> "int", v |-> i] | [k |-> "bool", v |-> b] |
   [k |-> "null", v |-> 0] | [k |-> "list", v |-> <<values>>] | [k |-> "dict", v |-> <<[key, val]>>] *)
RECURSIVE JDepth(_)
JDepth(x) == IF x.k = "list" THEN 1 + (IF x.v = <<>> THEN 0 ELSE JDepth(x.v[1]))
             ELSE IF x.k = "dict" THEN 1 + (IF x.v = <<>> THEN 0 ELSE JDepth(x.v[1].val))
             ELSE 0
NoLtSlash(s) == \A i \in 1..(Len(s) - 1) : ~(s[i] = 60 /\ s[i + 1] = 47)
JsonOk(obs) == obs.eq = TRUE /\ NoLtSlash(obs.out)

----------------------------------------------------------------------------
(* tokens per kind *)
Chars(S) == {<<c>> : c \in S}
Tokens(k) ==
    CASE k = "html" -> Chars({97, 60, 62, 38, 34, 39, 59, 35, 233, 128512})
                         \cup {<<97,109,112>>, <<108,116>>, <<120,50,55>>}                  \* amp lt x27
      [] k = "url"  -> Chars({97, 32, 43, 37, 47, 126, 233, 38, 61, 128512})
                         \cup {<<52,49>>, <<37,67,51>>, <<37,65,57>>, <<50,66>>, <<122>>}   \* 41 %C3 %A9 2B z
      [] k = "utf8" -> Chars({60, 38, 128, 169, 195, 226, 240, 159, 237, 160, 192, 244})
      [] k = "qs"   -> Chars({97, 61, 38, 43, 37, 233})
                         \cup {<<37,52,49>>, <<37,50,54>>, <<98,61>>, <<38,97,61>>}         \* %41 %26 b= &a=
      [] k = "qsp"  -> Chars({97, 61, 38, 43, 37, 0, 233, 255, 256, 257})
      [] k = "types" -> Chars(1..8)      \* 1 int 2 float 3 list 4 dict 5 tuple 6 bytearray 7 object 8 None
      [] k = "json" -> Chars({60, 47, 92, 34, 8232, 128512, 97})
JLeaves == {[k |-> "int", v |-> 7], [k |-> "bool", v |-> TRUE], [k |-> "null", v |-> 0],
            [k |-> "str", v |-> <<60, 47>>]}

Bool(b) == IF b THEN 1 ELSE 0

(* reference result of helper fn for input x (fn names are the adapters of harness/text_driver.py) *)
Dec3(x) == IF Utf8Valid(x) THEN [v |-> <<Utf8Dec(x), Utf8Dec(x), Utf8Dec(x)>>] ELSE [err |-> "UnicodeDecodeError"]
Ref(fn, x) ==
    CASE fn = "xhtml_escape"      -> [v |-> HtmlEscape(x)]
      [] fn = "xhtml_escape_u8"   -> [v |-> HtmlEscape(x)]       \* the same text passed as UTF-8 bytes
      [] fn = "xhtml_roundtrip"   -> [v |-> x]                   \* xhtml_unescape(xhtml_escape(x))
      [] fn = "utf8"              -> [v |-> Utf8Enc(x)]
      [] fn = "utf8_roundtrip"    -> [v |-> x]                   \* to_unicode(utf8(x))
      [] fn = "url_escape_p"      -> [v |-> UrlQuote(Utf8Enc(x), TRUE)]
      [] fn = "url_escape_n"      -> [v |-> UrlQuote(Utf8Enc(x), FALSE)]
      [] fn = "url_roundtrip_p"   -> [v |-> x]                   \* url_unescape(url_escape(x, plus), plus=plus)
      [] fn = "url_roundtrip_n"   -> [v |-> x]
      [] fn = "url_unescape_bytes_p" -> [v |-> UrlUnquoteBytes(x, TRUE)]
      [] fn = "url_unescape_bytes_n" -> [v |-> UrlUnquoteBytes(x, FALSE)]
      [] fn = "url_unescape_p"    -> IF UrlUnquoteOk(x, TRUE) THEN [v |-> UrlUnquoteText(x, TRUE)] ELSE [anystr |-> 1]
      [] fn = "url_unescape_n"    -> IF UrlUnquoteOk(x, FALSE) THEN [v |-> UrlUnquoteText(x, FALSE)] ELSE [anystr |-> 1]
      [] fn = "to_unicode"        -> IF Utf8Valid(x) THEN [v |-> Utf8Dec(x)] ELSE [err |-> "UnicodeDecodeError"]
      [] fn = "utf8_b"            -> [v |-> x]
      [] fn = "xhtml_escape_b"    -> IF Utf8Valid(x) THEN [v |-> HtmlEscape(Utf8Dec(x))] ELSE [err |-> "UnicodeDecodeError"]
      [] fn = "recursive_unicode" -> Dec3(x)
      [] fn = "url_escape_b_p"    -> [v |-> UrlQuote(x, TRUE)]
      [] fn = "url_escape_b_n"    -> [v |-> UrlQuote(x, FALSE)]
      [] fn = "url_roundtrip_b_p" -> [v |-> x]                   \* url_unescape(url_escape(x, plus), None, plus)
      [] fn = "url_roundtrip_b_n" -> [v |-> x]
      [] fn = "parse_qs_keep"     -> [v |-> ParseQs(x, TRUE)]
      [] fn = "parse_qs_drop"     -> [v |-> ParseQs(x, FALSE)]
      [] fn = "qs_pairs_roundtrip" -> [v |-> Group(PairsOf(x))]  \* parse_qs_bytes(every byte quoted, keep blank)
      [] fn = "utf8_type"         -> IF x = <<8>> THEN [v |-> <<"none">>] ELSE [err |-> "TypeError"]
      [] fn = "to_unicode_type"   -> IF x = <<8>> THEN [v |-> <<"none">>] ELSE [err |-> "TypeError"]
      [] fn = "json_encode"       -> [rel |-> "JsonOk"]          \* relational: see Accept
Fns(k) ==
    CASE k = "html"  -> {"xhtml_escape", "xhtml_escape_u8", "xhtml_roundtrip", "utf8", "utf8_roundtrip"}
      [] k = "url"   -> {"url_escape_p", "url_escape_n", "url_roundtrip_p", "url_roundtrip_n",
                         "url_unescape_bytes_p", "url_unescape_bytes_n", "url_unescape_p", "url_unescape_n",
                         "utf8", "utf8_roundtrip"}
      [] k = "utf8"  -> {"to_unicode", "utf8_b", "xhtml_escape_b", "recursive_unicode", "url_escape_b_p",
                         "url_escape_b_n", "url_roundtrip_b_p", "url_roundtrip_b_n"}
      [] k = "qs"    -> {"parse_qs_keep", "parse_qs_drop"}
      [] k = "qsp"   -> {"qs_pairs_roundtrip"}
      [] k = "types" -> {"utf8_type", "to_unicode_type"}
      [] k = "json"  -> {"json_encode"}
Results(k, x) == [fn \in (IF k = "types" /\ x = <<>> THEN {} ELSE Fns(k)) |-> Ref(fn, x)]

(* does the observation of the real helper agree with the specification?  (used by Trace_Escapes) *)
Accept(fn, x, obs) ==
    IF fn = "json_encode" THEN JsonOk(obs)
    ELSE LET r == Ref(fn, x) IN
         IF "anystr" \in DOMAIN r THEN "v" \in DOMAIN obs ELSE obs = r

----------------------------------------------------------------------------
Obs(a, args) == [act |-> a, args |-> args, exp |-> Results(cfg'.kind, inp')]

InitWith(c) ==
    /\ cfg = c
    /\ inp = IF c.kind = "json" THEN [k |-> "str", v |-> <<>>] ELSE <<>>
    /\ n = 0
    /\ step = [act |-> "init", args |-> <<>>, exp |-> Results(c.kind, inp)]
InitState == \E k \in Kinds : InitWith([kind |-> k])

(* append one token to a flat input *)
Extend(tok) ==
    /\ cfg.kind # "json"
    /\ n < MaxTok
    /\ tok \in Tokens(cfg.kind)
    /\ cfg.kind = "types" => n = 0
    /\ cfg.kind = "qsp" => LET last == Split(inp, 256)[Len(Split(inp, 256))] IN
                           /\ tok = <<257>> => IndexOf(last, 257) = 0
                           /\ tok = <<256>> => IndexOf(last, 257) # 0
    /\ inp' = inp \o tok
    /\ n' = n + 1
    /\ UNCHANGED cfg
    /\ step' = Obs("extend", <<tok>>)

(* JSON values are built inside-out; to keep the enumeration small, strings of <= 2 tokens are
   wrapped once and strings of <= 1 token twice *)
JWrappable == (JDepth(inp) = 0 /\ n <= 2) \/ (JDepth(inp) = 1 /\ n <= 1)
JExtend(tok) ==
    /\ cfg.kind = "json" /\ inp.k = "str" /\ n < MaxTok
    /\ tok \in Tokens("json")
    /\ inp' = [inp EXCEPT !.v = @ \o tok]
    /\ n' = n + 1 /\ UNCHANGED cfg
    /\ step' = Obs("jextend", <<tok>>)
JWrapList(leaf) ==
    /\ cfg.kind = "json" /\ JWrappable /\ leaf \in JLeaves
    /\ inp' = [k |-> "list", v |-> <<inp, leaf>>]
    /\ UNCHANGED <<cfg, n>>
    /\ step' = Obs("jwraplist", <<leaf>>)
JWrapDict(key) ==
    /\ cfg.kind = "json" /\ JWrappable /\ key \in {<<97>>, <<60, 47>>, <<>>}
    /\ inp' = [k |-> "dict", v |-> <<[key |-> key, val |-> inp]>>]
    /\ UNCHANGED <<cfg, n>>
    /\ step' = Obs("jwrapdict", <<key>>)
JAsKey ==
    /\ cfg.kind = "json" /\ inp.k = "str" /\ JWrappable
    /\ inp' = [k |-> "dict", v |-> <<[key |-> inp.v, val |-> [k |-> "int", v |-> 7]]>>]
    /\ UNCHANGED <<cfg, n>>
    /\ step' = Obs("jaskey", <<>>)

AllTokens == UNION {Tokens(k) : k \in {"html", "url", "utf8", "qs", "qsp", "types"}}
Next == \/ \E tok \in AllTokens : Extend(tok)
        \/ \E tok \in Tokens("json") : JExtend(tok)
        \/ \E leaf \in JLeaves : JWrapList(leaf)
        \/ \E key \in {<<97>>, <<60, 47>>, <<>>} : JWrapDict(key)
        \/ JAsKey
Spec == InitState /\ [][Next]_<<vars, step>>

----------------------------------------------------------------------------
(* Theorems of C21 as invariants over the enumerated inputs *)
K == cfg.kind
T_HtmlSafe     == K = "html" => HtmlSafe(HtmlEscape(inp))
T_HtmlInverse  == K = "html" => HtmlUnescape5(HtmlEscape(inp)) = inp
T_UrlInverse   == K = "url" => \A plus \in BOOLEAN :
                      LET q == UrlQuote(Utf8Enc(inp), plus) IN
                      /\ UrlUnquoteOk(q, plus) /\ UrlUnquoteText(q, plus) = inp
                      /\ \A i \in 1..Len(q) : q[i] \in Unreserved \cup {37, 43, 47}     \* URL-safe output
T_UrlInverseB  == K = "utf8" => \A plus \in BOOLEAN : UrlUnquoteBytes(UrlQuote(inp, plus), plus) = inp
T_Utf8Inverse  == /\ K \in {"html", "url"} => (Utf8Valid(Utf8Enc(inp)) /\ Utf8Dec(Utf8Enc(inp)) = inp)
                  /\ K = "utf8" => (Utf8Valid(inp) => Utf8Enc(Utf8Dec(inp)) = inp)
T_QsPreserve   == K = "qsp" => ParseQs(EncodeQs(PairsOf(inp)), TRUE) = Group(PairsOf(inp))
(* a decoded name or value never gains a byte that was not in the query string in raw or %XX form:
   every parsed byte sequence is the decoding of a '&'/'='-free slice *)
T_QsTotal      == K = "qs" => \A keep \in BOOLEAN : \A i \in 1..Len(ParseQs(inp, keep)) :
                      Len(ParseQs(inp, keep)[i].vs) >= 1

View == vars
=============================================================================
