SPECIFICATION TraceSpec
CONSTANTS
  Kinds = {"html"}
  MaxTok = 0
CONSTRAINT Report
INVARIANT T_HtmlSafe
INVARIANT T_HtmlInverse
INVARIANT T_UrlInverse
INVARIANT T_UrlInverseB
INVARIANT T_Utf8Inverse
INVARIANT T_QsPreserve
INVARIANT T_QsTotal
CHECK_DEADLOCK FALSE
