SPECIFICATION Spec
CONSTANTS
  Kinds = {"link", "free"}
  Level = 1
  MaxFree = 2
  Shortens = {TRUE, FALSE}
  RequireProtos = {TRUE, FALSE}
  Perms = {1}
  Extras = {0}
VIEW View
INVARIANT T_PlainAccepted
INVARIANT T_RawRejected
CHECK_DEADLOCK FALSE
