SPECIFICATION Spec
CONSTANTS
  MaxPairs = 2
  Level = 1
  Vers = {"1.0", "1.0a"}
  UrlIdx = {1, 2}
  SecIdx = {1, 2}
  TokIdx = {0, 2}
VIEW View
INVARIANT T_Separators
INVARIANT T_KeyOneAmp
INVARIANT T_TextTwoAmp
CHECK_DEADLOCK FALSE
