SPECIFICATION TraceSpec
CONSTANTS
  MaxPairs = 0
  Level = 1
  Vers = {"1.0"}
  UrlIdx = {1}
  SecIdx = {1}
  TokIdx = {0}
CONSTRAINT Report
INVARIANT T_Separators
INVARIANT T_KeyOneAmp
INVARIANT T_TextTwoAmp
CHECK_DEADLOCK FALSE
