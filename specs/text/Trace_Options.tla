---------------------------- MODULE Trace_Options ----------------------------
(* Validates calls recorded from the real tornado.options.OptionParser against Options.tla.
   One ndjson line per trace: {"id":n, "cfg":{"kind":..}, "ev":[{"a":fn,"args":[input],"obs":{..}}]}.
   Every event must be accepted by the specification (`Accept`: equality with the reference
   result, or the relation for relational helpers); the theorems of Options are evaluated on
   every recorded input. *)
EXTENDS Options, Json, IOUtils, TLCExt
Traces == ndJsonDeserialize(IOEnv.TRACE_FILE)
Verbose == IOEnv.TRACE_VERBOSE = "1"
VARIABLES tid, l
Ev == Traces[tid].ev
TraceInit ==
    /\ tid \in 1..Len(Traces)
    /\ l = 1
    /\ InitWith(Traces[tid].cfg)
IsEvent(a) == l <= Len(Ev) /\ Ev[l].a = a /\ l' = l + 1 /\ UNCHANGED tid
Bind == Accept(Ev[l].a, Ev[l].args[1], Ev[l].obs)
TrCall == /\ l <= Len(Ev) /\ IsEvent(Ev[l].a)
          /\ Ev[l].a \in Fns
          /\ Bind
          /\ inp' = Ev[l].args[1]
          /\ UNCHANGED cfg
          /\ step' = [act |-> Ev[l].a, args |-> Ev[l].args, exp |-> Ev[l].obs]
TraceNext == TrCall
TraceSpec == TraceInit /\ [][TraceNext]_<<vars, step, tid, l>>
Report == IF Verbose THEN PrintT(<<"AT", Traces[tid].id, l>>)
          ELSE (l = Len(Ev) + 1 => PrintT(<<"ACCEPT", Traces[tid].id>>))
=============================================================================
