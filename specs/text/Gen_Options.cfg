SPECIFICATION Spec
CONSTANTS
  Types = {"str", "int", "float", "bool", "datetime", "timedelta"}
  Mults = {TRUE, FALSE}
  Srcs = {"cmd", "cfgstr", "native", "flag", "unknown", "unset"}
  MaxParts = 2
VIEW View
CHECK_DEADLOCK FALSE
