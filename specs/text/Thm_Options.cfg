SPECIFICATION Spec
CONSTANTS
  Types = {"int"}
  Mults = {FALSE}
  Srcs = {"unset"}
  MaxParts = 1
INVARIANT T_Spellings
CHECK_DEADLOCK FALSE
