SPECIFICATION TraceSpec
CONSTANTS
  Kinds = {"total"}
  Level = 1
  MaxFree = 0
CONSTRAINT Report
INVARIANT T_ParamsRoundTrip
INVARIANT T_DateRoundTrip
INVARIANT T_ReRoundTrip
INVARIANT T_IpDisjoint
INVARIANT T_ReqLineExact
CHECK_DEADLOCK FALSE
