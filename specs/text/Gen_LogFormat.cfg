SPECIFICATION Spec
CONSTANTS
  MaxTok = 2
  Forms = {"str", "bytes"}
  ArgKinds = {"none", "str", "two", "bytes", "nl", "dict", "raises"}
  ExcKinds = {"none", "simple", "multiline", "bytes", "pretext"}
  Colors = {FALSE, TRUE}
VIEW View
INVARIANT T_IndentSuffices
CHECK_DEADLOCK FALSE
