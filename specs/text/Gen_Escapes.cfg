SPECIFICATION Spec
CONSTANTS
  Kinds = {"html", "url", "utf8", "qs", "qsp", "types", "json"}
  MaxTok = 3
VIEW View
INVARIANT T_HtmlSafe
INVARIANT T_HtmlInverse
INVARIANT T_UrlInverse
INVARIANT T_UrlInverseB
INVARIANT T_Utf8Inverse
INVARIANT T_QsPreserve
INVARIANT T_QsTotal
CHECK_DEADLOCK FALSE
