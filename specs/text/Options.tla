---------------------------- MODULE Options ----------------------------
(***************************************************************************)
(* C44 - tornado.options: command-line and config-file options parse to    *)
(* the values they denote.                                                 *)
(*                                                                         *)
(* Values: int n; float as reduced decimal rational [num, den]; bool;      *)
(* str as code points; datetime <<Y, M, D, h, m, s>>; timedelta [s, us]    *)
(* (whole seconds towards -infinity, 0 <= us < 10^6); multiple = sequence. *)
(* Denote(type, text) is the value a text denotes (or an error); Spell     *)
(* gives the canonical and documented alternative spellings of a value;    *)
(* theorem Denote(Spell(v)) = v.                                           *)
(*                                                                         *)
(* cfg = [type, mult, src]; src = how the option is set:                   *)
(*   cmd      --my-opt=TEXT on the command line                            *)
(*   cfgstr   my_opt = 'TEXT' in a config file (strings are parsed like    *)
(*            command-line values unless the option is a plain str)        *)
(*   native   my_opt = <python literal> in a config file (table-driven)    *)
(*   flag     --my-opt without a value                                     *)
(*   unknown  --no-such-option=TEXT                                        *)
(*   unset    nothing is passed (the default must survive)                 *)
(* inp = the text parts (joined with ',' for multiple options).            *)
(***************************************************************************)
EXTENDS TextBase

CONSTANTS Types, Mults, Srcs, MaxParts

VARIABLES cfg, inp, step
vars == <<cfg, inp>>

Err == [anyerr |-> 1]            \* rejected with an error (any exception class)
Ok(v) == [v |-> v]
IsOk(r) == "v" \in DOMAIN r
StripSp(s) == LET a == FirstIdx(s, LAMBDA c : c # 32)
                  b == LastIdx(s, LAMBDA c : c # 32) IN
              IF a = 0 THEN <<>> ELSE SubSeq(s, a, b)

----------------------------------------------------------------------------
(* int: optional sign, digits (surrounding blanks allowed) *)
ParseInt(t) ==
    LET s == StripSp(t)
        neg == s # <<>> /\ s[1] = 45
        body == IF s # <<>> /\ s[1] \in {43, 45} THEN DropFirst(s, 1) ELSE s IN
    IF body = <<>> \/ ~AllDigits(body) \/ Len(body) > 9 THEN Err
    ELSE Ok(IF neg THEN -DecVal(body) ELSE DecVal(body))
IntText(v) == (IF v < 0 THEN <<45>> ELSE <<>>) \o DecStr(IF v < 0 THEN -v ELSE v)

(* float: [sign] (digits [. digits] | . digits) [e [sign] digits]  ->  reduced rational *)
Reduce(num, den) == LET a == IF num < 0 THEN -num ELSE num
                        g == IF a = 0 THEN den ELSE Gcd(a, den) IN
                    [num |-> num \div g, den |-> den \div g]
ParseFloat(t) ==
    LET s == StripSp(t)
        neg == s # <<>> /\ s[1] = 45
        body == IF s # <<>> /\ s[1] \in {43, 45} THEN DropFirst(s, 1) ELSE s
        ei == FirstIdx(body, LAMBDA c : c = 101 \/ c = 69)
        mant == IF ei = 0 THEN body ELSE SubSeq(body, 1, ei - 1)
        expo == IF ei = 0 THEN <<>> ELSE SubSeq(body, ei + 1, Len(body))
        eneg == expo # <<>> /\ expo[1] = 45
        edig == IF expo # <<>> /\ expo[1] \in {43, 45} THEN DropFirst(expo, 1) ELSE expo
        mp == Partition(mant, 46)
        ip == mp[1]
        fp == mp[2]
        digs == ip \o fp IN
    IF digs = <<>> \/ ~AllDigits(digs) \/ Len(digs) > 8 \/ (ei # 0 /\ (edig = <<>> \/ ~AllDigits(edig) \/ Len(edig) > 1))
    THEN Err
    ELSE LET e == (IF ei = 0 THEN 0 ELSE IF eneg THEN -DecVal(edig) ELSE DecVal(edig)) - Len(fp)
             m == IF neg THEN -DecVal(digs) ELSE DecVal(digs) IN
         IF e >= 0 THEN (IF e > 8 THEN Err ELSE Ok(Reduce(m * Pow10(e), 1)))
         ELSE (IF -e > 9 THEN Err ELSE Ok(Reduce(m, Pow10(-e))))

(* bool: only the documented spellings are generated *)
FalseWords == {<<102,97,108,115,101>>, <<48>>, <<102>>}                            \* false 0 f
ParseBool(t) == Ok(LowerS(t) \notin FalseWords)

----------------------------------------------------------------------------
(* datetime: the ten documented formats, fixed-width fields *)
N(f, w) == [k |-> "num", f |-> f, w |-> w]
Lit(s) == [k |-> "lit", s |-> s]
F_date  == <<N("Y", 4), Lit(<<45>>), N("m", 2), Lit(<<45>>), N("d", 2)>>           \* %Y-%m-%d
F_datec == <<N("Y", 4), N("m", 2), N("d", 2)>>                                     \* %Y%m%d
F_hms   == <<N("H", 2), Lit(<<58>>), N("M", 2), Lit(<<58>>), N("S", 2)>>           \* %H:%M:%S
F_hm    == <<N("H", 2), Lit(<<58>>), N("M", 2)>>                                   \* %H:%M
Formats == << <<[k |-> "day"], Lit(<<32>>), [k |-> "mon"], Lit(<<32>>), N("d", 2), Lit(<<32>>)>> \o F_hms \o <<Lit(<<32>>), N("Y", 4)>>,
              F_date \o <<Lit(<<32>>)>> \o F_hms,
              F_date \o <<Lit(<<32>>)>> \o F_hm,
              F_date \o <<Lit(<<84>>)>> \o F_hm,
              F_datec \o <<Lit(<<32>>)>> \o F_hms,
              F_datec \o <<Lit(<<32>>)>> \o F_hm,
              F_date, F_datec, F_hms, F_hm >>
MatchItem(t, st, it) ==
    IF ~st.ok THEN st
    ELSE IF it.k = "lit" THEN
        IF HasAt(t, st.pos, it.s) THEN [st EXCEPT !.pos = @ + Len(it.s)] ELSE [st EXCEPT !.ok = FALSE]
    ELSE IF it.k = "num" THEN
        IF st.pos + it.w - 1 <= Len(t) /\ AllDigits(SubSeq(t, st.pos, st.pos + it.w - 1))
        THEN [st EXCEPT !.pos = @ + it.w, !.f = [@ EXCEPT ![it.f] = DecVal(SubSeq(t, st.pos, st.pos + it.w - 1))]]
        ELSE [st EXCEPT !.ok = FALSE]
    ELSE IF it.k = "day" THEN
        IF \E k \in 1..7 : HasAt(t, st.pos, DayNames[k]) THEN [st EXCEPT !.pos = @ + 3] ELSE [st EXCEPT !.ok = FALSE]
    ELSE
        IF \E k \in 1..12 : HasAt(t, st.pos, MonNames[k])
        THEN [st EXCEPT !.pos = @ + 3, !.f = [@ EXCEPT !["m"] = CHOOSE k \in 1..12 : HasAt(t, st.pos, MonNames[k])]]
        ELSE [st EXCEPT !.ok = FALSE]
MatchFormat(t, fmt) ==
    LET r == FoldLeft(LAMBDA st, it : MatchItem(t, st, it),
                      [ok |-> TRUE, pos |-> 1, f |-> [Y |-> 1900, m |-> 1, d |-> 1, H |-> 0, M |-> 0, S |-> 0]], fmt)
        f == r.f IN
    IF r.ok /\ r.pos = Len(t) + 1 /\ f.Y >= 1 /\ f.m \in 1..12 /\ f.d >= 1 /\ f.d <= DaysIn(f.Y, f.m)
       /\ f.H <= 23 /\ f.M <= 59 /\ f.S <= 59
    THEN Ok(<<f.Y, f.m, f.d, f.H, f.M, f.S>>) ELSE Err
ParseDatetime(t) ==
    LET M == {i \in 1..Len(Formats) : IsOk(MatchFormat(t, Formats[i]))} IN
    IF M = {} THEN Err ELSE MatchFormat(t, Formats[CHOOSE i \in M : \A j \in M : i <= j])
WeekdayName(y, m, d) == DayNames[((DaysFromCivil(y, m, d) + 4) % 7) + 1]
DtText(v, i) ==          \* spelling of a datetime value in format i (fields a format lacks must be the defaults)
    LET date == DecPad(v[1], 4) \o <<45>> \o DecPad(v[2], 2) \o <<45>> \o DecPad(v[3], 2)
        datec == DecPad(v[1], 4) \o DecPad(v[2], 2) \o DecPad(v[3], 2)
        hm == DecPad(v[4], 2) \o <<58>> \o DecPad(v[5], 2)
        hms == hm \o <<58>> \o DecPad(v[6], 2) IN
    CASE i = 1 -> WeekdayName(v[1], v[2], v[3]) \o <<32>> \o MonNames[v[2]] \o <<32>> \o DecPad(v[3], 2) \o <<32>> \o hms
                    \o <<32>> \o DecPad(v[1], 4)
      [] i = 2 -> date \o <<32>> \o hms   [] i = 3 -> date \o <<32>> \o hm   [] i = 4 -> date \o <<84>> \o hm
      [] i = 5 -> datec \o <<32>> \o hms  [] i = 6 -> datec \o <<32>> \o hm  [] i = 7 -> date  [] i = 8 -> datec
      [] i = 9 -> hms                     [] i = 10 -> hm
DtFits(v, i) == /\ (i \in {3, 4, 6, 10} => v[6] = 0)
                /\ (i \in {7, 8} => v[4] = 0 /\ v[5] = 0 /\ v[6] = 0)
                /\ (i \in {9, 10} => v[1] = 1900 /\ v[2] = 1 /\ v[3] = 1)

----------------------------------------------------------------------------
(* timedelta: groups  FLOAT [blanks] [unit]  separated by blanks; unit defaults to seconds *)
UnitTable == << [w |-> <<104>>, s |-> 3600, us |-> 0], [w |-> <<104,111,117,114,115>>, s |-> 3600, us |-> 0],       \* h hours
                [w |-> <<109>>, s |-> 60, us |-> 0], [w |-> <<109,105,110>>, s |-> 60, us |-> 0],                   \* m min
                [w |-> <<109,105,110,117,116,101,115>>, s |-> 60, us |-> 0],                                       \* minutes
                [w |-> <<115>>, s |-> 1, us |-> 0], [w |-> <<115,101,99>>, s |-> 1, us |-> 0],                      \* s sec
                [w |-> <<115,101,99,111,110,100,115>>, s |-> 1, us |-> 0], [w |-> <<>>, s |-> 1, us |-> 0],         \* seconds ""
                [w |-> <<109,115>>, s |-> 0, us |-> 1000], [w |-> <<109,105,108,108,105,115,101,99,111,110,100,115>>, s |-> 0, us |-> 1000],
                [w |-> <<117,115>>, s |-> 0, us |-> 1], [w |-> <<109,105,99,114,111,115,101,99,111,110,100,115>>, s |-> 0, us |-> 1],
                [w |-> <<100>>, s |-> 86400, us |-> 0], [w |-> <<100,97,121,115>>, s |-> 86400, us |-> 0],          \* d days
                [w |-> <<119>>, s |-> 604800, us |-> 0], [w |-> <<119,101,101,107,115>>, s |-> 604800, us |-> 0] >> \* w weeks
IsWordC(c) == IsAlnum(c) \/ c = 95
IsNumC(c) == IsDigit(c) \/ c = 46
TdStep(st, c) ==
    LET fin == [st EXCEPT !.groups = Append(@, <<st.num, st.unit>>), !.num = <<>>, !.unit = <<>>] IN
    IF ~st.ok THEN st
    ELSE IF st.ph = "pre" THEN
        IF c = 32 THEN st ELSE IF IsNumC(c) \/ c \in {43, 45} THEN [st EXCEPT !.ph = "num", !.num = <<c>>] ELSE [st EXCEPT !.ok = FALSE]
    ELSE IF st.ph = "num" THEN
        IF IsNumC(c) THEN [st EXCEPT !.num = Append(@, c)]
        ELSE IF c = 32 THEN [st EXCEPT !.ph = "gap"]
        ELSE IF IsWordC(c) THEN [st EXCEPT !.ph = "unit", !.unit = <<c>>]
        ELSE [st EXCEPT !.ok = FALSE]
    ELSE IF st.ph = "gap" THEN
        IF c = 32 THEN st
        ELSE IF IsWordC(c) THEN [st EXCEPT !.ph = "unit", !.unit = <<c>>]
        ELSE IF c \in {43, 45, 46} THEN [fin EXCEPT !.ph = "num", !.num = <<c>>]
        ELSE [st EXCEPT !.ok = FALSE]
    ELSE IF st.ph = "unit" THEN
        IF IsWordC(c) THEN [st EXCEPT !.unit = Append(@, c)]
        ELSE IF c = 32 THEN [st EXCEPT !.ph = "post"]
        ELSE IF c \in {43, 45, 46} THEN [fin EXCEPT !.ph = "num", !.num = <<c>>]
        ELSE [st EXCEPT !.ok = FALSE]
    ELSE \* post
        IF c = 32 THEN st
        ELSE IF IsNumC(c) \/ c \in {43, 45} THEN [fin EXCEPT !.ph = "num", !.num = <<c>>]
        ELSE [st EXCEPT !.ok = FALSE]
(* value of one group in microseconds-exact [s, us] form; -1 marks an error *)
GroupVal(g) ==
    LET r == ParseFloat(g[1])
        U == {k \in 1..Len(UnitTable) : UnitTable[k].w = g[2]} IN
    IF ~IsOk(r) \/ U = {} \/ (\E i \in 1..Len(g[1]) : g[1][i] \in {101, 69}) THEN [ok |-> FALSE, s |-> 0, us |-> 0]
    ELSE LET u == UnitTable[CHOOSE k \in U : TRUE]
             neg == r.v.num < 0
             a == IF neg THEN -r.v.num ELSE r.v.num
             den == r.v.den
             \* magnitude in microseconds split as whole seconds + micro remainder
             secs == (a * u.s) \div den
             rem == (a * u.s) % den                         \* rem / den seconds
             micro == (rem * 1000000) \div den + (a * u.us) \div den
             exact == ((rem * 1000000) % den = 0) /\ ((a * u.us) % den = 0)
             S == secs + micro \div 1000000
             US == micro % 1000000 IN
         IF ~exact THEN [ok |-> FALSE, s |-> 0, us |-> 0]
         ELSE IF ~neg \/ (S = 0 /\ US = 0) THEN [ok |-> TRUE, s |-> S, us |-> US]
         ELSE IF US = 0 THEN [ok |-> TRUE, s |-> -S, us |-> 0]
         ELSE [ok |-> TRUE, s |-> -S - 1, us |-> 1000000 - US]
ParseTimedelta(t) ==
    LET r == FoldLeft(TdStep, [ok |-> TRUE, ph |-> "pre", num |-> <<>>, unit |-> <<>>, groups |-> <<>>], t)
        groups == IF r.ph = "pre" THEN r.groups ELSE Append(r.groups, <<r.num, r.unit>>)
        vals == [i \in 1..Len(groups) |-> GroupVal(groups[i])] IN
    IF ~r.ok \/ groups = <<>> \/ (\E i \in 1..Len(vals) : ~vals[i].ok) THEN Err
    ELSE LET tot == FoldLeft(LAMBDA acc, v : [s |-> acc.s + v.s, us |-> acc.us + v.us], [s |-> 0, us |-> 0], vals) IN
         Ok([s |-> tot.s + tot.us \div 1000000, us |-> tot.us % 1000000])

----------------------------------------------------------------------------
Denote(type, t) ==
    CASE type = "str" -> Ok(t)
      [] type = "int" -> ParseInt(t)
      [] type = "float" -> ParseFloat(t)
      [] type = "bool" -> ParseBool(t)
      [] type = "datetime" -> ParseDatetime(t)
      [] type = "timedelta" -> ParseTimedelta(t)
(* multiple: comma-separated; integer options also accept inclusive ranges lo:hi *)
DenoteMulti(type, t) ==
    LET parts == Split(t, 44)
        one(p) == IF type = "int" THEN
                      LET q == Partition(p, 58)
                          lo == ParseInt(q[1])
                          hi == IF q[2] = <<>> THEN lo ELSE ParseInt(q[2]) IN
                      IF ~IsOk(lo) \/ ~IsOk(hi) THEN Err
                      ELSE Ok([i \in 1..Max2(hi.v - lo.v + 1, 0) |-> lo.v + i - 1])
                  ELSE LET r == Denote(type, p) IN IF IsOk(r) THEN Ok(<<r.v>>) ELSE Err
        rs == [i \in 1..Len(parts) |-> one(parts[i])] IN
    IF \E i \in 1..Len(rs) : ~IsOk(rs[i]) THEN Err ELSE Ok(Cat([i \in 1..Len(rs) |-> rs[i].v]))

----------------------------------------------------------------------------
(* values and their spellings *)
Sp(s) == <<32>> \o s \o <<32>>
IntVals == {0, 7, -12, 65535, 1234567}
IntSpell(v) == {IntText(v), Sp(IntText(v))} \cup (IF v >= 0 THEN {<<43>> \o IntText(v), <<48, 48>> \o IntText(v)} ELSE {})
FloatVals == {<<0, 1>>, <<3, 2>>, <<-1, 4>>, <<3, 1>>, <<1000, 1>>, <<1, 2>>, <<1, 8>>}          \* 0 1.5 -0.25 3 1000 0.5 0.125
FloatSpell(v) ==
    CASE v = <<0, 1>> -> {<<48>>, <<48,46,48>>, <<46,48>>, <<48,101,48>>}                          \* 0 0.0 .0 0e0
      [] v = <<3, 2>> -> {<<49,46,53>>, <<49,46,53,48>>, <<43,49,46,53>>, <<49,53,101,45,49>>, <<46,49,53,101,49>>}   \* 1.5 1.50 +1.5 15e-1 .15e1
      [] v = <<-1, 4>> -> {<<45,48,46,50,53>>, <<45,46,50,53>>, <<45,50,53,101,45,50>>}             \* -0.25 -.25 -25e-2
      [] v = <<3, 1>> -> {<<51>>, <<51,46>>, <<51,46,48>>, <<48,51>>}                              \* 3 3. 3.0 03
      [] v = <<1000, 1>> -> {<<49,48,48,48>>, <<49,101,51>>, <<49,69,43,51>>, <<49,46,48,101,51>>}  \* 1000 1e3 1E+3 1.0e3
      [] v = <<1, 2>> -> {<<48,46,53>>, <<46,53>>, <<53,101,45,49>>}                               \* 0.5 .5 5e-1
      [] v = <<1, 8>> -> {<<48,46,49,50,53>>, <<49,50,53,101,45,51>>}                              \* 0.125 125e-3
BoolSpell == [t |-> {<<116,114,117,101>>, <<84,114,117,101>>, <<49>>, <<116>>, <<84>>},             \* true True 1 t T
              f |-> {<<102,97,108,115,101>>, <<70,65,76,83,69>>, <<48>>, <<102>>, <<70>>}]          \* false FALSE 0 f F
StrVals == {<<>>, <<97,98,99>>, <<104,233,108,108,111>>, <<97,61,98>>, <<120,32,121>>, <<45,45,120>>, <<128512>>,
            <<47,109,121,95,97,112,112,46,108,111,103>>, <<97,45,98,95,99>>}        \* /my_app.log a-b_c  \* "" abc he'llo a=b "x y" --x emoji
DtVals == {<<2020, 2, 29, 13, 5, 59>>, <<2020, 2, 29, 13, 5, 0>>, <<1999, 12, 31, 0, 0, 0>>, <<1900, 1, 1, 23, 59, 58>>,
           <<1900, 1, 1, 7, 30, 0>>, <<2038, 1, 19, 3, 14, 7>>, <<2000, 1, 1, 0, 0, 0>>}
DtSpell(v) == {DtText(v, i) : i \in {i \in 1..10 : DtFits(v, i)}}
TdSpellTable ==              \* value, spellings
    << [v |-> [s |-> 5400, us |-> 0], t |-> {<<49,104,32,51,48,109>>, <<57,48,109,105,110>>, <<49,46,53,104>>, <<53,52,48,48>>,
                                             <<49,32,104,111,117,114,115,32,51,48,32,109,105,110,117,116,101,115>>, <<57,48,32,109>>,
                                             <<32,49,104,32,32,51,48,109,32>>}],
                    \* "1h 30m" "90min" "1.5h" "5400" "1 hours 30 minutes" "90 m" " 1h  30m "
       [v |-> [s |-> 45, us |-> 0], t |-> {<<52,53>>, <<52,53,115>>, <<52,53,32,115,101,99>>, <<52,53,46,48,115,101,99,111,110,100,115>>}],
                    \* 45 45s "45 sec" 45.0seconds
       [v |-> [s |-> 0, us |-> 500250], t |-> {<<53,48,48,109,115,32,50,53,48,117,115>>, <<48,46,53,48,48,50,53>>,
                                               <<53,48,48,46,50,53,109,115>>, <<53,48,48,50,53,48,32,109,105,99,114,111,115,101,99,111,110,100,115>>}],
                    \* "500ms 250us" "0.50025" "500.25ms" "500250 microseconds"
       [v |-> [s |-> 781200, us |-> 0], t |-> {<<49,119,32,50,100,32,49,104>>, <<57,100,32,49,104>>, <<49,32,119,101,101,107,115,32,50,32,100,97,121,115,32,49,104>>}],
                    \* "1w 2d 1h" "9d 1h" "1 weeks 2 days 1h"
       [v |-> [s |-> -3600, us |-> 0], t |-> {<<45,49,104>>, <<45,54,48,109>>}],                    \* -1h -60m
       [v |-> [s |-> -2, us |-> 500000], t |-> {<<45,49,46,53,115>>, <<45,49,46,53>>, <<45,49,53,48,48,109,115>>}],   \* -1.5s -1.5 -1500ms
       [v |-> [s |-> 0, us |-> 0], t |-> {<<48>>, <<48,115>>}] >>                                   \* 0 0s
Bad(type) ==
    CASE type = "int" -> {<<>>, <<97,98,99>>, <<49,46,53>>, <<49,101,51>>, <<48,120,49,48>>, <<45,45,53>>, <<49,32,50>>}   \* "" abc 1.5 1e3 0x10 --5 "1 2"
      [] type = "float" -> {<<>>, <<97,98,99>>, <<49,44,53>>, <<49,46,50,46,51>>, <<49,101>>, <<46>>}                      \* "" abc 1,5 1.2.3 1e .
      [] type = "datetime" -> {<<>>, <<121,101,115,116,101,114,100,97,121>>, <<50,48,50,48,45,49,51,45,48,49>>,
                               <<50,48,50,48,45,48,50,45,51,48>>, <<50,48,50,48,45,48,49,45,48,49,84,49,48,58,48,48,58,48,48>>,
                               <<50,53,58,48,48>>, <<49,50,58,54,48>>, <<49,57,48,48,45,48,50,45,50,57>>}
                               \* "" yesterday 2020-13-01 2020-02-30 2020-01-01T10:00:00 25:00 12:60 1900-02-29
      [] type = "timedelta" -> {<<>>, <<97,98,99>>, <<49,120>>, <<104>>, <<49,72>>, <<49,104,51,48,109>>, <<49,32,50,104,51>>}
                               \* "" abc 1x h 1H 1h30m "1 2h3"
      [] OTHER -> {}
Good(type) ==
    CASE type = "int" -> UNION {IntSpell(v) : v \in IntVals}
      [] type = "float" -> UNION {FloatSpell(v) : v \in FloatVals}
      [] type = "bool" -> BoolSpell.t \cup BoolSpell.f
      [] type = "str" -> StrVals
      [] type = "datetime" -> UNION {DtSpell(v) : v \in DtVals}
      [] type = "timedelta" -> UNION {TdSpellTable[i].t : i \in 1..Len(TdSpellTable)}
(* parts for multiple options: no comma inside a part; integer ranges *)
MultiParts(type) ==
    IF type = "int" THEN {<<49>>, <<55>>, <<45,50>>, <<49,58,51>>, <<53,58>>, <<51,58,49>>, <<45,49,58,49>>, <<58,53>>, <<120>>, <<>>,
                          <<48>>, <<45,50,58,48>>, <<48,58,48>>, <<48,58,50>>, <<45,51,58,45,50>>}
                         \* 1 7 -2 1:3 5: 3:1 -1:1 :5 x ""  0 -2:0 0:0 0:2 -3:-2  (bounds equal to 0, negative bounds)
    ELSE IF type = "str" THEN {<<97>>, <<>>, <<98,32,99>>, <<49,58,51>>, <<120,95,121,45,122>>}     \* ... x_y-z                 \* a "" "b c" 1:3 (no range for str)
    ELSE IF type = "float" THEN {<<49,46,53>>, <<51>>, <<46,53>>, <<97,98,99>>}                             \* 1.5 3 .5 abc
    ELSE IF type = "bool" THEN {<<116,114,117,101>>, <<48>>}                                                \* true 0
    ELSE IF type = "datetime" THEN {<<50,48,50,48,45,48,50,45,50,57>>, <<49,51,58,48,53>>, <<121,101,115,116,101,114,100,97,121>>}
                                                                                                            \* 2020-02-29 13:05 yesterday
    ELSE {<<49,104,32,51,48,109>>, <<52,53>>, <<49,120>>}                                                   \* "1h 30m" 45 1x
TextsOf(type, mult) == IF mult THEN MultiParts(type) ELSE Good(type) \cup Bad(type)
(* zero-arity constant definitions: TLC evaluates each of them once *)
TX_str_s == TextsOf("str", FALSE)        TX_str_m == TextsOf("str", TRUE)
TX_int_s == TextsOf("int", FALSE)        TX_int_m == TextsOf("int", TRUE)
TX_float_s == TextsOf("float", FALSE)    TX_float_m == TextsOf("float", TRUE)
TX_bool_s == TextsOf("bool", FALSE)      TX_bool_m == TextsOf("bool", TRUE)
TX_dt_s == TextsOf("datetime", FALSE)    TX_dt_m == TextsOf("datetime", TRUE)
TX_td_s == TextsOf("timedelta", FALSE)   TX_td_m == TextsOf("timedelta", TRUE)
Texts(type, mult) ==
    CASE type = "str" -> (IF mult THEN TX_str_m ELSE TX_str_s)
      [] type = "int" -> (IF mult THEN TX_int_m ELSE TX_int_s)
      [] type = "float" -> (IF mult THEN TX_float_m ELSE TX_float_s)
      [] type = "bool" -> (IF mult THEN TX_bool_m ELSE TX_bool_s)
      [] type = "datetime" -> (IF mult THEN TX_dt_m ELSE TX_dt_s)
      [] type = "timedelta" -> (IF mult THEN TX_td_m ELSE TX_td_s)

(* python literals written unquoted into a config file: <<literal, type it has, denoted value or Err>> *)
NativeTable ==
    << [lit |-> <<55>>, type |-> "int", mult |-> FALSE, r |-> Ok(7)],                                   \* 7
       [lit |-> <<45,49,50>>, type |-> "int", mult |-> FALSE, r |-> Ok(-12)],                           \* -12
       [lit |-> <<49,46,53>>, type |-> "int", mult |-> FALSE, r |-> Err],                               \* 1.5 for an int option
       [lit |-> <<91,49,93>>, type |-> "int", mult |-> FALSE, r |-> Err],                               \* [1] for a single option
       [lit |-> <<49,46,53>>, type |-> "float", mult |-> FALSE, r |-> Ok([num |-> 3, den |-> 2])],      \* 1.5
       [lit |-> <<39,120,39>>, type |-> "float", mult |-> FALSE, r |-> Err],                            \* 'x' (parsed, not a float)
       [lit |-> <<39,97,98,99,39>>, type |-> "str", mult |-> FALSE, r |-> Ok(<<97,98,99>>)],            \* 'abc'
       [lit |-> <<55>>, type |-> "str", mult |-> FALSE, r |-> Err],                                     \* 7 for a str option
       [lit |-> <<84,114,117,101>>, type |-> "bool", mult |-> FALSE, r |-> Ok(TRUE)],                   \* True
       [lit |-> <<70,97,108,115,101>>, type |-> "bool", mult |-> FALSE, r |-> Ok(FALSE)],               \* False
       [lit |-> <<91,49,44,32,50,44,32,51,93>>, type |-> "int", mult |-> TRUE, r |-> Ok(<<1, 2, 3>>)],  \* [1, 2, 3]
       [lit |-> <<91,93>>, type |-> "int", mult |-> TRUE, r |-> Ok(<<>>)],                              \* []
       [lit |-> <<55>>, type |-> "int", mult |-> TRUE, r |-> Err],                                      \* 7 for a multiple option
       [lit |-> <<91,49,44,32,39,120,39,93>>, type |-> "int", mult |-> TRUE, r |-> Err],                \* [1, 'x']
       [lit |-> <<39,49,58,51,44,55,39>>, type |-> "int", mult |-> TRUE, r |-> Ok(<<1, 2, 3, 7>>)],     \* '1:3,7'
       [lit |-> <<39,45,50,58,48,44,55,39>>, type |-> "int", mult |-> TRUE, r |-> Ok(<<-2, -1, 0, 7>>)],    \* '-2:0,7'
       [lit |-> <<91,39,97,39,44,32,39,98,39,93>>, type |-> "str", mult |-> TRUE, r |-> Ok(<<<<97>>, <<98>>>>)] >>   \* ['a', 'b']

----------------------------------------------------------------------------
TextOf(x) == Join(x, <<44>>)
Ref(c, x) ==
    CASE c.src \in {"cmd", "cfgstr"} -> IF c.mult THEN DenoteMulti(c.type, TextOf(x)) ELSE Denote(c.type, TextOf(x))
      [] c.src = "flag" -> IF c.type # "bool" THEN Err            \* documented: --option is --option=true for bool
                           ELSE IF c.mult THEN Ok(<<TRUE>>) ELSE Ok(TRUE)
      [] c.src = "unknown" -> Err
      [] c.src = "unset" -> Ok(<<"default">>)
      [] c.src = "native" -> LET M == {i \in 1..Len(NativeTable) : NativeTable[i].lit = TextOf(x) /\ NativeTable[i].type = c.type
                                                                    /\ NativeTable[i].mult = c.mult} IN
                             NativeTable[CHOOSE i \in M : TRUE].r
Complete(c, x) ==
    CASE c.src \in {"flag", "unset"} -> x = <<>>
      [] c.src = "native" -> Len(x) = 1
      [] c.src = "unknown" -> Len(x) = 1
      [] OTHER -> IF c.mult THEN Len(x) >= 1 ELSE Len(x) = 1
Fns == {"parse"}
Results(c, x) == [fn \in (IF Complete(c, x) THEN Fns ELSE {}) |-> Ref(c, x)]
Accept(fn, x, obs) == LET r == Ref(cfg, x) IN
                      IF "anyerr" \in DOMAIN r THEN "err" \in DOMAIN obs ELSE obs = r

Obs(a, args) == [act |-> a, args |-> args, exp |-> Results(cfg', inp')]
InitWith(c) ==
    /\ cfg = c
    /\ inp = <<>>
    /\ step = [act |-> "init", args |-> <<>>, exp |-> Results(c, inp)]
InitState == \E t \in Types, m \in Mults, s \in Srcs :
                /\ (s = "native" => \E i \in 1..Len(NativeTable) : NativeTable[i].type = t /\ NativeTable[i].mult = m)
                /\ InitWith([type |-> t, mult |-> m, src |-> s])

NativeLits(c) == {NativeTable[i].lit : i \in {i \in 1..Len(NativeTable) : NativeTable[i].type = c.type /\ NativeTable[i].mult = c.mult}}
OptChoices(c) == IF c.src = "native" THEN NativeLits(c) ELSE Texts(c.type, c.mult)
Extend(tok) ==
    /\ cfg.src \notin {"flag", "unset"}
    /\ Len(inp) < (IF cfg.mult /\ cfg.src \in {"cmd", "cfgstr"} THEN MaxParts ELSE 1)
    /\ tok \in OptChoices(cfg)
    /\ (cfg.src = "cfgstr" => 39 \notin {tok[i] : i \in 1..Len(tok)})
    /\ inp' = Append(inp, tok)
    /\ UNCHANGED cfg
    /\ step' = Obs("extend", <<tok>>)
Next == \E tok \in OptChoices(cfg) : Extend(tok)
Spec == InitState /\ [][Next]_<<vars, step>>

----------------------------------------------------------------------------
(* theorems: every spelling of a value denotes that value; every non-denoting text is an error *)
T_IntSpell == \A v \in IntVals : \A t \in IntSpell(v) : ParseInt(t) = Ok(v)
T_FloatSpell == \A v \in FloatVals : \A t \in FloatSpell(v) : ParseFloat(t) = Ok([num |-> v[1], den |-> v[2]])
T_BoolSpell == (\A t \in BoolSpell.t : ParseBool(t) = Ok(TRUE)) /\ (\A t \in BoolSpell.f : ParseBool(t) = Ok(FALSE))
T_DtSpell == \A v \in DtVals : \A t \in DtSpell(v) : ParseDatetime(t) = Ok(v)
T_TdSpell == \A i \in 1..Len(TdSpellTable) : \A t \in TdSpellTable[i].t : ParseTimedelta(t) = Ok(TdSpellTable[i].v)
T_BadRejected == \A ty \in {"int", "float", "datetime", "timedelta"} : \A t \in Bad(ty) : Denote(ty, t) = Err
(* the theorems do not depend on the state: they are evaluated once, on the initial state of the
   (int, single, unset) configuration, which every MC configuration must contain *)
T_Spellings == (inp = <<>> /\ cfg = [type |-> "int", mult |-> FALSE, src |-> "unset"]) => (T_IntSpell /\ T_FloatSpell /\ T_BoolSpell /\ T_DtSpell /\ T_TdSpell /\ T_BadRejected)
View == vars
=============================================================================
