SPECIFICATION TraceSpec
CONSTANTS
  Kinds = {"free"}
  Level = 1
  MaxFree = 0
  Shortens = {FALSE}
  RequireProtos = {FALSE}
  Perms = {1}
  Extras = {0}
CONSTRAINT Report
INVARIANT T_PlainAccepted
CHECK_DEADLOCK FALSE
