---------------------------- MODULE HttpUtil ----------------------------
(***************************************************************************)
(* C43 - HTTP utility parsers and formatters (tornado.httputil, util,      *)
(* netutil) are total and mutually consistent.                             *)
(*                                                                         *)
(* The input `inp` is a sequence of parts (code-point sequences) chosen    *)
(* slot by slot from the tables of the kind in `cfg`; line-like kinds use  *)
(* the concatenation Cat(inp), structured kinds use the parts.             *)
(*  reqline    method SEP target SEP version          (RFC 9112 request-line)*)
(*  statusline version SEP code SEP reason            (RFC 9112 status-line) *)
(*  params     key, then name/value parts              (_encode/_parse_header)*)
(*  total      strings over the punctuation alphabet   (never raise)       *)
(*  hostport   strings for split_host_and_port         (functional)        *)
(*  date       one part <<t>>: seconds since the epoch (format_timestamp)  *)
(*  urlconcat  base, query, fragment, argument list    (url_concat)        *)
(*  reesc      strings for re.escape / re_unescape                         *)
(*  ip         address tokens for is_valid_ip                              *)
(***************************************************************************)
EXTENDS TextBase

CONSTANTS Kinds, Level, MaxFree      \* MaxFree: number of tokens of the free-form kinds (total, hostport, reesc, ip)

VARIABLES cfg, inp, step
vars == <<cfg, inp>>

Absent == <<-1>>                \* marker part: optional component not present
SP == <<32>>

----------------------------------------------------------------------------
(* RFC 9110 / 9112 character classes *)
IsTchar(c) == IsAlnum(c) \/ c \in {33, 35, 36, 37, 38, 39, 42, 43, 45, 46, 94, 95, 96, 124, 126}
IsFieldVchar(c) == (c >= 33 /\ c <= 126) \/ (c >= 128 /\ c <= 255)          \* VCHAR / obs-text
IsReasonChar(c) == c = 9 \/ c = 32 \/ IsFieldVchar(c)
All(s, P(_)) == \A i \in 1..Len(s) : P(s[i])
HttpSlash == <<72, 84, 84, 80, 47>>                                          \* "HTTP/"
IsVersion(v) == Len(v) = 8 /\ StartsWith(v, HttpSlash) /\ IsDigit(v[6]) /\ v[7] = 46 /\ IsDigit(v[8])
IsVersion1x(v) == IsVersion(v) /\ v[6] = 49                                  \* HTTP/1.DIGIT

(* request-line = method SP request-target SP HTTP-version; the target is any non-empty run of VCHAR /
   obs-text (Tornado's documented relaxation of RFC 3986; whitespace and controls are excluded) *)
ReqLine(line) ==
    LET p == Split(line, 32) IN
    IF Len(p) = 3 /\ p[1] # <<>> /\ All(p[1], IsTchar) /\ p[2] # <<>> /\ All(p[2], IsFieldVchar) /\ IsVersion1x(p[3])
    THEN [v |-> <<p[1], p[2], p[3]>>] ELSE [err |-> "HTTPInputError"]

(* status-line = HTTP-version SP 3DIGIT SP [ reason-phrase ] *)
StatusLine(line) ==
    LET a == Partition(line, 32)
        b == Partition(a[2], 32) IN
    IF a[3] /\ b[3] /\ IsVersion1x(a[1]) /\ Len(b[1]) = 3 /\ AllDigits(b[1]) /\ All(b[2], IsReasonChar)
    THEN [v |-> [version |-> a[1], code |-> DecVal(b[1]), reason |-> b[2]]] ELSE [err |-> "HTTPInputError"]

----------------------------------------------------------------------------
(* header parameters: key; name=value ... with token values (parts: key, n1, v1, n2, v2, ...) *)
ParamPairs(x) == [i \in 1..((Len(x) - 1) \div 2) |-> <<x[2 * i], x[2 * i + 1]>>]
SortedPairs(ps) == SortSeq(ps, LAMBDA p, q : SeqLess(p[1], q[1]))
EncodeParams(key, ps) ==
    LET s == SortedPairs(ps) IN
    FoldLeft(LAMBDA acc, p : acc \o <<59, 32>> \o p[1] \o <<61>> \o p[2], key, s)
Strip(s) == LET a == FirstIdx(s, LAMBDA c : c # 32 /\ c # 9)
                b == LastIdx(s, LAMBDA c : c # 32 /\ c # 9) IN
            IF a = 0 THEN <<>> ELSE SubSeq(s, a, b)
(* reference parser on the token sub-grammar (no quotes, no RFC 2231 '*' names) *)
ParseParams(line) ==
    LET segs == Split(line, 59) IN
    [key |-> Strip(segs[1]),
     params |-> SortedPairs(
        FoldLeft(LAMBDA acc, seg : LET p == Partition(seg, 61) IN
                                   IF p[3] THEN Append(acc, <<LowerS(Strip(p[1])), Strip(p[2])>>) ELSE acc,
                 <<>>, DropFirst(segs, 1)))]
DistinctNames(ps) == \A i, j \in 1..Len(ps) : i # j => ps[i][1] # ps[j][1]

----------------------------------------------------------------------------
(* split_host_and_port: regex ^(.+):(\d+)$ on strings without line breaks and with ASCII digits *)
HostPort(s) ==
    LET i == LastIndexOf(s, 58) IN
    IF i > 1 /\ i < Len(s) /\ AllDigits(SubSeq(s, i + 1, Len(s)))
    THEN (IF Len(s) - i <= 9 THEN [v |-> [host |-> SubSeq(s, 1, i - 1), port |-> DecVal(SubSeq(s, i + 1, Len(s)))]]
          ELSE [anystr |-> 1])              \* port beyond TLC's 32-bit integers: only "returns" is required
    ELSE [v |-> [host |-> s, port |-> -1]]

----------------------------------------------------------------------------
(* HTTP-date (IMF-fixdate) by civil-date arithmetic, 0 <= t < 2^31 *)
(* DayNames, MonNames, Civil, DaysFromCivil are defined in TextBase *)
HttpDate(t) ==
    LET days == t \div 86400
        sod == t % 86400
        c == Civil(days) IN
    DayNames[((days + 4) % 7) + 1] \o <<44, 32>> \o DecPad(c.d, 2) \o <<32>> \o MonNames[c.m] \o <<32>> \o DecPad(c.y, 4)
      \o <<32>> \o DecPad(sod \div 3600, 2) \o <<58>> \o DecPad((sod \div 60) % 60, 2) \o <<58>> \o DecPad(sod % 60, 2) \o W_GMT
(* parser of the fixed-width form "Day, DD Mon YYYY HH:MM:SS GMT" *)
ParseHttpDate(s) ==
    LET mon == CHOOSE k \in 1..12 : MonNames[k] = SubSeq(s, 9, 11) IN
    DaysFromCivil(DecVal(SubSeq(s, 13, 16)), mon, DecVal(SubSeq(s, 6, 7))) * 86400
      + DecVal(SubSeq(s, 18, 19)) * 3600 + DecVal(SubSeq(s, 21, 22)) * 60 + DecVal(SubSeq(s, 24, 25))

----------------------------------------------------------------------------
(* url_concat, relational: base and fragment preserved, query pairs = existing pairs followed by the
   arguments (compared after decoding, as byte strings) *)
SplitUrl(u) ==
    LET h == Partition(u, 35)
        q == Partition(h[1], 63) IN
    [base |-> q[1], query |-> q[2], frag |-> h[2]]
(* the argument list is one part: 256 separates pairs, 257 separates name from value *)
ArgsOf(t) == IF t = <<>> THEN <<>> ELSE
             MapSeq(LAMBDA seg : LET p == Partition(seg, 257) IN <<p[1], p[2]>>, Split(t, 256))
UrlParts(x) == [base |-> x[1], query |-> x[2], frag |-> x[3], args |-> ArgsOf(x[4]), form |-> x[5][1]]
UrlOf(x) == x[1] \o (IF x[2] = Absent THEN <<>> ELSE <<63>> \o x[2]) \o (IF x[3] = Absent THEN <<>> ELSE <<35>> \o x[3])
UrlConcatOk(x, out) ==
    LET p == UrlParts(x)
        o == SplitUrl(out)
        inq == IF p.query = Absent THEN <<>> ELSE p.query
        infrag == IF p.frag = Absent THEN <<>> ELSE p.frag IN
    IF p.form = 0 THEN out = UrlOf(x)                                                  \* args=None: unchanged
    ELSE /\ o.base = p.base
         /\ o.frag = infrag
         /\ QsPairs(Utf8Enc(o.query), TRUE)
              = QsPairs(Utf8Enc(inq), TRUE) \o [i \in 1..Len(p.args) |-> <<Utf8Enc(p.args[i][1]), Utf8Enc(p.args[i][2])>>]

----------------------------------------------------------------------------
(* re.escape (CPython >= 3.7) and its inverse *)
ReSpecial == {40, 41, 91, 93, 123, 125, 63, 42, 43, 45, 124, 94, 36, 92, 46, 38, 126, 35, 32, 9, 10, 13, 11, 12}
ReEscape(s) == CatMap(LAMBDA c : IF c \in ReSpecial THEN <<92, c>> ELSE <<c>>, s)
ReUnescapeRun(s) ==
    FoldLeft(LAMBDA st, c : IF ~st.ok THEN st
                            ELSE IF st.esc THEN (IF IsAlnum(c) THEN [st EXCEPT !.ok = FALSE]
                                                 ELSE [st EXCEPT !.out = Append(@, c), !.esc = FALSE])
                            ELSE IF c = 92 THEN [st EXCEPT !.esc = TRUE]
                            ELSE [st EXCEPT !.out = Append(@, c)],
             [ok |-> TRUE, out |-> <<>>, esc |-> FALSE], s)
ReUnescape(s) == LET r == ReUnescapeRun(s) IN
                 IF ~r.ok THEN [err |-> "ValueError"]
                 ELSE [v |-> IF r.esc THEN Append(r.out, 92) ELSE r.out]       \* a trailing backslash stays

----------------------------------------------------------------------------
(* textual IP addresses: plain dotted-quad IPv4 and RFC 4291 IPv6 *)
IsOctet(p) == Len(p) >= 1 /\ Len(p) <= 3 /\ AllDigits(p) /\ (Len(p) > 1 => p[1] # 48) /\ DecVal(p) <= 255
IsIPv4(s) == LET p == Split(s, 46) IN Len(p) = 4 /\ \A i \in 1..4 : IsOctet(p[i])
IsH16(p) == Len(p) >= 1 /\ Len(p) <= 4 /\ All(p, IsHex)
(* groups of a run "h16:h16:...", possibly ending in an IPv4 (counting 2); -1 if malformed *)
GroupCount(run, allowV4) ==
    IF run = <<>> THEN 0
    ELSE LET p == Split(run, 58)
             lastV4 == allowV4 /\ IsIPv4(p[Len(p)]) IN
         IF \A i \in 1..Len(p) : IsH16(p[i]) \/ (i = Len(p) /\ lastV4)
         THEN (IF lastV4 THEN Len(p) + 1 ELSE Len(p)) ELSE -1
DoubleColonAt(s) == {i \in 1..(Len(s) - 1) : s[i] = 58 /\ s[i + 1] = 58}
IsIPv6(s) ==
    LET dc == DoubleColonAt(s) IN
    IF dc = {} THEN GroupCount(s, TRUE) = 8
    ELSE IF Cardinality(dc) > 1 THEN FALSE
    ELSE LET i == CHOOSE i \in dc : TRUE
             l == GroupCount(SubSeq(s, 1, i - 1), FALSE)
             r == GroupCount(SubSeq(s, i + 2, Len(s)), TRUE) IN
         l >= 0 /\ r >= 0 /\ l + r <= 7
(* a host name: letters, digits, '-' and '.', whose last label starts with a letter (so that the numeric
   shorthands of inet_aton such as "0x1" or "127.1", whose status the property leaves open, are not host names) *)
IsHostNameLike(s) == /\ s # <<>>
                     /\ All(s, LAMBDA c : IsAlnum(c) \/ c = 45 \/ c = 46)
                     /\ LET labels == Split(s, 46) IN
                        labels[Len(labels)] # <<>> /\ IsAlpha(labels[Len(labels)][1])
ValidIp(s) == IF IsIPv4(s) \/ IsIPv6(s) THEN [v |-> TRUE]
              ELSE IF s = <<>> \/ 0 \in {s[i] : i \in 1..Len(s)} \/ IsHostNameLike(s) THEN [v |-> FALSE]
              ELSE [anybool |-> 1]                      \* other strings: the property leaves the answer open

----------------------------------------------------------------------------
(* slot tables *)
Chars(S) == {<<c>> : c \in S}
Versions == {<<72,84,84,80,47,49,46,49>>, <<72,84,84,80,47,49,46,48>>, <<72,84,84,80,47,49,46,57>>,
             <<72,84,84,80,47,50,46,48>>, <<72,84,84,80,47,48,46,57>>, <<72,84,84,80,47,49,49,46,49>>,
             <<104,116,116,112,47,49,46,49>>, <<72,84,84,80,47,49,46>>, <<72,84,84,80,47,1633,46,49>>,
             <<72,84,84,80,47,49,46,49,10>>, <<72,84,84,80,47,49,46,49,32>>, <<>>}
      \* HTTP/1.1 HTTP/1.0 HTTP/1.9 HTTP/2.0 HTTP/0.9 HTTP/11.1 http/1.1 HTTP/1. HTTP/(arabic 1).1 HTTP/1.1\n ""
Seps == {SP, <<32, 32>>, <<>>} \cup (IF Level >= 2 THEN {<<9>>, <<32, 9>>} ELSE {})
Slots(k) ==
    CASE k = "reqline" ->
           <<{<<71,69,84>>, <<103,101,116>>, <<71,40,84>>, <<71,233>>, <<33,35,126>>, <<>>},   \* GET get G(T G(e') !#~ ""
             Seps,
             {<<47>>, <<47,233>>, <<47,257>>, <<47,97,32,98>>, <<47,127>>, <<104,116,116,112,58,47,47,104,47,112>>, <<>>}
               \cup (IF Level >= 2 THEN {<<47,97,63,98,61,99>>, <<42>>, <<47,9>>} ELSE {}),   \* / /a?b=c * /e' /a-macron "/a b" /DEL /TAB http://h/p ""
             Seps, Versions>>
      [] k = "statusline" ->
           <<Versions, Seps,
             {<<50,48,48>>, <<57,57>>, <<49,48,48,48>>, <<50,120,48>>, <<1634,48,48>>, <<>>},    \* 200 99 1000 2x0 (arabic 2)00 ""
             {SP, <<>>, <<32, 32>>},
             {<<79,75>>, <<>>, <<97,9,98>>, <<127>>, <<257>>, <<79,10,75>>}
               \cup (IF Level >= 2 THEN {<<78,111,116,32,70,111,117,110,100>>, <<233>>} ELSE {})>>
                                                                  \* OK "" "Not Found" e' a\tb DEL a-macron O\nK
      [] k = "params" ->
           LET names == {<<97>>, <<98>>, <<97,45,98>>}
               vals == {<<118>>, <<49>>, <<97,39,98>>, <<37,52,49>>, <<120,95,121>>, <<33,35,36>>} IN      \* v 1 a'b %41 x_y !#$
           <<{<<102,111,114,109,45,100,97,116,97>>, <<88>>}, names, vals, names, vals>>
      [] k = "date" -> <<Chars({0, 1, 59, 60, 3599, 86399, 86400, 5097599, 5097600, 68169600, 68255999, 68256000,
                                94694399, 94694400, 951782399, 951782400, 951868799, 951868800, 978307199, 978307200,
                                1078099199, 1078099200, 1330559999, 1359312200, 1709251199, 1709251200, 2147483647})>>
      [] k = "urlconcat" ->
           <<{<<104,116,116,112,58,47,47,104,47,112>>, <<47,112>>, <<47,112,59,120>>},        \* http://h/p /p /p;x
             {Absent, <<>>, <<97,61,98>>, <<97,61,98,38,99,61,100>>, <<97,61,37,50,54,38,97,61,43>>, <<97>>,
              <<97,61,98,38,38,99>>, <<233,61,49>>, <<97,61,37,67,51,37,65,57>>, <<97,61,37,69,57>>},
                              \* none "" a=b a=b&c=d a=%26&a=+ a a=b&&c e'=1 a=%C3%A9 a=%E9
             {Absent, <<102>>, <<>>},
             {<<>>, <<99,257,100>>, <<99,257,100,256,99,257,100,50>>, <<97,32,98,257,38,61,233,256,97,257>>},
                              \* [] [("c","d")] [("c","d"),("c","d2")] [("a b","&=e'"),("a","")]
             Chars(0..3)>>                     \* args passed as None / dict / list / tuple
      [] OTHER -> <<>>
FreeTokens(k) ==
    CASE k = "total"    -> Chars({97, 61, 59, 34, 92, 42, 39, 37, 58, 48, 32, 233, 0, 10})
                             \cup {<<117,116,102,45,56,39,39>>, <<97,42,61>>, <<97,42,48,61>>, <<59,32,97,42,61>>}  \* utf-8'' a*= a*0= "; a*="
      [] k = "hostport" -> Chars({97, 58, 48, 57, 91, 93, 46, 32}) \cup {<<56,48,56,48>>, <<58,58,49>>}  \* 8080 ::1
      [] k = "reesc"    -> Chars({97, 46, 92, 42, 45, 32, 233, 48, 95, 10, 126, 35, 47})
      [] k = "ip"       -> Chars({58, 46, 48, 49, 103, 0}) \cup {<<58,58>>, <<102,102,102,102>>,
                              <<50,53,53>>, <<50,53,54>>, <<49,46,50,46,51,46,52>>, <<108,111,99,97,108,104,111,115,116>>,
                              <<97,46,98>>, <<49,58,50,58,51,58,52,58,53,58,54>>}
                              \cup (IF Level >= 2 THEN {<<32>>, <<70,70>>, <<49,50,51,52,53>>, <<48,49>>, <<120,49>>} ELSE {})
                              \* :: ffff FF 12345 255 256 01 1.2.3.4 localhost a.b x1 1:2:3:4:5:6
      [] OTHER -> {}
IsFree(k) == k \in {"total", "hostport", "reesc", "ip"}

Fns(k) ==
    CASE k = "reqline" -> {"parse_request_start_line"}
      [] k = "statusline" -> {"parse_response_start_line"}
      [] k = "params" -> {"encode_header", "parse_encoded_header"}
      [] k = "total" -> {"parse_header_total", "parse_cookie_total", "split_host_and_port_total"}
      [] k = "hostport" -> {"split_host_and_port"}
      [] k = "date" -> {"format_timestamp_int", "format_timestamp_float", "format_timestamp_struct",
                        "format_timestamp_tuple", "format_timestamp_naive", "format_timestamp_aware"}
      [] k = "urlconcat" -> {"url_concat"}
      [] k = "reesc" -> {"re_escape", "re_unescape_roundtrip", "re_unescape"}
      [] k = "ip" -> {"is_valid_ip"}
Complete(k, x) == IF IsFree(k) THEN TRUE
                  ELSE IF k = "params" THEN Len(x) \in {1, 3, 5} /\ DistinctNames(ParamPairs(x))
                  ELSE IF k \in {"reqline", "statusline"} THEN Len(x) >= 1
                  ELSE IF k = "urlconcat" THEN Len(x) = 5 /\ (x[5][1] = 1 => DistinctNames(ArgsOf(x[4])))   \* a dict has distinct keys
                  ELSE Len(x) = Len(Slots(k))
Ref(fn, x) ==
    CASE fn = "parse_request_start_line"  -> ReqLine(Cat(x))
      [] fn = "parse_response_start_line" -> StatusLine(Cat(x))
      [] fn = "encode_header"             -> [v |-> EncodeParams(x[1], ParamPairs(x))]
      [] fn = "parse_encoded_header"      -> [v |-> [key |-> x[1], params |-> SortedPairs(ParamPairs(x))]]
      [] fn \in {"parse_header_total", "parse_cookie_total", "split_host_and_port_total"} -> [rel |-> "Total"]
      [] fn = "split_host_and_port"       -> HostPort(Cat(x))
      [] fn \in {"format_timestamp_int", "format_timestamp_float", "format_timestamp_struct", "format_timestamp_tuple",
                 "format_timestamp_naive", "format_timestamp_aware"} -> [v |-> HttpDate(x[1][1])]
      [] fn = "url_concat"                -> [rel |-> "UrlConcatOk"]
      [] fn = "re_escape"                 -> [v |-> ReEscape(Cat(x))]
      [] fn = "re_unescape_roundtrip"     -> [v |-> Cat(x)]
      [] fn = "re_unescape"               -> ReUnescape(Cat(x))
      [] fn = "is_valid_ip"               -> ValidIp(Cat(x))
Results(k, x) == [fn \in (IF Complete(k, x) THEN Fns(k) ELSE {}) |-> Ref(fn, x)]
Accept(fn, x, obs) ==
    LET r == Ref(fn, x) IN
    IF "rel" \in DOMAIN r THEN
        IF fn = "url_concat" THEN "v" \in DOMAIN obs /\ UrlConcatOk(x, obs.v)
        ELSE "v" \in DOMAIN obs                                  \* Total: returned, did not raise
    ELSE IF "anybool" \in DOMAIN r THEN "v" \in DOMAIN obs /\ obs.v \in BOOLEAN
    ELSE IF "anystr" \in DOMAIN r THEN "v" \in DOMAIN obs
    ELSE obs = r

Obs(a, args) == [act |-> a, args |-> args, exp |-> Results(cfg'.kind, inp')]

InitWith(c) ==
    /\ cfg = c
    /\ inp = <<>>
    /\ step = [act |-> "init", args |-> <<>>, exp |-> Results(c.kind, inp)]
InitState == \E k \in Kinds : InitWith([kind |-> k])

AllTokens == UNION {FreeTokens(k) : k \in {"total", "hostport", "reesc", "ip"}}
               \cup UNION {UNION {Slots(k)[i] : i \in 1..Len(Slots(k))} : k \in {"reqline", "statusline", "params", "date", "urlconcat"}}
Extend(tok) ==
    /\ IF IsFree(cfg.kind) THEN Len(inp) < MaxFree /\ tok \in FreeTokens(cfg.kind)
       ELSE Len(inp) < Len(Slots(cfg.kind)) /\ tok \in Slots(cfg.kind)[Len(inp) + 1]
    /\ inp' = Append(inp, tok)
    /\ UNCHANGED cfg
    /\ step' = Obs("extend", <<tok>>)
Next == \E tok \in AllTokens : Extend(tok)
Spec == InitState /\ [][Next]_<<vars, step>>

----------------------------------------------------------------------------
(* theorems *)
K == cfg.kind
T_ParamsRoundTrip == (K = "params" /\ Complete(K, inp)) =>
                        ParseParams(EncodeParams(inp[1], ParamPairs(inp))) = [key |-> inp[1], params |-> SortedPairs(ParamPairs(inp))]
T_DateRoundTrip == (K = "date" /\ Len(inp) = 1) => (Len(HttpDate(inp[1][1])) = 29 /\ ParseHttpDate(HttpDate(inp[1][1])) = inp[1][1])
T_ReRoundTrip == K = "reesc" => ReUnescape(ReEscape(Cat(inp))) = [v |-> Cat(inp)]
T_IpDisjoint == K = "ip" => ~((IsIPv4(Cat(inp)) \/ IsIPv6(Cat(inp))) /\ IsHostNameLike(Cat(inp)))
(* an accepted request line re-assembles to the input: the recogniser loses nothing *)
T_ReqLineExact == K = "reqline" => LET r == ReqLine(Cat(inp)) IN
                     "v" \in DOMAIN r => r.v[1] \o SP \o r.v[2] \o SP \o r.v[3] = Cat(inp)
View == vars
=============================================================================
