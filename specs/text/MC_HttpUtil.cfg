SPECIFICATION Spec
CONSTANTS
  Kinds = {"reqline", "statusline", "params", "total", "hostport", "date", "urlconcat", "reesc", "ip"}
  Level = 1
  MaxFree = 2
VIEW View
INVARIANT T_ParamsRoundTrip
INVARIANT T_DateRoundTrip
INVARIANT T_ReRoundTrip
INVARIANT T_IpDisjoint
INVARIANT T_ReqLineExact
CHECK_DEADLOCK FALSE
