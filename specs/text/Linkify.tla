---------------------------- MODULE Linkify ----------------------------
(***************************************************************************)
(* C22 - tornado.escape.linkify output is escaped text plus safe links.    *)
(*                                                                         *)
(* Relational specification (the URL regex is not re-implemented): the     *)
(* output O of linkify(T, options) is scanned into text and inserted       *)
(* anchors  <a href="H"P>L</a>  (HTML-escaped text contains no '<', so     *)
(* every '<' of O must begin an inserted tag) and LinkifyOk requires       *)
(*   - O with every anchor replaced by its URL U is HtmlEscape(T)          *)
(*     (U = H, or H minus the "http://" given to a protocol-less www. link)*)
(*   - L = U, or when shortening L = proper prefix of U followed by "..."  *)
(*   - H has a permitted protocol, or is http:// + a www. link (only when  *)
(*     a protocol is not required)                                         *)
(*   - H and L contain no raw quote or angle bracket and every '&' in them *)
(*     starts a complete character entity                                  *)
(*   - P is the extra parameters, plus a title="H" only on shortened links *)
(*                                                                         *)
(* cfg = options [shorten, rp, perm, extra, callable]; inp = sequence of   *)
(* text parts chosen slot by slot (prefix, protocol, host/filler, middle,  *)
(* tail) or freely from the token table.                                   *)
(***************************************************************************)
EXTENDS TextBase

CONSTANTS Kinds, Level, MaxFree, Shortens, RequireProtos, Perms, Extras

VARIABLES cfg, inp, step
vars == <<cfg, inp>>

A_open  == <<60,97,32,104,114,101,102,61,34>>       \* <a href="
A_close == <<60,47,97,62>>                          \* </a>
Dots3   == <<46,46,46>>                             \* ...
P_http  == <<104,116,116,112,58,47,47>>             \* http://
P_www   == <<119,119,119,46>>                       \* www.
W_title == <<32,116,105,116,108,101,61,34>>         \* ' title="'

PermSet(i) ==
    CASE i = 1 -> {<<104,116,116,112>>, <<104,116,116,112,115>>}                                  \* default: http https
      [] i = 2 -> {<<104,116,116,112>>, <<102,116,112>>, <<109,97,105,108,116,111>>}               \* http ftp mailto
      [] i = 3 -> {<<104,116,116,112>>, <<106,97,118,97,115,99,114,105,112,116>>}                  \* http javascript
ExtraText(i) ==
    CASE i = 0 -> <<>>
      [] i = 1 -> <<114,101,108,61,34,110,111,102,111,108,108,111,119,34>>                        \* rel="nofollow"
      [] i = 2 -> <<99,108,97,115,115,61,34,120,34>>                                              \* class="x" (callable)

EntityComplete(s) == \A i \in 1..Len(s) : s[i] = 38 => \E e \in 1..5 : HasAt(s, i, Entities[e])
SchemeOf(h) == LET i == IndexOf(h, 58) IN IF i = 0 THEN <<>> ELSE SubSeq(h, 1, i - 1)

(* scanner over the output *)
ScanStep(O, st, i) ==
      IF st.bad THEN st
      ELSE IF st.skip > 0 THEN [st EXCEPT !.skip = @ - 1]
      ELSE IF st.mode = "text" THEN
          IF HasAt(O, i, A_open) THEN [st EXCEPT !.mode = "href", !.skip = Len(A_open) - 1, !.h = <<>>, !.p = <<>>, !.l = <<>>]
          ELSE IF O[i] = 60 \/ O[i] = 62 \/ O[i] = 34 \/ O[i] = 39 THEN [st EXCEPT !.bad = TRUE]
          ELSE [st EXCEPT !.plain = Append(@, O[i])]
      ELSE IF st.mode = "href" THEN
          IF O[i] = 34 THEN [st EXCEPT !.mode = "params"]
          ELSE IF O[i] = 60 \/ O[i] = 62 THEN [st EXCEPT !.bad = TRUE]
          ELSE [st EXCEPT !.h = Append(@, O[i])]
      ELSE IF st.mode = "params" THEN
          IF O[i] = 62 THEN [st EXCEPT !.mode = "label"]
          ELSE IF O[i] = 60 THEN [st EXCEPT !.bad = TRUE]
          ELSE [st EXCEPT !.p = Append(@, O[i])]
      ELSE \* label
          IF HasAt(O, i, A_close) THEN
              LET core == IF EndsWith(st.l, Dots3) THEN SubSeq(st.l, 1, Len(st.l) - 3) ELSE st.l
                  u == IF IsPrefix(core, st.h) THEN st.h
                       ELSE IF StartsWith(st.h, P_http) THEN DropFirst(st.h, 7) ELSE st.h IN
              [st EXCEPT !.mode = "text", !.skip = Len(A_close) - 1, !.plain = @ \o u,
                         !.links = Append(@, [h |-> st.h, p |-> st.p, l |-> st.l, u |-> u, core |-> core])]
          ELSE IF O[i] = 60 \/ O[i] = 62 \/ O[i] = 34 THEN [st EXCEPT !.bad = TRUE]
          ELSE [st EXCEPT !.l = Append(@, O[i])]
Scan(O) == FoldLeft(LAMBDA st, i : ScanStep(O, st, i),
                    [bad |-> FALSE, skip |-> 0, mode |-> "text", plain |-> <<>>, h |-> <<>>, p |-> <<>>, l |-> <<>>, links |-> <<>>],
                    [i \in 1..Len(O) |-> i])

LinkOk(c, k) ==
    LET extra == IF ExtraText(c.extra) = <<>> THEN <<>> ELSE <<32>> \o ExtraText(c.extra)
        short == k.l # k.u IN
    /\ k.l = k.u \/ (c.shorten /\ EndsWith(k.l, Dots3) /\ IsStrictPrefix(k.core, k.u))
    /\ IF k.u = k.h THEN SchemeOf(k.h) \in PermSet(c.perm)
       ELSE k.h = P_http \o k.u /\ StartsWith(k.u, P_www) /\ ~c.rp
    /\ EntityComplete(k.l) /\ EntityComplete(k.h)
    /\ 39 \notin {k.h[i] : i \in 1..Len(k.h)}
    /\ k.p = extra \o (IF short THEN W_title \o k.h \o <<34>> ELSE <<>>)

LinkifyOk(c, text, O) ==
    LET s == Scan(O) IN
    /\ ~s.bad /\ s.mode = "text" /\ s.skip = 0
    /\ s.plain = HtmlEscape(text)
    /\ \A i \in 1..Len(s.links) : LinkOk(c, s.links[i])

----------------------------------------------------------------------------
X(n) == [i \in 1..n |-> 120]                    \* filler "xxx..." of length n
Chars(S) == {<<c>> : c \in S}
Slots ==
    <<{<<>>, <<115,101,101,32>>} \cup (IF Level >= 2 THEN {<<120>>, <<40>>} ELSE {}),             \* "" "see " x (
      {P_http, <<104,116,116,112,115,58,47,47>>, <<102,116,112,58,47,47>>, <<106,97,118,97,115,99,114,105,112,116,58>>,
       P_www, <<72,84,84,80,58,47,47>>, <<109,97,105,108,116,111,58>>},  \* http:// https:// ftp:// javascript: www. HTTP:// mailto:
      {<<97,46,99,111,109>>, X(17), X(18), X(19), X(30) \o <<46,99,111,109>>},                    \* a.com x17 x18 x19 x30.com
      {<<>>, <<34>>, <<38>>, <<47>>, <<47,97,98,99,100,38,120>>, <<47,97,98,34,99,100>>, <<47,97,46,98,63,99,61,100>>,
       <<63,113,61,49,38,114,61,50>>, <<40,120,41>>, <<59,34>>, <<47,97,59,98,99,100,38,120>>, <<47,59,97,59,98,38,34>>},
                         \* "" " & / /abcd&x /ab"cd /a.b?c=d ?q=1&r=2 (x)  ;"  /a;bcd&x  /;a;b&"   (literal ';' before a cut entity)
      {<<>>, X(20), <<47>> \o X(20), <<46>>, <<34>>} \cup (IF Level >= 2 THEN {<<41>>, <<32,101,110,100>>, <<60>>} ELSE {})>>
                                                                   \* "" x20 /x20 . "  ) " end" <
FreeTokens == Chars({97, 32, 38, 34, 39, 60, 62, 40, 41, 46, 47, 58, 59, 233, 128512}) \cup {P_http, P_www, <<97,46,99,111,109>>, X(31)}

Ref(fn, x) == [rel |-> "LinkifyOk"]
Fns == {"linkify"}
Complete(k, x) == IF k = "link" THEN Len(x) = 5 ELSE TRUE
Results(k, x) == [fn \in (IF Complete(k, x) THEN Fns ELSE {}) |-> Ref(fn, x)]
Accept(fn, x, obs) == "v" \in DOMAIN obs /\ LinkifyOk(cfg, Cat(x), obs.v)

Obs(a, args) == [act |-> a, args |-> args, exp |-> Results(cfg'.kind, inp')]
InitWith(c) ==
    /\ cfg = c
    /\ inp = <<>>
    /\ step = [act |-> "init", args |-> <<>>, exp |-> Results(c.kind, inp)]
InitState == \E k \in Kinds, s \in Shortens, r \in RequireProtos, p \in Perms, e \in Extras :
                InitWith([kind |-> k, shorten |-> s, rp |-> r, perm |-> p, extra |-> e])

AllTokens == FreeTokens \cup UNION {Slots[i] : i \in 1..Len(Slots)}
Extend(tok) ==
    /\ IF cfg.kind = "free" THEN Len(inp) < MaxFree /\ tok \in FreeTokens
       ELSE Len(inp) < Len(Slots) /\ tok \in Slots[Len(inp) + 1]
    /\ inp' = Append(inp, tok)
    /\ UNCHANGED cfg
    /\ step' = Obs("extend", <<tok>>)
Next == \E tok \in AllTokens : Extend(tok)
Spec == InitState /\ [][Next]_<<vars, step>>

----------------------------------------------------------------------------
(* the relation is satisfiable and not trivial: the escaped text without any link satisfies it, and the
   scanner recovers exactly one well-formed anchor from a hand-built output *)
T_PlainAccepted == LinkifyOk(cfg, Cat(inp), HtmlEscape(Cat(inp)))
T_RawRejected == LET t == Cat(inp) IN (HtmlEscape(t) # t) => ~LinkifyOk(cfg, t, t)
View == vars
=============================================================================
