---------------------------- MODULE OAuth1 ----------------------------
(***************************************************************************)
(* C48 - OAuth 1.0 / 1.0a request signatures (tornado.auth._oauth_signature *)
(* and _oauth10a_signature) against RFC 5849.                              *)
(*                                                                         *)
(* HMAC-SHA1 is opaque (DESIGN 3.6): the specification defines the two     *)
(* inputs of the MAC,                                                      *)
(*   key  = PctEncode(consumer secret) & PctEncode(token secret)   (3.4.2) *)
(*   text = METHOD & PctEncode(base URI) & PctEncode(normalised params)    *)
(*                                                             (3.4.1)     *)
(* where parameters are percent-encoded (UTF-8, unreserved kept, upper     *)
(* case hex), sorted by encoded name then encoded value and joined, and    *)
(* the base URI has lower-case scheme and host and no default port.  The   *)
(* harness intercepts hmac.new at the tornado.auth module boundary to      *)
(* observe (key, text) and recomputes the digest with the stdlib.          *)
(*                                                                         *)
(* cfg = request shape (version, method, URL parts, secrets);              *)
(* inp = the parameter list, built pair by pair.                           *)
(***************************************************************************)
EXTENDS TextBase

CONSTANTS MaxPairs, Level, Vers, UrlIdx, SecIdx, TokIdx

VARIABLES cfg, inp, step
vars == <<cfg, inp>>

----------------------------------------------------------------------------
Enc(t) == PctEncode(Utf8Enc(t), Unreserved)                     \* RFC 5849 3.6
PairLess(p, q) == SeqLess(p[1], q[1]) \/ (p[1] = q[1] /\ SeqLess(p[2], q[2]))
NormParams(ps) ==
    LET enc == [i \in 1..Len(ps) |-> <<Enc(ps[i].k), Enc(ps[i].v)>>]
        srt == SortSeq(enc, PairLess) IN
    Join([i \in 1..Len(srt) |-> srt[i][1] \o <<61>> \o srt[i][2]], <<38>>)
DefaultPort(scheme) == IF LowerS(scheme) = <<104,116,116,112>> THEN 80                  \* "http"
                       ELSE IF LowerS(scheme) = <<104,116,116,112,115>> THEN 443         \* "https"
                       ELSE 0
BaseUri(u) == LowerS(u.scheme) \o <<58,47,47>> \o LowerS(u.host)
              \o (IF u.port = 0 \/ u.port = DefaultPort(u.scheme) THEN <<>> ELSE <<58>> \o DecStr(u.port))
              \o u.path
BaseString(c, ps) == UpperS(c.method) \o <<38>> \o Enc(BaseUri(c.url)) \o <<38>> \o Enc(NormParams(ps))
Key(c) == Enc(c.csec) \o <<38>> \o (IF c.tok.has THEN Enc(c.tok.s) ELSE <<>>)

----------------------------------------------------------------------------
(* tables of request shapes *)
Urls == <<[scheme |-> <<72,84,84,80>>, host |-> <<69,120,97,109,112,108,101,46,67,79,77>>, port |-> 0,
           path |-> <<47,82,101,113,47,80,97,116,104>>],                 \* HTTP://Example.COM/Req/Path
          [scheme |-> <<104,116,116,112,115>>, host |-> <<97,112,105,46,101,120,97,109,112,108,101,46,99,111,109>>,
           port |-> 0, path |-> <<47,97,37,50,48,98,47,126,99>>],         \* https://api.example.com/a%20b/~c
          [scheme |-> <<104,116,116,112>>, host |-> <<69,120,97,109,112,108,101,46,67,79,77>>, port |-> 8080,
           path |-> <<47>>],                                              \* http://Example.COM:8080/
          [scheme |-> <<104,116,116,112>>, host |-> <<69,120,97,109,112,108,101,46,67,79,77>>, port |-> 80,
           path |-> <<47,82,101,113,47,80,97,116,104>>],                 \* http://Example.COM:80/Req/Path
          [scheme |-> <<72,84,84,80,83>>, host |-> <<97,112,105,46,101,120,97,109,112,108,101,46,99,111,109>>,
           port |-> 443, path |-> <<47>>]>>                               \* HTTPS://api.example.com:443/
Secrets == <<<<107,100,57,52,104,102,57,51,107,52,50,51,107,102,52,52>>,   \* kd94hf93k423kf44
             <<99,38,115,61,37,43,32,126,233>>,                            \* c&s=%+ ~e-acute
             <<>>>>
TokSecrets == <<<<112,102,107,107,100,104,105,57,115,108,51,114,52,115,48,48>>,  \* pfkkdhi9sl3r4s00
                <<116,47,107,63,110,32,233>>>>                             \* t/k?n e-acute
Methods == {<<71,69,84>>, <<112,111,115,116>>}                             \* GET post

(* parameter names and values: unreserved (a B ~ z), reserved (SP & = + % {), non-ASCII, two-character *)
Names == {<<97>>, <<66>>, <<126>>, <<32>>, <<38>>, <<61>>, <<43>>, <<37>>, <<233>>, <<97, 32>>, <<122>>, <<123>>}
           \cup (IF Level >= 2 THEN {<<97, 97>>, <<233, 97>>, <<47>>, <<8364>>, <<95>>, <<42>>} ELSE {})
Values == {<<>>, <<97>>, <<38, 61, 32, 43, 233>>}
           \cup (IF Level >= 2 THEN {<<126>>, <<37, 55, 69>>, <<128512>>, <<66, 97>>} ELSE {})

Ref(fn, c, ps) ==
    CASE fn = "oauth_key"  -> [v |-> Key(c)]
      [] fn = "oauth_text" -> [v |-> BaseString(c, ps)]
      [] fn = "oauth_mac"  -> [v |-> <<1>>]       \* returned value = base64(HMAC-SHA1(observed key, observed text))
Fns == {"oauth_key", "oauth_text", "oauth_mac"}
Results(c, ps) == [fn \in Fns |-> Ref(fn, c, ps)]
Accept(fn, x, obs) == obs = Ref(fn, cfg, x)

Obs(a, args) == [act |-> a, args |-> args, exp |-> Results(cfg', inp')]

InitWith(c) ==
    /\ cfg = c
    /\ inp = <<>>
    /\ step = [act |-> "init", args |-> <<>>, exp |-> Results(c, inp)]
InitState == \E ver \in Vers, m \in Methods, u \in UrlIdx, cs \in SecIdx, tk \in TokIdx :
                InitWith([ver |-> ver, method |-> m, url |-> Urls[u], csec |-> Secrets[cs],
                          tok |-> IF tk = 0 THEN [has |-> FALSE, s |-> <<>>] ELSE [has |-> TRUE, s |-> TokSecrets[tk]]])

(* parameters are a dict in the API: names are distinct; they are added in increasing raw-name order and the
   adapter also presents them in reverse insertion order *)
AddPair(k, v) ==
    /\ Len(inp) < MaxPairs
    /\ \A i \in 1..Len(inp) : SeqLess(inp[i].k, k)
    /\ inp' = Append(inp, [k |-> k, v |-> v])
    /\ UNCHANGED cfg
    /\ step' = Obs("addpair", <<k, v>>)

Next == \E k \in Names, v \in Values : AddPair(k, v)
Spec == InitState /\ [][Next]_<<vars, step>>

----------------------------------------------------------------------------
(* theorems: the signature base string is unambiguous - '&' and '=' occur in the encoded parameter string only as
   separators, so distinct parameter lists give distinct normalised strings *)
T_Separators == LET s == NormParams(inp) IN
                Count(s, 38) = Max2(Len(inp) - 1, 0) /\ Count(s, 61) = Len(inp)
T_KeyOneAmp == Count(Key(cfg), 38) = 1
T_TextTwoAmp == Count(BaseString(cfg, inp), 38) = 2
View == vars
=============================================================================
