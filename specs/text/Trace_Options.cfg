SPECIFICATION TraceSpec
CONSTANTS
  Types = {"str"}
  Mults = {FALSE}
  Srcs = {"cmd"}
  MaxParts = 1
CONSTRAINT Report
CHECK_DEADLOCK FALSE
