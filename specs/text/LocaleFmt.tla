---------------------------- MODULE LocaleFmt ----------------------------
(***************************************************************************)
(* C46 - tornado.locale.Locale.friendly_number / format_date.              *)
(*                                                                         *)
(* kind "num":  inp is an integer built digit by digit (sign fixed in cfg);*)
(*              friendly_number is functional: the English grouped form is *)
(*              unique (sign, then comma-separated groups of three).       *)
(* kind "date": inp = [d, rel, shorter, full, form, gmt]: d = now - date   *)
(*              in seconds (negative = future); the property constrains    *)
(*              format_date relationally (DateOk): a date more than a      *)
(*              minute ahead is never phrased as relative past time, and   *)
(*              the number of a relative phrase is the elapsed time in the *)
(*              phrase's unit rounded to a nearest integer.                *)
(***************************************************************************)
EXTENDS TextBase

CONSTANTS Kinds, MaxDigits, Digits

VARIABLES cfg, inp, step
vars == <<cfg, inp>>

----------------------------------------------------------------------------
(* numbers *)
Abs(x) == IF x < 0 THEN -x ELSE x
(* digits d grouped in threes from the right *)
GroupDigits(ds) ==
    LET k == Len(ds) IN
    FoldLeft(LAMBDA acc, i : IF i > 1 /\ (k - i + 1) % 3 = 0 THEN acc \o <<44, ds[i]>> ELSE Append(acc, ds[i]),
             <<>>, [i \in 1..k |-> i])
Group(x) == (IF x < 0 THEN <<45>> ELSE <<>>) \o GroupDigits(DecStr(Abs(x)))
Plain(x) == (IF x < 0 THEN <<45>> ELSE <<>>) \o DecStr(Abs(x))

(* reading a grouped form back *)
WellGrouped(s) ==
    LET b == IF s # <<>> /\ s[1] = 45 THEN DropFirst(s, 1) ELSE s
        parts == Split(b, 44) IN
    /\ b # <<>>
    /\ \A i \in 1..Len(parts) : AllDigits(parts[i]) /\ Len(parts[i]) >= 1
    /\ Len(parts[1]) <= 3
    /\ \A i \in 2..Len(parts) : Len(parts[i]) = 3
    /\ (Len(parts) > 1 => parts[1][1] # 48)
Ungroup(s) ==
    LET neg == s # <<>> /\ s[1] = 45
        b == IF neg THEN DropFirst(s, 1) ELSE s
        v == DecVal(SelectSeq(b, LAMBDA c : c # 44)) IN
    IF neg THEN -v ELSE v

----------------------------------------------------------------------------
(* relative date phrases (English) *)
W_ago    == <<32,97,103,111>>                    \* " ago"
W_second == <<32,115,101,99,111,110,100>>        \* " second"
W_minute == <<32,109,105,110,117,116,101>>       \* " minute"
W_hour   == <<32,104,111,117,114>>               \* " hour"
W_yesterday == <<121,101,115,116,101,114,100,97,121>>    \* "yesterday"
Units == <<[w |-> W_second, u |-> 1], [w |-> W_minute, u |-> 60], [w |-> W_hour, u |-> 3600]>>

LeadDigits(s) == LET i == FirstIdx(s, LAMBDA c : ~IsDigit(c)) IN IF i = 0 THEN Len(s) ELSE i - 1
(* [rel |-> TRUE, n, unit] when s is "<n> <unit>[s] ago" *)
RelParse(s) ==
    LET nd == LeadDigits(s)
        rest == DropFirst(s, nd)
        M == {k \in 1..3 : rest = Units[k].w \o W_ago \/ rest = Units[k].w \o <<115>> \o W_ago} IN
    IF nd = 0 \/ nd > 9 \/ M = {} THEN [rel |-> FALSE, n |-> 0, unit |-> 0]
    ELSE [rel |-> TRUE, n |-> DecVal(TakeFirst(s, nd)), unit |-> Units[CHOOSE k \in M : TRUE].u]
IsRelPast(s) == RelParse(s).rel \/ StartsWith(s, W_yesterday)

DateOk(x, out) ==
    LET p == RelParse(out) IN
    /\ x.d < -60 => ~IsRelPast(out)                                   \* future beyond a minute: never relative past
    /\ (p.rel /\ x.d >= 0) => 2 * Abs(p.n * p.unit - x.d) <= p.unit    \* nearest integer in the phrase's unit
    /\ (~x.rel \/ x.full) => ~IsRelPast(out)                           \* documented: relative=False / full_format give absolute dates
    /\ out # <<>>

(* offsets explored: every threshold of the phrasing +-1, past and future *)
Day == 86400
PastOffsets == {0, 1, 2, 29, 30, 31, 49, 50, 51, 59, 60, 61, 89, 90, 91, 149, 150, 151,
                2969, 2970, 2971, 2999, 3000, 3001, 3599, 3600, 3601, 5399, 5400, 5401, 8999, 9000, 9001,
                43199, 43200, 84599, 84600, 84601, 86399, 86400, 86401, 2 * Day - 1, 2 * Day, 2 * Day + 1,
                5 * Day - 1, 5 * Day, 334 * Day - 1, 334 * Day, 365 * Day, 730 * Day + 17}
FutureOffsets == {-1, -30, -59, -60, -61, -90, -3599, -3600, -3601, -Day + 1, -Day, -Day - 1, -Day - 30, -Day - 59,
                  -Day - 60, -Day - 61, -2 * Day - 10, -7 * Day - 59, -365 * Day - 5, -730 * Day - 3600}
Offsets == PastOffsets \cup FutureOffsets
Forms == {"int", "float", "naive", "aware"}

----------------------------------------------------------------------------
Ref(fn, x) ==
    CASE fn = "friendly_number"     -> [v |-> Group(x)]
      [] fn = "friendly_number_fr"  -> [v |-> Plain(x)]       \* non-English locales: plain decimal
      [] fn = "format_date"         -> [rel |-> "DateOk"]
Fns(k) == IF k = "num" THEN {"friendly_number", "friendly_number_fr"} ELSE {"format_date"}
Results(k, x) == [fn \in (IF k = "date" /\ x = <<>> THEN {} ELSE Fns(k)) |-> Ref(fn, x)]
Accept(fn, x, obs) ==
    IF fn = "format_date" THEN "v" \in DOMAIN obs /\ DateOk(x, obs.v)
    ELSE obs = Ref(fn, x)

Obs(a, args) == [act |-> a, args |-> args, exp |-> Results(cfg'.kind, inp')]

InitWith(c) ==
    /\ cfg = c
    /\ inp = IF c.kind = "num" THEN 0 ELSE <<>>
    /\ step = [act |-> "init", args |-> <<>>, exp |-> Results(c.kind, inp)]
InitState == \E k \in Kinds, neg \in BOOLEAN : (k = "date" => ~neg) /\ InitWith([kind |-> k, neg |-> neg])

(* append a decimal digit (towards -infinity when cfg.neg) *)
Digit(dg) ==
    /\ cfg.kind = "num"
    /\ NumDigits(Abs(inp)) < MaxDigits \/ inp = 0
    /\ inp' = IF cfg.neg THEN inp * 10 - dg ELSE inp * 10 + dg
    /\ UNCHANGED cfg
    /\ step' = Obs("digit", <<dg>>)

Pick(d, rel, shorter, full, form, gmt) ==
    /\ cfg.kind = "date" /\ inp = <<>>
    /\ inp' = [d |-> d, rel |-> rel, shorter |-> shorter, full |-> full, form |-> form, gmt |-> gmt]
    /\ UNCHANGED cfg
    /\ step' = Obs("pick", <<d>>)

Next == \/ \E dg \in Digits : Digit(dg)
        \/ \E d \in Offsets, rel \in BOOLEAN, shorter \in BOOLEAN, full \in BOOLEAN, form \in Forms, gmt \in {0, 300} :
              Pick(d, rel, shorter, full, form, gmt)
Spec == InitState /\ [][Next]_<<vars, step>>

----------------------------------------------------------------------------
(* theorems: the grouped form is well formed and reads back as the number *)
T_GroupReadsBack == cfg.kind = "num" => (WellGrouped(Group(inp)) /\ Ungroup(Group(inp)) = inp)
(* the relation is satisfiable: the documented phrasing (seconds below 50 s, minutes below 50 min, hours below a
   day) satisfies it for every past offset within a day *)
DocPhrase(d) == IF d < 50 THEN DecStr(d) \o W_second \o <<115>> \o W_ago
                ELSE IF d < 3000 THEN DecStr((d + 30) \div 60) \o W_minute \o <<115>> \o W_ago
                ELSE DecStr((d + 1800) \div 3600) \o W_hour \o <<115>> \o W_ago
T_RelSatisfiable == (cfg.kind = "date" /\ inp # <<>> /\ inp.d >= 0 /\ inp.d < Day /\ inp.rel /\ ~inp.full)
                        => DateOk(inp, DocPhrase(inp.d))
View == vars
=============================================================================
