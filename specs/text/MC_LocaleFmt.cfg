SPECIFICATION Spec
CONSTANTS
  Kinds = {"num", "date"}
  MaxDigits = 7
  Digits = {0, 1, 9}
VIEW View
INVARIANT T_GroupReadsBack
INVARIANT T_RelSatisfiable
CHECK_DEADLOCK FALSE
