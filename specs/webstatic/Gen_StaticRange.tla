---------------------------- MODULE Gen_StaticRange ----------------------------
(* Request sequences on one file (history in the state) for seeded simulation walks. *)
EXTENDS StaticRange
VARIABLE hist
GenInit == InitState /\ hist = <<>>
GenNext == Next /\ hist' = Append(hist, step')
GenSpec == GenInit /\ [][GenNext]_<<vars, step, hist>>
=============================================================================
