SPECIFICATION GenSpec
CONSTANTS
  Kinds = {"removeslash", "addslash", "static1", "static2", "static3", "auth_rel", "auth_query", "auth_abs"}
  Forms = {"origin", "absolute"}
  Methods = {"GET", "HEAD"}
  SegToks = {"a", "empty", "evil", "bs", "bsevil", "pslash", "pbs", "sub", "d", "dotdot", "at", "sp", "amp"}
  PathLen = 2
  Queries = {"noq", "q1", "qevil"}
  MaxReq = 6
CHECK_DEADLOCK FALSE
