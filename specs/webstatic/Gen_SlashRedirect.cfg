SPECIFICATION GenSpec
CONSTANTS
  Kinds = {"removeslash", "addslash", "static1", "static2", "auth_rel", "auth_query", "auth_abs"}
  Methods = {"GET", "HEAD"}
  SegToks = {"a", "empty", "evil", "bs", "bsevil", "pslash", "pbs", "sub", "d", "dotdot", "dot", "at", "scheme", "sp", "amp"}
  PathLen = 4
  Queries = {"noq", "emptyq", "q1", "qevil", "qsp"}
  MaxReq = 6
CHECK_DEADLOCK FALSE
