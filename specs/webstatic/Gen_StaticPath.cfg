SPECIFICATION GenSpec
CONSTANTS
  RootName = {1080}
  SideW = {1083}
  SideN = {1083}
  GenToks = {"a", "sub", "d", "index", "empty", "dot", "dotdot", "r", "r2", "rx", "o", "pdotdot", "pslash", "nul", "absroot", "absr2"}
  PathLen = 3
  MaxReq = 1
  SepCheck = TRUE
  Spells = {"plain"}
  Methods = {"GET", "HEAD"}
CHECK_DEADLOCK FALSE
