---------------------------- MODULE Gen_Routing ----------------------------
(* Sequences of dispatch / reverse calls on one application (history in the state). *)
EXTENDS Routing
VARIABLE hist
GenInit == InitState /\ hist = <<>>
GenNext == Next /\ hist' = Append(hist, step')
GenSpec == GenInit /\ [][GenNext]_<<vars, step, hist>>
=============================================================================
