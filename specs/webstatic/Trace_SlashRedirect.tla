---------------------------- MODULE Trace_SlashRedirect ----------------------------
(* Validates recorded (request, status, Location) observations against SlashRedirect.tla:
   every observation must satisfy Accept(expectation of the specification, observation).
   {"id":n, "cfg":{"kind":k}, "ev":[{"a":"request","args":[m, raw units, hasq, query chars],"obs":{"st":c,"loc":[chars]}}]} *)
EXTENDS SlashRedirect, Json, IOUtils, TLCExt
Traces == ndJsonDeserialize(IOEnv.TRACE_FILE)
Verbose == IOEnv.TRACE_VERBOSE = "1"
VARIABLES tid, l
Ev == Traces[tid].ev
TraceInit ==
    /\ tid \in 1..Len(Traces)
    /\ l = 1
    /\ InitWith([kind |-> Traces[tid].cfg.kind])
IsEvent(a) == l <= Len(Ev) /\ Ev[l].a = a /\ l' = l + 1 /\ UNCHANGED tid
Bind == Accept(Proj', Ev[l].obs)
TrRequest == IsEvent("request") /\ IsRaw(Ev[l].args[2])
             /\ Request(Ev[l].args[1], Ev[l].args[2], Ev[l].args[3], Ev[l].args[4]) /\ Bind
TraceNext == TrRequest
TraceSpec == TraceInit /\ [][TraceNext]_<<vars, step, tid, l>>
Report == IF Verbose THEN PrintT(<<"AT", Traces[tid].id, l>>)
          ELSE (l = Len(Ev) + 1 => PrintT(<<"ACCEPT", Traces[tid].id>>))
=============================================================================
