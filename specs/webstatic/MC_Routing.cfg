SPECIFICATION Spec
CONSTANTS
  Mode = "flat"
  Pats = {"p_a", "p_ns", "p_any", "p_adig", "p_anydig"}
  HostPats = {"h_a", "h_any"}
  MaxRules = 2
  ElemToks = {"s", "a", "dot", "Gns", "Gany", "Gdig", "Nns"}
  GenLen = 2
  DefaultHosts = {"none"}
  Hosts = {"b.com"}
  PathToks = {"s", "a", "1", "dot", "pA", "pS"}
  PathLen = 3
  ArgNames = {"a", "1", "slash", "pct", "empty"}
  MaxReq = 1
INVARIANT FirstMatch
INVARIANT GreedyIsLexMax
INVARIANT RoundTripNoSlash
CHECK_DEADLOCK FALSE
