---------------------------- MODULE Trace_StaticRange ----------------------------
(* Validates recorded static-file requests against StaticRange.tla: the observed response
   (status, Content-Range, Content-Length, body) must be one of the acceptable responses the
   specification computes for the logged size / Range text / validators.
   {"id":n, "cfg":{"size":s,"k":k}, "ev":[{"a":"request","args":[m,hasRange,[chars],inm,ims,fmt],"obs":{..}}
                                          | {"a":"parse","args":[[chars]],"obs":{"ignored":b}}]} *)
EXTENDS StaticRange, Json, IOUtils, TLCExt
Traces == ndJsonDeserialize(IOEnv.TRACE_FILE)
Verbose == IOEnv.TRACE_VERBOSE = "1"
VARIABLES tid, l
Ev == Traces[tid].ev
TraceInit ==
    /\ tid \in 1..Len(Traces)
    /\ l = 1
    /\ InitWith([size |-> Traces[tid].cfg.size, k |-> Traces[tid].cfg.k])
IsEvent(a) == l <= Len(Ev) /\ Ev[l].a = a /\ l' = l + 1 /\ UNCHANGED tid
Bind == \E i \in 1..Len(Proj') : Proj'[i] = Ev[l].obs
TrRequest == IsEvent("request")
             /\ Request(Ev[l].args[1], Ev[l].args[2], Ev[l].args[3], Ev[l].args[4], Ev[l].args[5], Ev[l].args[6]) /\ Bind
TrParse == IsEvent("parse") /\ Parse(Ev[l].args[1]) /\ Bind
TraceNext == TrRequest \/ TrParse
TraceSpec == TraceInit /\ [][TraceNext]_<<vars, step, tid, l>>
Report == IF Verbose THEN PrintT(<<"AT", Traces[tid].id, l>>)
          ELSE (l = Len(Ev) + 1 => PrintT(<<"ACCEPT", Traces[tid].id>>))
=============================================================================
