---------------------------- MODULE Gen_StaticPath ----------------------------
(* Path enumeration for StaticPath: every request sequence of length <= MaxReq over the token
   alphabet, with the history in the state (TLC -dump). *)
EXTENDS StaticPath
VARIABLE hist
GenInit == InitState /\ hist = <<>>
GenNext == Next /\ hist' = Append(hist, step')
GenSpec == GenInit /\ [][GenNext]_<<vars, step, hist>>
=============================================================================
