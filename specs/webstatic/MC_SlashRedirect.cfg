SPECIFICATION Spec
CONSTANTS
  Kinds = {"removeslash", "addslash", "static1", "static2", "static3", "auth_rel", "auth_query", "auth_abs"}
  Forms = {"origin"}
  Methods = {"GET"}
  SegToks = {"a", "empty", "evil", "bsevil", "pslash", "pbs", "sub", "dotdot", "at"}
  PathLen = 3
  Queries = {"noq", "emptyq", "q1", "qevil"}
  MaxReq = 1
INVARIANT ReferenceSafe
INVARIANT LoginOnly
INVARIANT AcceptImpliesSafe
CHECK_DEADLOCK FALSE
