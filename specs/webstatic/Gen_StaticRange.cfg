SPECIFICATION GenSpec
CONSTANTS
  Sizes = {0, 1, 5, 12}
  Methods = {"GET", "HEAD"}
  RPrefixes = {"B"}
  BodyToks = {"d0", "d1", "d4", "d5", "d12", "d99", "dash", "plus", "sp", "us", "comma", "x", "arab"}
  BodyLen = 2
  ImsFmts = {"imf", "asctime"}
  CondRanges = {"r1to4", "bad"}
  MaxReq = 6
CHECK_DEADLOCK FALSE
