---------------------------- MODULE WebChars ----------------------------
(***************************************************************************)
(* Character-level helpers shared by the webstatic specifications          *)
(* (StaticPath, StaticRange, SlashRedirect, Routing).                      *)
(*                                                                         *)
(* Text is Seq(Nat).  "Raw" URL text (what travels in the request line)    *)
(* uses one element per *unit*:  c in 0..255 is the literal byte c;        *)
(* 256 + c is the percent-escape of byte c written with upper-case hex     *)
(* digits ("%2F"), 512 + c the same escape with lower-case hex ("%2f").    *)
(* The literal byte 37 ("%") never occurs in raw text, so decoding is      *)
(* unit-wise.  All iteration is by FoldLeft (Java-backed, iterative).      *)
(***************************************************************************)
EXTENDS Integers, Sequences, FiniteSets, SequencesExt, TLC

SLASH == 47
BSLASH == 92
DOT == 46
QMARK == 63
PCT == 37

IsRawUnit(u) == u \in 0..767 /\ u # PCT
IsRaw(s) == \A i \in 1..Len(s) : IsRawUnit(s[i])

(* percent-decoding of raw text: one byte per unit *)
Dec(raw) == [i \in 1..Len(raw) |-> raw[i] % 256]

Concat(ss) == FlattenSeq(ss)

(* split text on a separator byte: always at least one (possibly empty) piece *)
Split(s, sep) ==
    FoldLeft(LAMBDA acc, c : IF c = sep THEN Append(acc, <<>>)
                             ELSE [acc EXCEPT ![Len(acc)] = Append(@, c)],
             <<<<>>>>, s)

(* join pieces with a separator byte *)
Join(ps, sep) ==
    IF ps = <<>> THEN <<>>
    ELSE FoldLeft(LAMBDA acc, p : acc \o <<sep>> \o p, Head(ps), Tail(ps))

StartsWith(s, p) == Len(p) <= Len(s) /\ SubSeq(s, 1, Len(p)) = p
EndsWith(s, p) == Len(p) <= Len(s) /\ SubSeq(s, Len(s) - Len(p) + 1, Len(s)) = p
Drop(s, k) == SubSeq(s, k + 1, Len(s))

(* number of leading occurrences of byte c *)
Leading(s, c) ==
    FoldLeft(LAMBDA acc, x : IF acc[2] /\ x = c THEN <<acc[1] + 1, TRUE>> ELSE <<acc[1], FALSE>>,
             <<0, TRUE>>, s)[1]

(* strip trailing occurrences of byte c *)
RStrip(s, c) ==
    LET keep == FoldLeft(LAMBDA acc, i : IF s[i] # c THEN i ELSE acc, 0, [i \in 1..Len(s) |-> i])
    IN SubSeq(s, 1, keep)

IsDigit(c) == c \in 48..57
IsAlnum(c) == c \in 48..57 \/ c \in 65..90 \/ c \in 97..122

HexDigit(v) == IF v < 10 THEN 48 + v ELSE 55 + v          \* upper-case
(* text of a raw unit sequence as it appears on the wire (escapes expanded to three bytes) *)
Wire(raw) ==
    Concat([i \in 1..Len(raw) |->
        IF raw[i] < 256 THEN <<raw[i]>>
        ELSE IF raw[i] < 512 THEN <<PCT, HexDigit((raw[i] % 256) \div 16), HexDigit(raw[i] % 16)>>
        ELSE <<PCT, (LET h == HexDigit((raw[i] % 256) \div 16) IN IF h >= 65 THEN h + 32 ELSE h),
                    (LET h == HexDigit(raw[i] % 16) IN IF h >= 65 THEN h + 32 ELSE h)>>])

(* decimal value of a digit string, saturating at Cap (TLC integers are 32 bit) *)
Cap == 1000000
DecVal(ds) == FoldLeft(LAMBDA acc, c : IF acc * 10 + (c - 48) > Cap THEN Cap ELSE acc * 10 + (c - 48), 0, ds)

(* decimal text of a natural number *)
RECURSIVE DecText(_)
DecText(k) == IF k < 10 THEN <<48 + k>> ELSE DecText(k \div 10) \o <<48 + (k % 10)>>
=============================================================================
