---------------------------- MODULE Trace_StaticPath ----------------------------
(* Validates request/response traces recorded from the real StaticFileHandler against
   StaticPath.tla.  One ndjson line per trace:
     {"id":n, "cfg":{"dflt":b,"outside":b,"spell":s},
      "ev":[{"a":"request","args":[method, raw units],"obs":{"kind":..,"file":..},
             "twin":{..}, "code":c, "code2":c2}]}
   obs is the projection of the response of the tree named by cfg.outside, twin / code2 the
   response of the other tree (same root content, different surroundings): both must be the
   response the specification computes and carry the same status (nothing outside the root
   is revealed).  The scratch directory name is the constant RootName of the run. *)
EXTENDS StaticPath, Json, IOUtils, TLCExt
Traces == ndJsonDeserialize(IOEnv.TRACE_FILE)
Verbose == IOEnv.TRACE_VERBOSE = "1"
VARIABLES tid, l
Ev == Traces[tid].ev
TraceInit ==
    /\ tid \in 1..Len(Traces)
    /\ l = 1
    /\ InitWith([dflt |-> Traces[tid].cfg.dflt, outside |-> Traces[tid].cfg.outside, spell |-> Traces[tid].cfg.spell])
IsEvent(a) == l <= Len(Ev) /\ Ev[l].a = a /\ l' = l + 1 /\ UNCHANGED tid
Bind == /\ Proj' = Ev[l].obs
        /\ Ev[l].twin = Ev[l].obs
        /\ Ev[l].code = Ev[l].code2
TrRequest == IsEvent("request") /\ IsRaw(Ev[l].args[2]) /\ Request(Ev[l].args[1], Ev[l].args[2]) /\ Bind
TraceNext == TrRequest
TraceSpec == TraceInit /\ [][TraceNext]_<<vars, step, tid, l>>
Report == IF Verbose THEN PrintT(<<"AT", Traces[tid].id, l>>)
          ELSE (l = Len(Ev) + 1 => PrintT(<<"ACCEPT", Traces[tid].id>>))
=============================================================================
