SPECIFICATION TraceSpec
CONSTANTS
  Kinds = {}
  Forms = {}
  Methods = {"GET", "HEAD"}
  SegToks = {}
  PathLen = 0
  Queries = {}
  MaxReq = 1000000
CONSTRAINT Report
INVARIANT ReferenceSafe
INVARIANT LoginOnly
INVARIANT AcceptImpliesSafe
CHECK_DEADLOCK FALSE
