SPECIFICATION TraceSpec
CONSTANTS
  Mode = "flat"
  Pats = {}
  HostPats = {}
  MaxRules = 0
  ElemToks = {}
  GenLen = 0
  DefaultHosts = {"none"}
  Hosts = {}
  PathToks = {}
  PathLen = 0
  ArgNames = {}
  MaxReq = 1000000
CONSTRAINT Report
INVARIANT FirstMatch
INVARIANT GreedyIsLexMax
INVARIANT RoundTripNoSlash
CHECK_DEADLOCK FALSE
