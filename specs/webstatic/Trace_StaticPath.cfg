SPECIFICATION TraceSpec
CONSTANTS
  RootName = {1080}
  SideW = {1083}
  SideN = {1083}
  GenToks = {}
  PathLen = 0
  MaxReq = 1000000
  SepCheck = TRUE
  Spells = {"plain"}
  Methods = {"GET", "HEAD"}
CONSTRAINT Report
INVARIANT Confined
INVARIANT SpellingIrrelevant
INVARIANT ServesRootFilesOnly
INVARIANT NonInterference
INVARIANT DesignIsSegmentwise
INVARIANT PlainPathServed
CHECK_DEADLOCK FALSE
