---------------------------- MODULE Routing ----------------------------
(***************************************************************************)
(* C31 - routing picks the first matching rule; reverse URLs route back.   *)
(*                                                                         *)
(* Patterns are sequences of elements: literals "s" (/), "a", "1", "dot"   *)
(* (an escaped '.') and capturing groups Gns ([^/]+), Gany ( .* ), Gdig      *)
(* ([0-9]+) or their named variants Nns, Nany, Ndig ((?P<gK>...)).  The    *)
(* regular-expression semantics is explicit: a pattern matches a text iff  *)
(* the text can be split along the elements (Splits); the engine's choice  *)
(* is the greedy, leftmost one (Greedy: every group takes the longest run  *)
(* that still lets the rest match) - GreedyIsLexMax relates the two.       *)
(* The text matched is the request path as it travels (escapes are three   *)
(* characters); captured groups are percent-decoded (Unquote, text level,  *)
(* malformed escapes left alone).                                          *)
(*                                                                         *)
(* A rule list has up to three entries: [k |-> "path", p], [k |-> "host",  *)
(* h, sub] (HostMatches(h) -> nested list) or [k |-> "nest", p, sub] (path *)
(* rule whose target is a nested list; nested rules see the whole path),   *)
(* all given to the Application constructor, or [k |-> "addh", h, sub]:    *)
(* host rules added afterwards with Application.add_handlers(h, sub).      *)
(* add_handlers rules are consulted BEFORE the constructor's rules, and if *)
(* the application has a default_host (cfg.dh) each of them is consulted   *)
(* once more AFTER all other rules with default_host in place of the       *)
(* request's host.  Slots is that order.  Dispatch = first slot (and first *)
(* nested rule) matching host and whole path, else the default <<0, 0>>.  Reverse(rule, args) joins the *)
(* literals with the arguments escaped by urllib.parse.quote (safe "/").   *)
(***************************************************************************)
EXTENDS WebChars

CONSTANTS Mode,        \* "flat" | "struct" | "gen"   (which rule lists Init enumerates)
          Pats,        \* names from PatMenu
          HostPats,    \* subset of {"h_a", "h_any"}
          MaxRules,
          ElemToks, GenLen,    \* mode "gen": patterns "/" + <= GenLen elements
          DefaultHosts,  \* values of cfg.dh explored
          Hosts,       \* Host header values
          PathToks, PathLen,   \* request paths "/" + <= PathLen tokens
          ArgNames,    \* names from ArgMenu used for reverse_url
          MaxReq

VARIABLES cfg,   \* [rules, dh]   dh: the application's default_host (a key of HostName) or "none"
          n, step
vars == <<cfg, n>>

----------------------------------------------------------------------------
(* patterns *)
Groups == {"Gns", "Gany", "Gdig", "Nns", "Nany", "Ndig"}
Named == {"Nns", "Nany", "Ndig"}
Cls(e) == CASE e \in {"Gns", "Nns"} -> "ns" [] e \in {"Gany", "Nany"} -> "any" [] e \in {"Gdig", "Ndig"} -> "dig"
LitText(e) == CASE e = "s" -> <<SLASH>> [] e = "a" -> <<97>> [] e = "1" -> <<49>> [] e = "dot" -> <<DOT>>
InCls(c, cls) == CASE cls = "ns" -> c # SLASH [] cls = "any" -> TRUE [] cls = "dig" -> IsDigit(c)
MinLen(cls) == IF cls = "any" THEN 0 ELSE 1
NGroups(p) == Cardinality({i \in 1..Len(p) : p[i] \in Groups})
IsNamed(p) == \E i \in 1..Len(p) : p[i] \in Named
WellFormed(p) == ~(\E i, j \in 1..Len(p) : p[i] \in Named /\ p[j] \in Groups \ Named)

(* longest run of class characters in s starting at position q *)
Run(s, q, cls) ==
    FoldLeft(LAMBDA acc, i : IF acc[2] /\ InCls(s[i], cls) THEN <<acc[1] + 1, TRUE>> ELSE <<acc[1], FALSE>>,
             <<0, TRUE>>, [i \in 1..(Len(s) - q + 1) |-> q + i - 1])[1]

(* declarative: all tuples of captured texts for which p[i..] matches s[q..] exactly *)
RECURSIVE Splits(_, _, _, _)
Splits(p, i, s, q) ==
    IF i > Len(p) THEN (IF q = Len(s) + 1 THEN {<<>>} ELSE {})
    ELSE IF p[i] \notin Groups
      THEN LET t == LitText(p[i]) IN
           IF q + Len(t) - 1 <= Len(s) /\ SubSeq(s, q, q + Len(t) - 1) = t THEN Splits(p, i + 1, s, q + Len(t)) ELSE {}
    ELSE LET cls == Cls(p[i]) IN
         UNION {{<<SubSeq(s, q, q + k - 1)>> \o r : r \in Splits(p, i + 1, s, q + k)} : k \in MinLen(cls)..Run(s, q, cls)}

(* operational: the backtracking engine's answer (greedy, leftmost) *)
NoMatch == [ok |-> FALSE, caps |-> <<>>]
RECURSIVE Greedy(_, _, _, _)
Greedy(p, i, s, q) ==
    IF i > Len(p) THEN (IF q = Len(s) + 1 THEN [ok |-> TRUE, caps |-> <<>>] ELSE NoMatch)
    ELSE IF p[i] \notin Groups
      THEN LET t == LitText(p[i]) IN
           IF q + Len(t) - 1 <= Len(s) /\ SubSeq(s, q, q + Len(t) - 1) = t THEN Greedy(p, i + 1, s, q + Len(t)) ELSE NoMatch
    ELSE LET cls == Cls(p[i])
             ks == {k \in MinLen(cls)..Run(s, q, cls) : Greedy(p, i + 1, s, q + k).ok}
         IN IF ks = {} THEN NoMatch
            ELSE LET k == CHOOSE x \in ks : \A y \in ks : y <= x
                 IN [ok |-> TRUE, caps |-> <<SubSeq(s, q, q + k - 1)>> \o Greedy(p, i + 1, s, q + k).caps]

Match(p, s) == Greedy(p, 1, s, 1)

(* percent-decoding of text (urllib.parse.unquote_to_bytes): "%" + two hex digits -> one byte *)
IsHex(c) == IsDigit(c) \/ c \in 65..70 \/ c \in 97..102
HexVal(c) == IF IsDigit(c) THEN c - 48 ELSE IF c >= 97 THEN c - 87 ELSE c - 55
Unquote(t) ==
    LET fin == FoldLeft(LAMBDA st, c :
                   IF st.m = 0 THEN (IF c = PCT THEN [st EXCEPT !.m = 1] ELSE [st EXCEPT !.out = Append(@, c)])
                   ELSE IF st.m = 1 THEN (IF IsHex(c) THEN [st EXCEPT !.m = 2, !.h = c]
                                          ELSE IF c = PCT THEN [st EXCEPT !.out = Append(@, PCT)]
                                          ELSE [st EXCEPT !.m = 0, !.out = @ \o <<PCT, c>>])
                   ELSE (IF IsHex(c) THEN [st EXCEPT !.m = 0, !.out = Append(@, 16 * HexVal(st.h) + HexVal(c))]
                         ELSE IF c = PCT THEN [st EXCEPT !.m = 1, !.out = @ \o <<PCT, st.h>>]
                         ELSE [st EXCEPT !.m = 0, !.out = @ \o <<PCT, st.h, c>>]),
                   [m |-> 0, h |-> 0, out |-> <<>>], t)
    IN IF fin.m = 0 THEN fin.out ELSE IF fin.m = 1 THEN Append(fin.out, PCT) ELSE fin.out \o <<PCT, fin.h>>
Decoded(caps) == [i \in 1..Len(caps) |-> Unquote(caps[i])]

----------------------------------------------------------------------------
(* hosts: HTTPServerRequest.host_name (lower-cased, port stripped) as a table *)
HostName == "a.com" :> "a.com" @@ "a.com:8080" :> "a.com" @@ "A.COM" :> "a.com" @@ "xa.com" :> "xa.com"
            @@ "b.com" :> "b.com" @@ "a.com.b.com" :> "a.com.b.com" @@ "a.com.evil.net" :> "a.com.evil.net"
HostMatch(h, host) == h = "h_any" \/ (h = "h_a" /\ HostName[host] = "a.com")      \* h_a is the regex a\.com

(* dispatch *)
Default == [rule |-> <<0, 0>>, args |-> <<>>, named |-> FALSE]
Hit(i, j, p, m) == [rule |-> <<i, j>>, args |-> Decoded(m.caps), named |-> IsNamed(p)]
FirstSub(i, subs, s) ==
    LET js == {j \in 1..Len(subs) : Match(subs[j], s).ok} IN
    IF js = {} THEN Default
    ELSE LET j == CHOOSE x \in js : \A y \in js : x <= y IN Hit(i, j, subs[j], Match(subs[j], s))
EntryResult(i, e, host, s) ==
    CASE e.k = "path" -> (IF Match(e.p, s).ok THEN Hit(i, 0, e.p, Match(e.p, s)) ELSE Default)
      [] e.k \in {"host", "addh"} -> (IF HostMatch(e.h, host) THEN FirstSub(i, e.sub, s) ELSE Default)
      [] e.k = "nest" -> (IF Match(e.p, s).ok THEN FirstSub(i, e.sub, s) ELSE Default)
(* consultation order: add_handlers rules, constructor rules, default_host copies of the add_handlers rules *)
Idx(rules, P(_)) == SelectSeq([i \in 1..Len(rules) |-> i], LAMBDA i : P(rules[i]))
Slots(c) ==
    LET ah == Idx(c.rules, LAMBDA e : e.k = "addh")
        ot == Idx(c.rules, LAMBDA e : e.k # "addh")
    IN [q \in 1..Len(ah) |-> [i |-> ah[q], d |-> FALSE]] \o [q \in 1..Len(ot) |-> [i |-> ot[q], d |-> FALSE]]
       \o (IF c.dh = "none" THEN <<>> ELSE [q \in 1..Len(ah) |-> [i |-> ah[q], d |-> TRUE]])
SlotHost(c, sl, host) == IF sl.d THEN c.dh ELSE host
Dispatch(c, host, s) ==
    LET sl == Slots(c)
        qs == {q \in 1..Len(sl) : EntryResult(sl[q].i, c.rules[sl[q].i], SlotHost(c, sl[q], host), s).rule # <<0, 0>>}
    IN IF qs = {} THEN Default
       ELSE LET q == CHOOSE x \in qs : \A y \in qs : x <= y
            IN EntryResult(sl[q].i, c.rules[sl[q].i], SlotHost(c, sl[q], host), s)

(* reverse: literals joined with quote(arg, safe="/") *)
QuoteKeep(t) == Concat([i \in 1..Len(t) |->
                   IF IsAlnum(t[i]) \/ t[i] \in {95, 46, 45, 126, SLASH} THEN <<t[i]>>
                   ELSE <<PCT, HexDigit(t[i] \div 16), HexDigit(t[i] % 16)>>])
QuoteAll(t) == Concat([i \in 1..Len(t) |->
                   IF IsAlnum(t[i]) \/ t[i] \in {95, 46, 45, 126} THEN <<t[i]>>
                   ELSE <<PCT, HexDigit(t[i] \div 16), HexDigit(t[i] % 16)>>])
GroupIndex(p, i) == Cardinality({j \in 1..i : p[j] \in Groups})
ReverseWith(p, args, Q(_)) == Concat([i \in 1..Len(p) |-> IF p[i] \in Groups THEN Q(args[GroupIndex(p, i)]) ELSE LitText(p[i])])
ReverseText(p, args) == ReverseWith(p, args, QuoteKeep)
RuleAt(rules, i, j) == IF j = 0 THEN rules[i].p ELSE rules[i].sub[j]

----------------------------------------------------------------------------
(* menus and generator *)
PatMenu ==
    "p_a" :> <<"s", "a">> @@ "p_ns" :> <<"s", "Gns">> @@ "p_any" :> <<"s", "Gany">>
    @@ "p_adig" :> <<"s", "a", "s", "Gdig">> @@ "p_ns2" :> <<"s", "Gns", "s", "Gns">>
    @@ "p_anydig" :> <<"s", "Gany", "s", "Gdig">> @@ "p_dot" :> <<"s", "a", "dot", "Gns">>
    @@ "p_named" :> <<"s", "Nns", "s", "Nany">> @@ "p_adj" :> <<"s", "Gdig", "Gany">> @@ "p_as" :> <<"s", "a", "s">>
    @@ "p_anyany" :> <<"s", "Gany", "s", "Gany">>
ArgMenu == "a" :> <<97>> @@ "1" :> <<49>> @@ "a1" :> <<97, 49>> @@ "A" :> <<65>> @@ "empty" :> <<>> @@ "slash" :> <<97, SLASH, 49>>
           @@ "pct" :> <<PCT, 52, 49>> @@ "sp" :> <<97, 32, 43>> @@ "q" :> <<QMARK, 35>> @@ "dots" :> <<DOT, DOT>> @@ "12" :> <<49, 50>>
PTok == "s" :> <<SLASH>> @@ "a" :> <<97>> @@ "1" :> <<49>> @@ "dot" :> <<DOT>> @@ "pA" :> <<PCT, 52, 49>> @@ "pS" :> <<PCT, 50, 70>>
        @@ "pbad" :> <<PCT, 52>> @@ "A" :> <<65>>
PathText(toks) == <<SLASH>> \o Concat([i \in 1..Len(toks) |-> PTok[toks[i]]])

PatSet == {PatMenu[x] : x \in Pats}
PathEntry(p) == [k |-> "path", h |-> "", p |-> p, sub |-> <<>>]
HostEntry(h, sub) == [k |-> "host", h |-> h, p |-> <<>>, sub |-> sub]
AddhEntry(h, sub) == [k |-> "addh", h |-> h, p |-> <<>>, sub |-> sub]
NestEntry(p, sub) == [k |-> "nest", h |-> "", p |-> p, sub |-> sub]
NestOuters == {<<"s", "Gany">>, <<"s", "a", "Gany">>}
Entries == {PathEntry(p) : p \in PatSet}
           \cup {HostEntry(h, <<p>>) : h \in HostPats, p \in PatSet}
           \cup {AddhEntry(h, <<p>>) : h \in HostPats, p \in PatSet}
           \cup {NestEntry(o, <<p>>) : o \in NestOuters, p \in PatSet}
           \cup {NestEntry(o, <<p, q>>) : o \in {<<"s", "Gany">>}, p \in PatSet, q \in PatSet}
RuleLists ==
    CASE Mode = "flat" -> {[i \in 1..Len(s) |-> PathEntry(s[i])] : s \in BoundedSeq(PatSet, MaxRules) \ {<<>>}}
      [] Mode = "struct" -> BoundedSeq(Entries, MaxRules) \ {<<>>}
      [] Mode = "gen" -> {<<PathEntry(<<"s">> \o q)>> : q \in {x \in BoundedSeq(ElemToks, GenLen) : WellFormed(x)}}

Proj == step.exp
InitWith(c) ==
    /\ cfg = c
    /\ n = 0
    /\ step = [act |-> "init", args |-> <<>>, exp |-> Default]
HasAddh(rl) == \E i \in 1..Len(rl) : rl[i].k = "addh"
InitState == \E rl \in RuleLists, dh \in DefaultHosts : (dh # "none" => HasAddh(rl)) /\ InitWith([rules |-> rl, dh |-> dh])

(* find_handler for a request with this Host header and path text *)
DoDispatch(host, s) ==
    /\ n < MaxReq
    /\ n' = n + 1 /\ UNCHANGED cfg
    /\ step' = [act |-> "dispatch", args |-> <<host, s>>, exp |-> Dispatch(cfg, host, s)]

(* reverse_url of the rule (i, j) (every rule is named) with argument texts *)
DoReverse(i, j, args) ==
    /\ n < MaxReq
    /\ i \in 1..Len(cfg.rules) /\ (IF j = 0 THEN cfg.rules[i].k = "path" ELSE j \in 1..Len(cfg.rules[i].sub))
    /\ Len(args) = NGroups(RuleAt(cfg.rules, i, j))
    /\ n' = n + 1 /\ UNCHANGED cfg
    /\ step' = [act |-> "reverse", args |-> <<i, j, args>>, exp |-> [url |-> ReverseText(RuleAt(cfg.rules, i, j), args)]]

ArgSet == {ArgMenu[x] : x \in ArgNames}
Next == /\ n < MaxReq
        /\ \/ \E host \in Hosts, toks \in BoundedSeq(PathToks, PathLen) : DoDispatch(host, PathText(toks))
           \/ \E i \in 1..Len(cfg.rules), j \in 0..2, k \in 0..2 : \E args \in [1..k -> ArgSet] : DoReverse(i, j, args)

Spec == InitState /\ [][Next]_<<vars, step>>

----------------------------------------------------------------------------
(* Properties (C31) *)
IsDispatch == step.act = "dispatch"
AllRules == {<<i, j>> \in (1..3) \X (0..2) : i <= Len(cfg.rules) /\ (IF j = 0 THEN cfg.rules[i].k = "path"
                                                                       ELSE j <= Len(cfg.rules[i].sub))}
(* does nested rule j (0 for a path entry) of slot q accept host and path, by the declarative semantics? *)
SlotAccepts(q, j, host, s) ==
    LET sl == Slots(cfg)[q] e == cfg.rules[sl.i] h == SlotHost(cfg, sl, host) IN
    CASE e.k = "path" -> j = 0 /\ Splits(e.p, 1, s, 1) # {}
      [] e.k \in {"host", "addh"} -> j \in 1..Len(e.sub) /\ HostMatch(e.h, h) /\ Splits(e.sub[j], 1, s, 1) # {}
      [] e.k = "nest" -> j \in 1..Len(e.sub) /\ Splits(e.p, 1, s, 1) # {} /\ Splits(e.sub[j], 1, s, 1) # {}
(* first match: the chosen rule is the accepting one that comes first in consultation order; default iff none *)
FirstMatch == IsDispatch =>
    LET host == step.args[1] s == step.args[2]
        hits == {x \in (1..Len(Slots(cfg))) \X (0..2) : SlotAccepts(x[1], x[2], host, s)}
    IN IF hits = {} THEN step.exp.rule = <<0, 0>>
       ELSE LET f == CHOOSE x \in hits : \A y \in hits : x[1] < y[1] \/ (x[1] = y[1] /\ x[2] <= y[2])
            IN step.exp.rule = <<Slots(cfg)[f[1]].i, f[2]>>
(* the engine's captures are a split of the text, the lexicographically longest one, then decoded *)
LongerOrEqual(a, b) == \/ a = b
                       \/ \E i \in 1..Len(a) : Len(a[i]) > Len(b[i]) /\ \A k \in 1..(i - 1) : Len(a[k]) = Len(b[k])
GreedyIsLexMax == IsDispatch /\ step.exp.rule # <<0, 0>> =>
    LET p == RuleAt(cfg.rules, step.exp.rule[1], step.exp.rule[2]) s == step.args[2] m == Match(p, s) IN
    /\ m.caps \in Splits(p, 1, s, 1)
    /\ \A c \in Splits(p, 1, s, 1) : LongerOrEqual(m.caps, c)
    /\ step.exp.args = Decoded(m.caps)
(* reverse / match agreement.  Arguments are representable in the rule's groups when some path
   yields them - witness: the path with every argument fully escaped (QuoteAll). *)
IsReverse == step.act = "reverse"
RevP == RuleAt(cfg.rules, step.args[1], step.args[2])
RoundTrips(p, url, args) == Match(p, url).ok /\ Decoded(Match(p, url).caps) = args
Representable(p, args) == RoundTrips(p, ReverseWith(p, args, QuoteAll), args)
NoSlash(args) == \A i \in 1..Len(args) : \A k \in 1..Len(args[i]) : args[i][k] # SLASH
(* holds: arguments without "/" *)
RoundTripNoSlash == IsReverse /\ NoSlash(step.args[3]) /\ Representable(RevP, step.args[3])
                    => RoundTrips(RevP, step.exp.url, step.args[3])
(* the full statement of the property; refuted by arguments containing "/" (kept by quote) *)
RoundTrip == IsReverse /\ Representable(RevP, step.args[3]) => RoundTrips(RevP, step.exp.url, step.args[3])
=============================================================================
