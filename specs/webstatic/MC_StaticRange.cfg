SPECIFICATION Spec
CONSTANTS
  Sizes = {0, 1, 5, 12}
  Methods = {"GET", "HEAD"}
  RPrefixes = {"B"}
  BodyToks = {"d0", "d1", "d4", "d5", "d12", "d99", "dash", "plus", "sp", "us", "comma", "x", "arab"}
  BodyLen = 3
  ImsFmts = {"imf", "rfc850", "asctime", "nozone"}
  CondRanges = {"r1to4", "bad"}
  MaxReq = 1
INVARIANT ContentOK
INVARIANT StatusOK
INVARIANT InvalidIgnored
INVARIANT Determinate
CHECK_DEADLOCK FALSE
