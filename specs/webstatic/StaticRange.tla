---------------------------- MODULE StaticRange ----------------------------
(***************************************************************************)
(* C27 - static Range / conditional responses match the file exactly.      *)
(*                                                                         *)
(* Reference semantics of a GET/HEAD for one static file of cfg.size bytes *)
(* (byte i is Content[i]) with an optional Range header value (text, one   *)
(* code point per element, as the application receives it after HTTP       *)
(* field-value trimming) and validators.  The Range grammar is strict:     *)
(*   "bytes=" ( 1*DIGIT "-" *DIGIT  |  "-" 1*DIGIT )   with ASCII digits   *)
(* anything else is not a byte-range specification and is ignored.         *)
(* The expectation is the *sequence of acceptable responses* (one or two): *)
(* where RFC 7233 and RFC 9110 / common practice disagree the property     *)
(* text does not settle the status, so both are accepted:                  *)
(*   - a range covering the whole file: 200 or 206 0-(n-1)                 *)
(*   - last < first: ignored (200) or 416                                  *)
(*   - non-zero suffix of an empty file: 200 (empty) or 416                *)
(* Integer arithmetic only; digit strings saturate at WebChars!Cap.        *)
(***************************************************************************)
EXTENDS WebChars

CONSTANTS Sizes,       \* file sizes explored
          Methods,     \* subset of {"GET", "HEAD"}
          RPrefixes,   \* generator: token names the value may start with
          BodyToks,    \* generator: token names after the prefix
          BodyLen,     \* generator: max number of body tokens
          ImsFmts,     \* generator: spellings of the If-Modified-Since date, subset of Fmts
          CondRanges,  \* generator: names from CondMenu, combined with all validators
          MaxReq

VARIABLES cfg,    \* [size, k]: the file is Content(cfg)
          n,
          lead,   \* generator only: prefix token of this initial state ("none": no Range header / validators)
          step

vars == <<cfg, n, lead>>

Content(c) == [i \in 1..c.size |-> (c.k + 7 * (i - 1)) % 251]

----------------------------------------------------------------------------
(* strict Range grammar *)
BYTES_EQ == <<98, 121, 116, 101, 115, 61>>
OWS(c) == c = 32 \/ c = 9
Trim(v) ==
    LET first == FoldLeft(LAMBDA acc, i : IF acc = 0 /\ ~OWS(v[i]) THEN i ELSE acc, 0, [i \in 1..Len(v) |-> i])
        last == FoldLeft(LAMBDA acc, i : IF ~OWS(v[i]) THEN i ELSE acc, 0, [i \in 1..Len(v) |-> i])
    IN IF first = 0 THEN <<>> ELSE SubSeq(v, first, last)

AllDigits(s) == \A i \in 1..Len(s) : IsDigit(s[i])
FirstIndex(s, c) == FoldLeft(LAMBDA acc, i : IF acc = 0 /\ s[i] = c THEN i ELSE acc, 0, [i \in 1..Len(s) |-> i])

NoRange == [ok |-> FALSE, kind |-> "none", a |-> 0, b |-> 0]
ParseStrict(value) ==
    LET v == Trim(value) IN
    IF ~StartsWith(v, BYTES_EQ) THEN NoRange
    ELSE LET r == Drop(v, 6)
             d == FirstIndex(r, 45)
         IN IF d = 0 THEN NoRange
            ELSE LET d1 == SubSeq(r, 1, d - 1)
                     d2 == SubSeq(r, d + 1, Len(r))
                 IN IF ~AllDigits(d1) \/ ~AllDigits(d2) THEN NoRange
                    ELSE IF d1 = <<>> THEN (IF d2 = <<>> THEN NoRange
                                           ELSE [ok |-> TRUE, kind |-> "suffix", a |-> 0, b |-> DecVal(d2)])
                    ELSE IF d2 = <<>> THEN [ok |-> TRUE, kind |-> "from", a |-> DecVal(d1), b |-> 0]
                    ELSE [ok |-> TRUE, kind |-> "fromto", a |-> DecVal(d1), b |-> DecVal(d2)]

----------------------------------------------------------------------------
(* responses: [st, crk, a, b, n, cl, body]; crk = "none" | "range" (bytes a-b/n) | "star" (bytes * /n) *)
Full(c) == [st |-> 200, crk |-> "none", a |-> 0, b |-> 0, n |-> 0, cl |-> c.size, body |-> Content(c)]
Part(c, a, b) == [st |-> 206, crk |-> "range", a |-> a, b |-> b, n |-> c.size, cl |-> b - a + 1,
                  body |-> SubSeq(Content(c), a + 1, b + 1)]
Unsat(c) == [st |-> 416, crk |-> "star", a |-> 0, b |-> 0, n |-> c.size, cl |-> 0, body |-> <<>>]
NotModified == [st |-> 304, crk |-> "none", a |-> 0, b |-> 0, n |-> 0, cl |-> 0, body |-> <<>>]

RangeOutcome(c, hasRange, value) ==
    LET p == IF hasRange THEN ParseStrict(value) ELSE NoRange
        sz == c.size
    IN IF ~p.ok THEN <<Full(c)>>
       ELSE IF p.kind = "suffix" THEN
              IF p.b = 0 THEN <<Unsat(c)>>
              ELSE IF sz = 0 THEN <<Full(c), Unsat(c)>>
              ELSE IF p.b >= sz THEN <<Full(c), Part(c, 0, sz - 1)>>
              ELSE <<Part(c, sz - p.b, sz - 1)>>
       ELSE IF p.kind = "fromto" /\ p.b < p.a THEN <<Full(c), Unsat(c)>>
       ELSE IF p.a >= sz THEN <<Unsat(c)>>
       ELSE LET e == IF p.kind = "from" \/ p.b >= sz THEN sz - 1 ELSE p.b
            IN IF p.a = 0 /\ e = sz - 1 THEN <<Full(c), Part(c, 0, sz - 1)>> ELSE <<Part(c, p.a, e)>>

(* The If-Modified-Since instant may be spelled in any of the three HTTP-date formats or without a
   zone; the spelling (fmt) never matters:  imf "Sun, 09 Sep 2001 01:46:40 GMT", rfc850
   "Sunday, 09-Sep-01 01:46:40 GMT", asctime "Sun Sep  9 01:46:40 2001", nozone "... -0000" *)
Fmts == {"imf", "rfc850", "asctime", "nozone"}
(* validators are abstract: inm in {"none","match","differ","star","weak","list","listdiffer"},
   ims in {"none","before","equal","after","garbage"}; If-None-Match takes precedence *)
Cond304(inm, ims) ==
    IF inm # "none" THEN inm \in {"match", "star", "weak", "list"}
    ELSE ims \in {"equal", "after"}

HeadOf(rs) == [i \in 1..Len(rs) |-> [rs[i] EXCEPT !.body = <<>>]]

Allowed(c, m, hasRange, value, inm, ims) ==
    LET rs == IF Cond304(inm, ims) THEN <<NotModified>> ELSE RangeOutcome(c, hasRange, value)
    IN IF m = "HEAD" THEN HeadOf(rs) ELSE rs

----------------------------------------------------------------------------
(* generator tokens *)
RTok ==
    "B" :> BYTES_EQ @@ "Bsp" :> <<98, 121, 116, 101, 115, 32, 61>> @@ "spB" :> <<32>> \o BYTES_EQ
    @@ "Beqsp" :> BYTES_EQ \o <<32>> @@ "items" :> <<105, 116, 101, 109, 115, 61>>
    @@ "BY" :> <<98, 121, 116, 101, 115>> @@ "empty" :> <<>> @@ "tabB" :> <<9>> \o BYTES_EQ
    @@ "nbspB" :> <<160>> \o BYTES_EQ
    @@ "d0" :> <<48>> @@ "d1" :> <<49>> @@ "d4" :> <<52>> @@ "d5" :> <<53>> @@ "d11" :> <<49, 49>> @@ "d12" :> <<49, 50>>
    @@ "d99" :> <<57, 57>> @@ "d007" :> <<48, 48, 55>> @@ "dbig" :> <<57, 57, 57, 57, 57, 57, 57, 57, 57, 57, 57, 57>>
    @@ "dash" :> <<45>> @@ "plus" :> <<43>> @@ "sp" :> <<32>> @@ "us" :> <<95>> @@ "comma" :> <<44>>
    @@ "x" :> <<120>> @@ "dot" :> <<46>> @@ "tab" :> <<9>> @@ "sup2" :> <<178>> @@ "nbsp" :> <<160>>
    @@ "arab" :> <<1635>> @@ "eq" :> <<61>>
CondMenu == "r1to4" :> <<"B", "d1", "dash", "d4">> @@ "from0" :> <<"B", "d0", "dash">> @@ "suffix1" :> <<"B", "dash", "d1">>
            @@ "bad" :> <<"B", "x">> @@ "beyond" :> <<"B", "d99", "dash">>
ValueOf(toks) == Concat([i \in 1..Len(toks) |-> RTok[toks[i]]])
Latin1(v) == \A i \in 1..Len(v) : v[i] < 256

Proj == step.exp
Obs(a, args, allowed) == [act |-> a, args |-> args, exp |-> allowed]

InitWith(c) ==
    /\ cfg = c
    /\ n = 0
    /\ lead \in RPrefixes \cup {"none"}
    /\ step = [act |-> "init", args |-> <<>>, exp |-> <<>>]

InitState == \E s \in Sizes : InitWith([size |-> s, k |-> 3])

(* one request through HTTP; value must be transportable in a latin-1 header *)
Request(m, hasRange, value, inm, ims, fmt) ==
    /\ n < MaxReq
    /\ Latin1(value) /\ fmt \in Fmts
    /\ n' = n + 1
    /\ UNCHANGED <<cfg, lead>>
    /\ step' = Obs("request", <<m, hasRange, value, inm, ims, fmt>>, Allowed(cfg, m, hasRange, value, inm, ims))

(* _parse_request_range driven directly (strings that cannot travel in a header): is the header ignored? *)
Parse(value) ==
    /\ n < MaxReq
    /\ n' = n + 1
    /\ UNCHANGED <<cfg, lead>>
    /\ step' = Obs("parse", <<value>>, <<[ignored |-> ~ParseStrict(value).ok]>>)

Inms == {"none", "match", "differ", "star", "weak", "list", "listdiffer"}
Imss == {"none", "before", "equal", "after", "garbage"}

Next ==
    /\ n < MaxReq
    /\ IF lead = "none"
         THEN \E m \in Methods, inm \in Inms, ims \in Imss, r \in CondRanges \cup {"norange"},
                 fmt \in (ImsFmts \cup {"imf"}) :
                (ims \in {"none", "garbage"} => fmt = "imf")
                /\ Request(m, r # "norange", IF r = "norange" THEN <<>> ELSE ValueOf(CondMenu[r]), inm, ims, fmt)
         ELSE \E body \in BoundedSeq(BodyToks, BodyLen) :
                LET v == ValueOf(<<lead>> \o body) IN
                IF Latin1(v) THEN \E m \in Methods : Request(m, TRUE, v, "none", "none", "imf")
                ELSE Parse(v)

Spec == InitState /\ [][Next]_<<vars, step>>

----------------------------------------------------------------------------
(* Properties (C27) of the reference *)
Req == step.act = "request"
Resp == {step.exp[i] : i \in 1..Len(step.exp)}
ContentOK == Req => \A r \in Resp :
    /\ r.st = 200 => r.cl = cfg.size /\ (step.args[1] = "GET" => r.body = Content(cfg))
    /\ r.st = 206 => /\ 0 <= r.a /\ r.a <= r.b /\ r.b < cfg.size /\ r.n = cfg.size
                     /\ r.cl = r.b - r.a + 1
                     /\ (step.args[1] = "GET" => r.body = [i \in 1..r.cl |-> Content(cfg)[r.a + i]])
    /\ r.st = 416 => r.crk = "star" /\ r.n = cfg.size /\ r.body = <<>>
    /\ r.st = 304 => r.body = <<>>
    /\ step.args[1] = "GET" /\ r.st # 304 => r.cl = Len(r.body)
    /\ step.args[1] = "HEAD" => r.body = <<>>
StatusOK == Req => \A r \in Resp : r.st \in {200, 206, 416, 304}
(* an invalid header never changes the response *)
InvalidIgnored == Req /\ step.args[2] /\ ~ParseStrict(step.args[3]).ok
                  => step.exp = Allowed(cfg, step.args[1], FALSE, <<>>, step.args[4], step.args[5])
(* at least one and at most two acceptable responses; two only at the documented disputed points *)
Determinate == Req => Len(step.exp) \in {1, 2}
=============================================================================
