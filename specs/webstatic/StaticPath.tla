---------------------------- MODULE StaticPath ----------------------------
(***************************************************************************)
(* C26 - StaticFileHandler never leaves its root directory.                *)
(*                                                                         *)
(* Reference semantics of resolving the URL path of a static request to a  *)
(* file: percent-decode, join with the root, POSIX lexical normalization   *)
(* (os.path.normpath: "", "." dropped, ".." pops, exactly two leading      *)
(* slashes preserved), containment test, directory default file, stat.     *)
(*                                                                         *)
(* File system: the directory cfg.rootp (a sequence of names, the scratch  *)
(* directory of the harness) contains                                      *)
(*    r/            the static root                                        *)
(*    r/a  r/index.html  r/sub/index.html  r/sub/b  r/d/ (empty dir)       *)
(* and, only if cfg.outside,                                               *)
(*    o    r2/a    rx/index.html     (siblings sharing the root's prefix)  *)
(* Files are identified by their (distinct) sizes.                         *)
(*                                                                         *)
(* One action = one GET/HEAD request for /static/<raw path>.  The          *)
(* containment test is modelled the way the design does it (string prefix  *)
(* of the normalized path with a separator appended, SepCheck = TRUE);     *)
(* the invariants state containment on whole segments and independence     *)
(* from everything outside the root.                                       *)
(***************************************************************************)
EXTENDS WebChars

CONSTANTS SideW, SideN,  \* names of the two copies' directories, encoded like RootName ({1083} = placeholder "S")
          RootName,   \* name of the scratch directory /tmp/<name> containing the root, as the set {1000 * i + c_i}
                      \* (cfg files cannot hold sequences); {1080} is the placeholder name "P" of generated paths
          GenToks,    \* token names the generator builds paths from
          PathLen,    \* max tokens per generated path
          MaxReq,     \* requests per behaviour
          Methods,    \* subset of {"GET", "HEAD"} the generator uses
          Spells,     \* spellings of the configured root explored: subset of SpellNames
          SepCheck    \* TRUE: containment tested against root + "/" (the design); FALSE: naive prefix

VARIABLES cfg,   \* [dflt, outside, spell]
          n,     \* requests made
          lead,  \* generator only: first token of the paths explored from this initial state
                 \* ("none": no restriction / the empty path); it only spreads TLC's work over workers
          step

vars == <<cfg, n, lead>>

(* The root is /tmp/<scratch>/<side>/r: the harness keeps two copies of the tree in one scratch
   directory, side "w" with and side "n" without the files outside the root.  Generated paths use
   the placeholder names P (scratch) and S (side), which the harness substitutes; recorded traces
   carry the real names (constants RootName, SideW, SideN of the trace run). *)
NameOf(S) == [i \in 1..Cardinality(S) |-> (CHOOSE x \in S : x \div 1000 = i) % 1000]
RootPW == <<<<116, 109, 112>>, NameOf(RootName), NameOf(SideW)>>
RootPN == <<<<116, 109, 112>>, NameOf(RootName), NameOf(SideN)>>

N_r == <<114>>
N_r2 == <<114, 50>>
N_rx == <<114, 120>>
N_a == <<97>>
N_b == <<98>>
N_d == <<100>>
N_o == <<111>>
N_sub == <<115, 117, 98>>
N_index == <<105, 110, 100, 101, 120, 46, 104, 116, 109, 108>>

(* the file system: absolute segment paths -> file id (its size); directories *)
InFiles == {<<<<N_a>>, 11>>, <<<<N_index>>, 14>>, <<<<N_sub, N_index>>, 12>>, <<<<N_sub, N_b>>, 13>>}
InDirs == {<<>>, <<N_sub>>, <<N_d>>}
InsideIds == {f[2] : f \in InFiles}
OutFilesOf(rp) == {<<rp \o <<N_o>>, 21>>, <<rp \o <<N_r2, N_a>>, 22>>, <<rp \o <<N_rx, N_index>>, 23>>}
AboveDirsOf(rp) == {SubSeq(rp, 1, k) : k \in 0..Len(rp)}
OutDirsOf(rp) == {rp \o <<N_r2>>, rp \o <<N_rx>>}
InFilesOf(rp) == {<<rp \o <<N_r>> \o f[1], f[2]>> : f \in InFiles}
InDirsOf(rp) == {rp \o <<N_r>> \o d : d \in InDirs}
(* constant-level tables, evaluated once *)
RootW == RootPW \o <<N_r>>
RootN == RootPN \o <<N_r>>
FilesW1 == InFilesOf(RootPW) \cup OutFilesOf(RootPW)
FilesW0 == InFilesOf(RootPW)
FilesN1 == InFilesOf(RootPN) \cup OutFilesOf(RootPN)
FilesN0 == InFilesOf(RootPN)
DirsW1 == InDirsOf(RootPW) \cup AboveDirsOf(RootPW) \cup OutDirsOf(RootPW)
DirsW0 == InDirsOf(RootPW) \cup AboveDirsOf(RootPW)
DirsN1 == InDirsOf(RootPN) \cup AboveDirsOf(RootPN) \cup OutDirsOf(RootPN)
DirsN0 == InDirsOf(RootPN) \cup AboveDirsOf(RootPN)

RootP(c) == IF c.outside THEN RootPW ELSE RootPN
Root(c) == IF c.outside THEN RootW ELSE RootN
(* pr: the files outside the root are present (in the real trees: exactly on side w) *)
Files(c, pr) == IF c.outside THEN (IF pr THEN FilesW1 ELSE FilesW0) ELSE (IF pr THEN FilesN1 ELSE FilesN0)
Dirs(c, pr) == IF c.outside THEN (IF pr THEN DirsW1 ELSE DirsW0) ELSE (IF pr THEN DirsN1 ELSE DirsN0)

IsDir(c, pr, p) == p \in Dirs(c, pr)
IsFile(c, pr, p) == \E f \in Files(c, pr) : f[1] = p
FileId(c, pr, p) == (CHOOSE f \in Files(c, pr) : f[1] = p)[2]

(* os.path.normpath on the segments of an absolute path *)
Norm(segs) ==
    FoldLeft(LAMBDA st, s : IF s = <<>> \/ s = <<DOT>> THEN st
                            ELSE IF s = <<DOT, DOT>> THEN (IF st = <<>> THEN st ELSE SubSeq(st, 1, Len(st) - 1))
                            ELSE Append(st, s),
             <<>>, segs)

(* How the application spelled the root when configuring the handler.  The handler must treat the
   root as os.path.abspath(spelling), so the response does not depend on the spelling:
   plain  /tmp/P/S/r      trailing  /tmp/P/S/r/      dotted  /tmp/P/S/./r
   dotdot /tmp/P/S/r/sub/..         relative  ../tmp/P/S/r  (from the working directory Cwd) *)
SpellNames == {"plain", "trailing", "dotted", "dotdot", "relative"}
Cwd == <<<<118, 101, 114, 105, 102>>>>                                   \* /verif
SpelledRoot(c) ==
    CASE c.spell = "plain" -> Root(c)
      [] c.spell = "trailing" -> Root(c) \o <<<<>>>>
      [] c.spell = "dotted" -> RootP(c) \o <<<<DOT>>, N_r>>
      [] c.spell = "dotdot" -> Root(c) \o <<N_sub, <<DOT, DOT>>>>
      [] c.spell = "relative" -> Cwd \o [i \in 1..Len(Cwd) |-> <<DOT, DOT>>] \o Root(c)

(* the normalized absolute path of a request: [lead |-> 1 or 2 leading slashes, segs |-> names] *)
Target(c, raw) ==
    LET d == Dec(raw)
        isabs == Len(d) > 0 /\ d[1] = SLASH
        segs == Split(d, SLASH)
    IN [lead |-> IF isabs /\ Leading(d, SLASH) = 2 THEN 2 ELSE 1,
        segs |-> Norm(IF isabs THEN segs ELSE Root(c) \o segs)]

(* the path as a string, as os.path.abspath returns it *)
Render(t) == (IF t.lead = 2 THEN <<SLASH, SLASH>> ELSE <<SLASH>>) \o Join(t.segs, SLASH)
RootStr(c) == <<SLASH>> \o Join(Root(c), SLASH)

(* the design's containment test: (abspath + "/").startswith(root + "/") *)
DesignInside(c, t) ==
    IF SepCheck THEN StartsWith(Render(t) \o <<SLASH>>, RootStr(c) \o <<SLASH>>)
    ELSE StartsWith(Render(t), RootStr(c))

(* the property's notion: whole segments *)
SegInside(c, t) == t.lead = 1 /\ IsPrefix(Root(c), t.segs)

Deny == [kind |-> "deny", file |-> 0]

(* request.path ends with "/" (the route prefix "/static/" itself ends with one) *)
Trailing(raw) == raw = <<>> \/ raw[Len(raw)] = SLASH

RespondP(c, pr, raw) ==
    LET t == Target(c, raw) IN
    IF ~DesignInside(c, t) THEN Deny
    ELSE IF t.lead = 1 /\ IsDir(c, pr, t.segs) /\ c.dflt
      THEN IF ~Trailing(raw) THEN [kind |-> "redirect", file |-> 0]
           ELSE IF IsFile(c, pr, t.segs \o <<N_index>>)
                  THEN [kind |-> "serve", file |-> FileId(c, pr, t.segs \o <<N_index>>)]
                  ELSE Deny
    ELSE IF t.lead = 1 /\ IsFile(c, pr, t.segs) THEN [kind |-> "serve", file |-> FileId(c, pr, t.segs)]
    ELSE Deny
Respond(c, raw) == RespondP(c, c.outside, raw)

----------------------------------------------------------------------------
(* generator tokens: name -> raw units *)
E(c) == 256 + c
AbsTok(segs) == Concat([i \in 1..Len(segs) |-> <<E(SLASH)>> \o segs[i]])   \* %2Ftmp%2F...%2Fr
TokOf(rp) ==
    "a" :> N_a @@ "sub" :> N_sub @@ "b" :> N_b @@ "d" :> N_d @@ "index" :> N_index
    @@ "empty" :> <<>> @@ "dot" :> <<DOT>> @@ "dotdot" :> <<DOT, DOT>>
    @@ "r" :> N_r @@ "r2" :> N_r2 @@ "rx" :> N_rx @@ "o" :> N_o
    @@ "pdotdot" :> <<E(DOT), E(DOT)>> @@ "mixdotdot" :> <<DOT, 512 + DOT>>
    @@ "pslash" :> <<E(SLASH)>> @@ "ddslashdd" :> <<DOT, DOT, E(SLASH), DOT, DOT>>
    @@ "nul" :> <<E(0)>> @@ "anul" :> <<97, E(0)>> @@ "nula" :> <<E(0), 97>>
    @@ "bsdd" :> <<DOT, DOT, E(BSLASH)>> @@ "absroot" :> AbsTok(rp \o <<N_r>>)
    @@ "absr2" :> AbsTok(rp \o <<N_r2>>)
    @@ "dots3" :> <<DOT, DOT, DOT>>
TokW == TokOf(RootPW)
TokN == TokOf(RootPN)
Tok(c) == IF c.outside THEN TokW ELSE TokN

RawOf(c, toks) == Join([i \in 1..Len(toks) |-> Tok(c)[toks[i]]], SLASH)

Proj == step.exp
Obs(a, args, c) == [act |-> a, args |-> args, exp |-> Respond(c, args[2])]

InitWith(c) ==
    /\ cfg = c
    /\ n = 0
    /\ lead \in GenToks \cup {"none"}
    /\ step = [act |-> "init", args |-> <<>>, exp |-> Deny]

InitState == \E d \in BOOLEAN, o \in BOOLEAN, sp \in Spells : InitWith([dflt |-> d, outside |-> o, spell |-> sp])

(* one request; m in {"GET", "HEAD"}; raw is the path after /static/ *)
Request(m, raw) ==
    /\ n < MaxReq
    /\ n' = n + 1
    /\ UNCHANGED <<cfg, lead>>
    /\ step' = Obs("request", <<m, raw>>, cfg)

Next == /\ n < MaxReq
        /\ \E m \in Methods :
             IF lead = "none" THEN Request(m, <<>>)
             ELSE \E rest \in BoundedSeq(GenToks, PathLen - 1) : Request(m, RawOf(cfg, <<lead>> \o rest))

Spec == InitState /\ [][Next]_<<vars, step>>

----------------------------------------------------------------------------
(* Properties (C26) *)
Req == step.act = "request"
ReqT == Target(cfg, step.args[2])

(* serving or redirecting happens only for a path inside the root, on whole segments *)
Confined == Req /\ step.exp.kind \in {"serve", "redirect"} => SegInside(cfg, ReqT)
(* only files under the root are ever served *)
ServesRootFilesOnly == Req /\ step.exp.kind = "serve" => step.exp.file \in InsideIds
(* nothing outside the root influences the response (existence is not revealed) *)
NonInterference == Req => RespondP(cfg, TRUE, step.args[2]) = RespondP(cfg, FALSE, step.args[2])
(* every spelling of the root denotes the same directory *)
SpellingIrrelevant == cfg.spell \in SpellNames /\ Norm(SpelledRoot(cfg)) = Root(cfg)
(* the design's string test agrees with segment containment *)
DesignIsSegmentwise == Req => (DesignInside(cfg, ReqT) <=> SegInside(cfg, ReqT))
(* functional part: every file under the root is reachable by its plain relative path *)
PlainPathServed == Req /\ (\E f \in InFiles : step.args[2] = Join(f[1], SLASH))
                   => step.exp.kind = "serve"

View == <<vars, step>>
=============================================================================
