---------------------------- MODULE SlashRedirect ----------------------------
(***************************************************************************)
(* C28 - redirects Tornado derives from the request path never point to    *)
(* another site: @removeslash, @addslash, the static directory redirect,   *)
(* and @authenticated (only to the configured login URL).                  *)
(*                                                                         *)
(* A request is a raw target path (WebChars units; origin-form "/...",    *)
(* absolute-form "http://host/...", "*" or authority-form - request.path  *)
(* holds whatever precedes "?"), an optional query and a method.  The expectation is a record                        *)
(*   [mode, st, loc]                                                       *)
(*   mode "exact":  the response has status st and Location loc            *)
(*   mode "noredirect": the response is not a redirect (the handler runs,  *)
(*                  or the method is refused)                              *)
(*   mode "safe":   the redirect the decorator would naively build (loc)   *)
(*                  is NOT a same-host path; any response is acceptable    *)
(*                  that is not a redirect or whose Location is safe       *)
(*   mode "ifredirect": (static) whether a redirect happens is C26's       *)
(*                  business; if it does, Location must be safe, and equal *)
(*                  to loc = path + "/" whenever that is safe              *)
(* Accept(exp, obs) is the conformance relation used by trace validation.  *)
(***************************************************************************)
EXTENDS WebChars

CONSTANTS Kinds,      \* subset of {"removeslash","addslash","static1","static2","static3","auth_rel","auth_query","auth_abs"}
          Methods,
          Forms,                \* generator: target forms, subset of {"origin", "absolute", "asterisk", "authority"}
          SegToks, PathLen,     \* generator: segment tokens, max segments
          Queries,              \* generator: query token names
          MaxReq

VARIABLES cfg,   \* [kind]
          n, step
vars == <<cfg, n>>

Txt_login == <<47, 108, 111, 103, 105, 110>>                          \* /login
Txt_loginq == Txt_login \o <<63, 120, 61, 49>>                         \* /login?x=1
Txt_host == <<101, 120, 97, 109, 112, 108, 101, 46, 99, 111, 109>>     \* example.com (Host header of every request)
Txt_http == <<104, 116, 116, 112, 58, 47, 47>>                         \* http://
Txt_loginabs == Txt_http \o <<97, 117, 116, 104, 46, 116, 101, 115, 116>> \o Txt_login   \* http://auth.test/login
Txt_next == <<63, 110, 101, 120, 116, 61>>                             \* ?next=

Login(k) == CASE k = "auth_rel" -> Txt_login [] k = "auth_query" -> Txt_loginq [] k = "auth_abs" -> Txt_loginabs

(* a Location that stays on this host: one "/" followed by neither "/" nor "\" *)
Safe(loc) == /\ Len(loc) >= 1 /\ loc[1] = SLASH
             /\ (Len(loc) >= 2 => loc[2] # SLASH /\ loc[2] # BSLASH)

IsRedirect(st) == st \in 300..399

(* urllib.parse.quote_plus *)
Unreserved(c) == IsAlnum(c) \/ c \in {95, 46, 45, 126}
QuotePlus(s) == Concat([i \in 1..Len(s) |->
                  IF Unreserved(s[i]) THEN <<s[i]>>
                  ELSE IF s[i] = 32 THEN <<43>>
                  ELSE <<PCT, HexDigit(s[i] \div 16), HexDigit(s[i] % 16)>>])

(* request target pieces: path text, "?" + query when hasq *)
QPart(hasq, q) == IF hasq THEN <<QMARK>> \o q ELSE <<>>
QAppend(hasq, q) == IF hasq /\ q # <<>> THEN <<QMARK>> \o q ELSE <<>>      \* decorators: only a non-empty query
Uri(raw, hasq, q) == Wire(raw) \o QPart(hasq, q)

Exact(st, loc) == [mode |-> "exact", st |-> st, loc |-> loc]
Derived(st, loc) == IF Safe(loc) THEN Exact(st, loc) ELSE [mode |-> "safe", st |-> 0, loc |-> loc]
NoRedirect == [mode |-> "noredirect", st |-> 0, loc |-> <<>>]

Expect(c, m, raw, hasq, q) ==
    LET p == Wire(raw) IN
    IF m \notin {"GET", "HEAD"} THEN NoRedirect      \* the decorators only redirect safe methods (404 / 403 / 405 otherwise)
    ELSE
    CASE c.kind = "removeslash" ->
            IF EndsWith(p, <<SLASH>>) /\ RStrip(p, SLASH) # <<>>
            THEN Derived(301, RStrip(p, SLASH) \o QAppend(hasq, q)) ELSE NoRedirect
      [] c.kind = "addslash" ->
            IF ~EndsWith(p, <<SLASH>>) THEN Derived(301, p \o <<SLASH>> \o QAppend(hasq, q)) ELSE NoRedirect
      [] c.kind \in {"static1", "static2", "static3"} ->       \* locsafe: TLC's verdict on loc, so that the replayer can compare
            [mode |-> "ifredirect", st |-> 301, loc |-> p \o <<SLASH>>, locsafe |-> Safe(p \o <<SLASH>>)]
      [] c.kind \in {"auth_rel", "auth_query"} ->
            Exact(302, IF c.kind = "auth_query" THEN Login(c.kind)
                       ELSE Login(c.kind) \o Txt_next \o QuotePlus(Uri(raw, hasq, q)))
      [] c.kind = "auth_abs" ->
            Exact(302, Login(c.kind) \o Txt_next \o QuotePlus(Txt_http \o Txt_host \o Uri(raw, hasq, q)))

(* conformance relation; obs = [st, loc] (loc = <<>> when there is no Location header) *)
Accept(exp, obs) ==
    CASE exp.mode = "exact" -> obs.st = exp.st /\ obs.loc = exp.loc
      [] exp.mode = "noredirect" -> ~IsRedirect(obs.st)
      [] exp.mode = "safe" -> ~IsRedirect(obs.st) \/ Safe(obs.loc)
      [] exp.mode = "ifredirect" -> IsRedirect(obs.st) => /\ Safe(obs.loc)
                                                          /\ (Safe(exp.loc) => obs.loc = exp.loc)

----------------------------------------------------------------------------
(* generator *)
STok ==
    "a" :> <<97>> @@ "empty" :> <<>> @@ "evil" :> <<101, 118, 105, 108, 46, 99, 111, 109>>
    @@ "bs" :> <<BSLASH>> @@ "bsevil" :> <<BSLASH, 101, 118, 105, 108, 46, 99, 111, 109>>
    @@ "pslash" :> <<256 + SLASH>> @@ "pbs" :> <<256 + BSLASH>> @@ "sub" :> <<115, 117, 98>> @@ "d" :> <<100>>
    @@ "dotdot" :> <<DOT, DOT>> @@ "pdotdot" :> <<256 + DOT, 256 + DOT>> @@ "dot" :> <<DOT>> @@ "at" :> <<64, 101, 118, 105, 108, 46, 99, 111, 109>>
    @@ "scheme" :> <<104, 116, 116, 112, 58>> @@ "sp" :> <<256 + 32>> @@ "amp" :> <<97, 38, 98, 61, 99>>
QTok == "noq" :> <<>> @@ "emptyq" :> <<>> @@ "q1" :> <<120, 61, 49>> @@ "qevil" :> <<47, 47, 101, 118, 105, 108, 46, 99, 111, 109>>
        @@ "qsp" :> <<97, 61, 98, 43, 99, 38, 100, 61, 37, 50, 48>>
Txt_evil == <<101, 118, 105, 108, 46, 101, 120, 97, 109, 112, 108, 101>>        \* evil.example
PathOf(form, toks) ==
    LET rest == <<SLASH>> \o Join([i \in 1..Len(toks) |-> STok[toks[i]]], SLASH) IN
    CASE form = "origin" -> rest
      [] form = "absolute" -> Txt_http \o Txt_evil \o rest               \* http://evil.example/...
      [] form = "asterisk" -> <<42>>                                     \* *
      [] form = "authority" -> Txt_evil \o <<58, 56, 48>>                 \* evil.example:80

Proj == step.exp
InitWith(c) ==
    /\ cfg = c
    /\ n = 0
    /\ step = [act |-> "init", args |-> <<>>, exp |-> NoRedirect]
InitState == \E k \in Kinds : InitWith([kind |-> k])

Request(m, raw, hasq, q) ==
    /\ n < MaxReq
    /\ Len(raw) >= 1
    /\ n' = n + 1
    /\ UNCHANGED cfg
    /\ step' = [act |-> "request", args |-> <<m, raw, hasq, q>>, exp |-> Expect(cfg, m, raw, hasq, q)]

Next == /\ n < MaxReq
        /\ \E m \in Methods, form \in Forms :
           \E toks \in (IF form \in {"asterisk", "authority"} THEN {<<>>} ELSE BoundedSeq(SegToks, PathLen)),
              qn \in (IF cfg.kind \in {"static1", "static2", "static3"} THEN {"noq"} ELSE Queries) :
              Request(m, PathOf(form, toks), qn # "noq", QTok[qn])

Spec == InitState /\ [][Next]_<<vars, step>>

----------------------------------------------------------------------------
(* Properties (C28) of the reference *)
Req == step.act = "request"
(* whatever the reference tells the implementation to emit for the slash decorators and the
   static handler is a same-host path *)
ReferenceSafe == Req /\ cfg.kind \notin {"auth_rel", "auth_query", "auth_abs"} /\ step.exp.mode = "exact"
                 /\ IsRedirect(step.exp.st) => Safe(step.exp.loc)
(* the login redirect is the configured login URL, followed at most by ?next=<escaped text> in
   which nothing can terminate or extend the URL *)
LoginOnly == Req /\ cfg.kind \in {"auth_rel", "auth_query", "auth_abs"} /\ step.exp.mode = "exact" =>
    LET L == Login(cfg.kind) loc == step.exp.loc IN
    /\ StartsWith(loc, L)
    /\ LET rest == Drop(loc, Len(L)) IN
       rest = <<>> \/ (/\ StartsWith(rest, Txt_next)
                       /\ \A i \in (Len(Txt_next) + 1)..Len(rest) : Unreserved(rest[i]) \/ rest[i] \in {PCT, 43})
(* anything accepted by the relation is safe (or not a redirect) for the path-derived kinds *)
AcceptImpliesSafe == Req /\ cfg.kind \notin {"auth_rel", "auth_query", "auth_abs"} =>
    \A loc \in {step.exp.loc, <<SLASH, SLASH, 120>>, <<SLASH, BSLASH, 120>>, <<SLASH, 120>>} :
        Accept(step.exp, [st |-> 301, loc |-> loc]) => Safe(loc)
=============================================================================
