---------------------------- MODULE Trace_Routing ----------------------------
(* Validates recorded routing observations against Routing.tla.
   {"id":n, "cfg":{"rules":[{"k":..,"h":..,"p":[elems],"sub":[[elems]..]}..]},
    "ev":[{"a":"dispatch","args":[host,[path text]],"obs":{"rule":[i,j],"args":[[bytes]..],"named":b}}
        | {"a":"reverse","args":[i,j,[[arg text]..]],"obs":{"url":[text]}}]} *)
EXTENDS Routing, Json, IOUtils, TLCExt
Traces == ndJsonDeserialize(IOEnv.TRACE_FILE)
Verbose == IOEnv.TRACE_VERBOSE = "1"
VARIABLES tid, l
Ev == Traces[tid].ev
TraceInit ==
    /\ tid \in 1..Len(Traces)
    /\ l = 1
    /\ InitWith([rules |-> Traces[tid].cfg.rules, dh |-> Traces[tid].cfg.dh])
IsEvent(a) == l <= Len(Ev) /\ Ev[l].a = a /\ l' = l + 1 /\ UNCHANGED tid
Bind == Proj' = Ev[l].obs
TrDispatch == IsEvent("dispatch") /\ DoDispatch(Ev[l].args[1], Ev[l].args[2]) /\ Bind
TrReverse == IsEvent("reverse") /\ DoReverse(Ev[l].args[1], Ev[l].args[2], Ev[l].args[3]) /\ Bind
TraceNext == TrDispatch \/ TrReverse
TraceSpec == TraceInit /\ [][TraceNext]_<<vars, step, tid, l>>
Report == IF Verbose THEN PrintT(<<"AT", Traces[tid].id, l>>)
          ELSE (l = Len(Ev) + 1 => PrintT(<<"ACCEPT", Traces[tid].id>>))
=============================================================================
