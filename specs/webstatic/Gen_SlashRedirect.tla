---------------------------- MODULE Gen_SlashRedirect ----------------------------
(* Request sequences on one application (history in the state) for seeded simulation walks. *)
EXTENDS SlashRedirect
VARIABLE hist
GenInit == InitState /\ hist = <<>>
GenNext == Next /\ hist' = Append(hist, step')
GenSpec == GenInit /\ [][GenNext]_<<vars, step, hist>>
=============================================================================
