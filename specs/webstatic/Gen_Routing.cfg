SPECIFICATION GenSpec
CONSTANTS
  Mode = "struct"
  Pats = {"p_a", "p_ns", "p_adig", "p_named"}
  HostPats = {"h_a", "h_any"}
  MaxRules = 2
  ElemToks = {}
  GenLen = 0
  DefaultHosts = {"none", "a.com"}
  Hosts = {"a.com", "b.com", "xa.com", "a.com:8080", "a.com.evil.net"}
  PathToks = {"s", "a", "1", "pA", "pS"}
  PathLen = 3
  ArgNames = {"a", "1", "pct"}
  MaxReq = 8
CHECK_DEADLOCK FALSE
