SPECIFICATION Spec
CONSTANTS
  Mode = "flat"
  Pats = {"p_ns", "p_any", "p_adig", "p_ns2"}
  HostPats = {}
  MaxRules = 1
  ElemToks = {}
  GenLen = 0
  DefaultHosts = {"none"}
  Hosts = {}
  PathToks = {}
  PathLen = 0
  ArgNames = {"a", "1", "slash", "pct", "empty", "sp"}
  MaxReq = 1
INVARIANT RoundTrip
CHECK_DEADLOCK FALSE
