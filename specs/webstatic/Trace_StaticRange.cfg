SPECIFICATION TraceSpec
CONSTANTS
  Sizes = {0}
  Methods = {"GET", "HEAD"}
  RPrefixes = {}
  BodyToks = {}
  BodyLen = 0
  ImsFmts = {}
  CondRanges = {}
  MaxReq = 1000000
CONSTRAINT Report
INVARIANT ContentOK
INVARIANT StatusOK
INVARIANT InvalidIgnored
INVARIANT Determinate
CHECK_DEADLOCK FALSE
