--------------------------- MODULE SelectorThread ---------------------------
(***************************************************************************)
(* tornado.platform.asyncio.SelectorThread (property C40).                 *)
(*                                                                         *)
(* Three processes: the event-loop thread (main = 1), the selector thread  *)
(* (sel = 2) and the environment (env = 3, makes fds ready).  One PlusCal  *)
(* label = one atomic step of a thread = exactly one event in the log the  *)
(* harness records from the real code (there are no silent steps), so the  *)
(* trace specification is a 1:1 replay of label actions.                   *)
(*                                                                         *)
(*   condition variable  : mutex (0 = free, else owner), waitset           *)
(*   _select_args        : selArgs  ([some |-> FALSE] = None)              *)
(*   _closing_selector   : closing                                         *)
(*   waker socketpair    : waker = bytes buffered (fd 0 = _waker_r)        *)
(*   _readers / _writers : reg["r"], reg["w"]   (touched by main only)     *)
(*   kernel readiness    : ready["r"], ready["w"] of the user fds 1..NF    *)
(*   loop callback queue : queue of pending _handle_select(rs, ws) calls   *)
(*                                                                         *)
(* select() is modelled at contract level: it returns when some fd of its  *)
(* arguments is ready; the result contains every fd that was ready when    *)
(* the call began (readiness never decreases during a select, invariant    *)
(* NoUnreadyDuringSelect) and is contained in what is ready when it ends,  *)
(* in any order.                                                           *)
(*                                                                         *)
(* The translation below is produced by `pcal -nocfg SelectorThread.tla`.  *)
(***************************************************************************)
EXTENDS Integers, Sequences, FiniteSets, TLC

CONSTANTS NF,        \* user fds are 1..NF; fd 0 is the waker's read end
          MaxChg,    \* bound on add/remove reader/writer calls made by the application
          MaxEnv,    \* bound on environment readiness events
          MaxW,      \* capacity of the waker socket buffer (send raises BlockingIOError when full)
          WFull,     \* smallest buffer level at which a send may be refused (= MaxW when exact)
          RecvMax,   \* bytes one _consume_waker recv can take (1024 in the code)
          HowSets,   \* set of sets of shutdown paths; a behaviour fixes one of them (hows) initially:
                     \* {{"close", "atexit"}} explores both paths, {} \in HowSets adds behaviours without shutdown
          MaxClose   \* bound on fds the application closes (after unregistering them)

FDs   == 1..NF
Kinds == {"r", "w"}
NoArgs == [some |-> FALSE, r |-> {}, w |-> {}]
NoCb   == [k |-> "n", f |-> 0]
RawWaker == 90     \* _waker_r.fileno() as a bare int: never a key of _readers

SeqSet(s) == {s[i] : i \in 1..Len(s)}
Perms(S)  == {s \in [1..Cardinality(S) -> S] : \A i, j \in 1..Cardinality(S) : i # j => s[i] # s[j]}
(* all duplicate-free sequences whose element set lies between A and B *)
SeqsBetween(A, B) == UNION {Perms(X) : X \in {Y \in SUBSET B : A \subseteq Y}}
(* index of the first element of seq that is still registered, 0 if none *)
FirstReg(seq, regset) ==
    LET I == {i \in 1..Len(seq) : seq[i] \in regset}
    IN IF I = {} THEN 0 ELSE CHOOSE i \in I : \A j \in I : i <= j
Drop(seq, n) == SubSeq(seq, n + 1, Len(seq))

(*--algorithm SelectorThread {
variables
    mutex = 0, waitset = {},                       \* threading.Condition
    selArgs = NoArgs, closing = FALSE,             \* state protected by the condition
    waker = 0,                                     \* bytes in the waker socket
    reg = [k \in Kinds |-> {}],                    \* _readers (with 0 = waker) / _writers
    ready = [k \in Kinds |-> IF k = "w" THEN FDs ELSE {}],
    queue = <<>>,                                  \* call_soon_threadsafe(_handle_select, rs, ws)
    started = FALSE, sdone = FALSE,                \* selector thread started / returned
    closeCalled = FALSE, closed = FALSE, how = "none", hows \in HowSets,
    chg = 0, envn = 0, ncl = 0,
    closedfds = {},                                \* user fds closed by the application
    crashed = FALSE,                               \* selector thread died with an exception
    myargs = NoArgs, must = [k \in Kinds |-> {}],  \* selector thread locals
    res = [rs |-> <<>>, ws |-> <<>>],
    todoR = <<>>, todoW = <<>>, cur = NoCb, ret = "m_top", cret = "m_top";   \* main thread locals

define {
    ReadyNow(k) == IF k = "r" THEN ready["r"] \cup (IF waker > 0 THEN {0} ELSE {}) ELSE ready["w"]
    ArgsOf(a, k) == IF k = "r" THEN a.r ELSE a.w
    NextR == FirstReg(todoR, reg["r"])
    NextW == FirstReg(todoW, reg["w"])
}

macro WakeSend() {
    either { await waker < MaxW; waker := waker + 1 }
    or     { await waker >= WFull; skip }           \* BlockingIOError, swallowed
}

macro CloseFd(f) {
    closedfds := closedfds \cup {f};
    ncl := ncl + 1;
    if (myargs.some) {
        must := [k \in Kinds |-> must[k] \ {f}]
    };
    ready := [k \in Kinds |-> ready[k] \ {f}]
}

macro RegOpTop() {
    with (op \in {"add", "rem"}, k \in Kinds, f \in FDs) {
        await op = "rem" \/ f \notin closedfds;
        chg := chg + 1;
        if (op = "add" \/ f \in reg[k]) {
            reg[k] := IF op = "add" THEN reg[k] \cup {f} ELSE reg[k] \ {f};
            if (closed) { goto m_top } else { ret := "m_top"; goto m_wk }
        } else { goto m_top }       \* remove of an unregistered fd: returns False, no wake
    }
}

macro RegOpRun() {
    with (op \in {"add", "rem"}, k \in Kinds, f \in FDs) {
        await op = "rem" \/ f \notin closedfds;
        chg := chg + 1;
        if (op = "add" \/ f \in reg[k]) {
            reg[k] := IF op = "add" THEN reg[k] \cup {f} ELSE reg[k] \ {f};
            if (closed) { goto m_run } else { ret := "m_run"; goto m_wk }
        } else { goto m_run }       \* remove of an unregistered fd: returns False, no wake
    }
}

process (main = 1)
{
m_init:     \* __init__: add_reader(_waker_r, _consume_waker) and its _wake_selector
    reg["r"] := {0};
    WakeSend();
m_top:      \* the event loop picks its next callback
    either {    \* thread manager task: Thread.start() then _start_select()
        await ~started;
        started := TRUE;
        goto m_ss_acq
    } or {      \* a queued _handle_select(rs, ws)
        await queue # <<>>;
        todoR := Head(queue).rs; todoW := Head(queue).ws;
        queue := Tail(queue);
        goto m_run
    } or {      \* application callback: add/remove reader/writer
        await chg < MaxChg;
        RegOpTop()
    } or {      \* application closes an fd it has unregistered (the EBADF race of _run_select)
        await ncl < MaxClose;
        with (f \in FDs \ (closedfds \cup reg["r"] \cup reg["w"])) { CloseFd(f) };
        goto m_top
    } or {      \* close() / _atexit_callback(): with cond
        await mutex = 0;
        with (h \in {x \in hows : ~closeCalled \/ (how = "atexit" /\ x = "close")}) { how := h };
        closeCalled := TRUE;
        mutex := 1;
        goto m_cl_body
    };
m_run:      \* inside _handle_select: dispatch, or the body of the current callback
    either {    \* callback body: drain (reader) / fill (writer) the fd it was called for
        await cur # NoCb /\ cur.f \in ready[cur.k];
        ready[cur.k] := ready[cur.k] \ {cur.f};
        goto m_run
    } or {      \* callback body: registration change
        await cur # NoCb /\ chg < MaxChg;
        RegOpRun()
    } or {      \* callback body: close an unregistered fd
        await cur # NoCb /\ ncl < MaxClose;
        with (f \in FDs \ (closedfds \cup reg["r"] \cup reg["w"])) { CloseFd(f) };
        goto m_run
    } or {      \* callback body: the application closes the selector from inside a callback
        await cur # NoCb /\ mutex = 0 /\ "close" \in hows /\ (~closeCalled \/ how = "atexit");
        how := "close";
        closeCalled := TRUE;
        mutex := 1;
        cret := "m_run";
        goto m_cl_body
    } or {      \* _handle_event(r, _readers) for the next fd still registered
        await NextR # 0;
        if (todoR[NextR] = 0) {   \* _consume_waker: recv(1024)
            waker := IF waker > RecvMax THEN waker - RecvMax ELSE 0;
            cur := NoCb
        } else {
            cur := [k |-> "r", f |-> todoR[NextR]]
        };
        todoR := Drop(todoR, NextR);
        goto m_run
    } or {      \* _handle_event(w, _writers)
        await NextR = 0 /\ NextW # 0;
        cur := [k |-> "w", f |-> todoW[NextW]];
        todoR := <<>>;
        todoW := Drop(todoW, NextW);
        goto m_run
    } or {      \* nothing left to dispatch: _start_select(): with cond
        await NextR = 0 /\ NextW = 0 /\ mutex = 0;
        cur := NoCb; todoR := <<>>; todoW := <<>>;
        mutex := 1;
        goto m_ss_body
    };
m_wk:       \* _wake_selector(): _waker_w.send(b"a")
    WakeSend();
    if (ret = "m_top") { goto m_top } else { ret := "m_top"; goto m_run };
m_ss_acq:   \* _start_select() of the thread manager: with cond
    await mutex = 0;
    mutex := 1;
m_ss_body:  \* assert _select_args is None; _select_args = (...); notify()
    selArgs := [some |-> TRUE, r |-> reg["r"], w |-> reg["w"]];
    waitset := {};
m_ss_rel:
    mutex := 0;
    goto m_top;
m_cl_body:  \* _closing_selector = True; notify()
    closing := TRUE;
    waitset := {};
m_cl_rel:
    mutex := 0;
m_cl_wk:    \* _wake_selector() / _waker_w.send
    WakeSend();
    if (~started) { if (how = "atexit") { goto m_top } else { goto m_cl_rm } };   \* _thread is None
m_cl_join:  \* self._thread.join()
    await sdone;
    if (how = "atexit") { goto m_top };
m_cl_rm:    \* remove_reader(_waker_r) and its _wake_selector
    reg["r"] := reg["r"] \ {0};
    WakeSend();
m_cl_end:   \* sockets closed, _closed = True
    closed := TRUE;
    if (cret = "m_top") { goto m_top } else { cret := "m_top"; goto m_run }
}

process (sel = 2)
{
s_acq:      \* with self._select_cond:
    await started /\ mutex = 0;
    mutex := 2;
s_cs:       \* while _select_args is None and not _closing_selector: wait() ...
    if (~selArgs.some /\ ~closing) {
        mutex := 0; waitset := {2};
        goto s_woke
    } else if (closing) {
        mutex := 0; sdone := TRUE;
        goto Done
    } else {
        myargs := selArgs; selArgs := NoArgs;
        mutex := 0;
        goto s_sel_begin
    };
s_woke:     \* wait() returns with the lock re-acquired
    await 2 \notin waitset /\ mutex = 0;
    mutex := 2;
    goto s_cs;
s_sel_begin:
    must := [k \in Kinds |-> ReadyNow(k) \cap ArgsOf(myargs, k)];
s_sel_end:  \* select.select(to_read, to_write, to_write) returns or raises EBADF
    either {
        \* an fd closed while the call is in progress is reported as ready by the kernel (POLLNVAL
        \* counts for every set), so closed fds of the arguments may or may not appear in the result
        with (rs \in SeqsBetween(must["r"], (ReadyNow("r") \cup closedfds) \cap myargs.r),
              ws \in SeqsBetween(must["w"], (ReadyNow("w") \cup closedfds) \cap myargs.w),
              xs \in SeqsBetween({}, closedfds \cap myargs.w)) {
            \* xs: the exceptional set (to_write is passed twice); on Linux only closed fds show up
            \* there; the code appends it to ws, so a closed fd can be listed twice
            await Len(rs) + Len(ws) + Len(xs) > 0;
            res := [rs |-> rs, ws |-> ws \o xs]
        };
        must := [k \in Kinds |-> {}];
        myargs := NoArgs;
        goto s_post
    } or {      \* OSError(EBADF): an fd of the arguments was closed before the call looked at it
        await (myargs.r \cup myargs.w) \cap closedfds # {};
        must := [k \in Kinds |-> {}];
        myargs := NoArgs
    };
s_poll_begin:   \* select.select([self._waker_r.fileno()], [], [], 0)
    skip;
s_poll_end:
    if (waker > 0) {
        res := [rs |-> <<RawWaker>>, ws |-> <<>>]
    } else {    \* "raise": the selector thread dies with the original error
        crashed := TRUE; sdone := TRUE;
        goto Done
    };
s_post:     \* call_soon_threadsafe(_handle_select, rs, ws)
    queue := Append(queue, res);
    res := [rs |-> <<>>, ws |-> <<>>];
    goto s_acq
}

process (env = 3)
{
e_loop:
    while (TRUE) {
        await envn < MaxEnv;
        with (k \in Kinds, f \in FDs \ closedfds) {
            await f \notin ready[k];
            ready[k] := ready[k] \cup {f};
            envn := envn + 1
        }
    }
}
} *)
\* BEGIN TRANSLATION
VARIABLES pc, mutex, waitset, selArgs, closing, waker, reg, ready, queue, 
          started, sdone, closeCalled, closed, how, hows, chg, envn, ncl, 
          closedfds, crashed, myargs, must, res, todoR, todoW, cur, ret, cret

(* define statement *)
ReadyNow(k) == IF k = "r" THEN ready["r"] \cup (IF waker > 0 THEN {0} ELSE {}) ELSE ready["w"]
ArgsOf(a, k) == IF k = "r" THEN a.r ELSE a.w
NextR == FirstReg(todoR, reg["r"])
NextW == FirstReg(todoW, reg["w"])


vars == << pc, mutex, waitset, selArgs, closing, waker, reg, ready, queue, 
           started, sdone, closeCalled, closed, how, hows, chg, envn, ncl, 
           closedfds, crashed, myargs, must, res, todoR, todoW, cur, ret, 
           cret >>

ProcSet == {1} \cup {2} \cup {3}

Init == (* Global variables *)
        /\ mutex = 0
        /\ waitset = {}
        /\ selArgs = NoArgs
        /\ closing = FALSE
        /\ waker = 0
        /\ reg = [k \in Kinds |-> {}]
        /\ ready = [k \in Kinds |-> IF k = "w" THEN FDs ELSE {}]
        /\ queue = <<>>
        /\ started = FALSE
        /\ sdone = FALSE
        /\ closeCalled = FALSE
        /\ closed = FALSE
        /\ how = "none"
        /\ hows \in HowSets
        /\ chg = 0
        /\ envn = 0
        /\ ncl = 0
        /\ closedfds = {}
        /\ crashed = FALSE
        /\ myargs = NoArgs
        /\ must = [k \in Kinds |-> {}]
        /\ res = [rs |-> <<>>, ws |-> <<>>]
        /\ todoR = <<>>
        /\ todoW = <<>>
        /\ cur = NoCb
        /\ ret = "m_top"
        /\ cret = "m_top"
        /\ pc = [self \in ProcSet |-> CASE self = 1 -> "m_init"
                                        [] self = 2 -> "s_acq"
                                        [] self = 3 -> "e_loop"]

m_init == /\ pc[1] = "m_init"
          /\ reg' = [reg EXCEPT !["r"] = {0}]
          /\ \/ /\ waker < MaxW
                /\ waker' = waker + 1
             \/ /\ waker >= WFull
                /\ TRUE
                /\ waker' = waker
          /\ pc' = [pc EXCEPT ![1] = "m_top"]
          /\ UNCHANGED << mutex, waitset, selArgs, closing, ready, queue, 
                          started, sdone, closeCalled, closed, how, hows, chg, 
                          envn, ncl, closedfds, crashed, myargs, must, res, 
                          todoR, todoW, cur, ret, cret >>

m_top == /\ pc[1] = "m_top"
         /\ \/ /\ ~started
               /\ started' = TRUE
               /\ pc' = [pc EXCEPT ![1] = "m_ss_acq"]
               /\ UNCHANGED <<mutex, reg, ready, queue, closeCalled, how, chg, ncl, closedfds, must, todoR, todoW, ret>>
            \/ /\ queue # <<>>
               /\ todoR' = Head(queue).rs
               /\ todoW' = Head(queue).ws
               /\ queue' = Tail(queue)
               /\ pc' = [pc EXCEPT ![1] = "m_run"]
               /\ UNCHANGED <<mutex, reg, ready, started, closeCalled, how, chg, ncl, closedfds, must, ret>>
            \/ /\ chg < MaxChg
               /\ \E op \in {"add", "rem"}:
                    \E k \in Kinds:
                      \E f \in FDs:
                        /\ op = "rem" \/ f \notin closedfds
                        /\ chg' = chg + 1
                        /\ IF op = "add" \/ f \in reg[k]
                              THEN /\ reg' = [reg EXCEPT ![k] = IF op = "add" THEN reg[k] \cup {f} ELSE reg[k] \ {f}]
                                   /\ IF closed
                                         THEN /\ pc' = [pc EXCEPT ![1] = "m_top"]
                                              /\ ret' = ret
                                         ELSE /\ ret' = "m_top"
                                              /\ pc' = [pc EXCEPT ![1] = "m_wk"]
                              ELSE /\ pc' = [pc EXCEPT ![1] = "m_top"]
                                   /\ UNCHANGED << reg, ret >>
               /\ UNCHANGED <<mutex, ready, queue, started, closeCalled, how, ncl, closedfds, must, todoR, todoW>>
            \/ /\ ncl < MaxClose
               /\ \E f \in FDs \ (closedfds \cup reg["r"] \cup reg["w"]):
                    /\ closedfds' = (closedfds \cup {f})
                    /\ ncl' = ncl + 1
                    /\ IF myargs.some
                          THEN /\ must' = [k \in Kinds |-> must[k] \ {f}]
                          ELSE /\ TRUE
                               /\ must' = must
                    /\ ready' = [k \in Kinds |-> ready[k] \ {f}]
               /\ pc' = [pc EXCEPT ![1] = "m_top"]
               /\ UNCHANGED <<mutex, reg, queue, started, closeCalled, how, chg, todoR, todoW, ret>>
            \/ /\ mutex = 0
               /\ \E h \in {x \in hows : ~closeCalled \/ (how = "atexit" /\ x = "close")}:
                    how' = h
               /\ closeCalled' = TRUE
               /\ mutex' = 1
               /\ pc' = [pc EXCEPT ![1] = "m_cl_body"]
               /\ UNCHANGED <<reg, ready, queue, started, chg, ncl, closedfds, must, todoR, todoW, ret>>
         /\ UNCHANGED << waitset, selArgs, closing, waker, sdone, closed, hows, 
                         envn, crashed, myargs, res, cur, cret >>

m_run == /\ pc[1] = "m_run"
         /\ \/ /\ cur # NoCb /\ cur.f \in ready[cur.k]
               /\ ready' = [ready EXCEPT ![cur.k] = ready[cur.k] \ {cur.f}]
               /\ pc' = [pc EXCEPT ![1] = "m_run"]
               /\ UNCHANGED <<mutex, waker, reg, closeCalled, how, chg, ncl, closedfds, must, todoR, todoW, cur, ret, cret>>
            \/ /\ cur # NoCb /\ chg < MaxChg
               /\ \E op \in {"add", "rem"}:
                    \E k \in Kinds:
                      \E f \in FDs:
                        /\ op = "rem" \/ f \notin closedfds
                        /\ chg' = chg + 1
                        /\ IF op = "add" \/ f \in reg[k]
                              THEN /\ reg' = [reg EXCEPT ![k] = IF op = "add" THEN reg[k] \cup {f} ELSE reg[k] \ {f}]
                                   /\ IF closed
                                         THEN /\ pc' = [pc EXCEPT ![1] = "m_run"]
                                              /\ ret' = ret
                                         ELSE /\ ret' = "m_run"
                                              /\ pc' = [pc EXCEPT ![1] = "m_wk"]
                              ELSE /\ pc' = [pc EXCEPT ![1] = "m_run"]
                                   /\ UNCHANGED << reg, ret >>
               /\ UNCHANGED <<mutex, waker, ready, closeCalled, how, ncl, closedfds, must, todoR, todoW, cur, cret>>
            \/ /\ cur # NoCb /\ ncl < MaxClose
               /\ \E f \in FDs \ (closedfds \cup reg["r"] \cup reg["w"]):
                    /\ closedfds' = (closedfds \cup {f})
                    /\ ncl' = ncl + 1
                    /\ IF myargs.some
                          THEN /\ must' = [k \in Kinds |-> must[k] \ {f}]
                          ELSE /\ TRUE
                               /\ must' = must
                    /\ ready' = [k \in Kinds |-> ready[k] \ {f}]
               /\ pc' = [pc EXCEPT ![1] = "m_run"]
               /\ UNCHANGED <<mutex, waker, reg, closeCalled, how, chg, todoR, todoW, cur, ret, cret>>
            \/ /\ cur # NoCb /\ mutex = 0 /\ "close" \in hows /\ (~closeCalled \/ how = "atexit")
               /\ how' = "close"
               /\ closeCalled' = TRUE
               /\ mutex' = 1
               /\ cret' = "m_run"
               /\ pc' = [pc EXCEPT ![1] = "m_cl_body"]
               /\ UNCHANGED <<waker, reg, ready, chg, ncl, closedfds, must, todoR, todoW, cur, ret>>
            \/ /\ NextR # 0
               /\ IF todoR[NextR] = 0
                     THEN /\ waker' = (IF waker > RecvMax THEN waker - RecvMax ELSE 0)
                          /\ cur' = NoCb
                     ELSE /\ cur' = [k |-> "r", f |-> todoR[NextR]]
                          /\ waker' = waker
               /\ todoR' = Drop(todoR, NextR)
               /\ pc' = [pc EXCEPT ![1] = "m_run"]
               /\ UNCHANGED <<mutex, reg, ready, closeCalled, how, chg, ncl, closedfds, must, todoW, ret, cret>>
            \/ /\ NextR = 0 /\ NextW # 0
               /\ cur' = [k |-> "w", f |-> todoW[NextW]]
               /\ todoR' = <<>>
               /\ todoW' = Drop(todoW, NextW)
               /\ pc' = [pc EXCEPT ![1] = "m_run"]
               /\ UNCHANGED <<mutex, waker, reg, ready, closeCalled, how, chg, ncl, closedfds, must, ret, cret>>
            \/ /\ NextR = 0 /\ NextW = 0 /\ mutex = 0
               /\ cur' = NoCb
               /\ todoR' = <<>>
               /\ todoW' = <<>>
               /\ mutex' = 1
               /\ pc' = [pc EXCEPT ![1] = "m_ss_body"]
               /\ UNCHANGED <<waker, reg, ready, closeCalled, how, chg, ncl, closedfds, must, ret, cret>>
         /\ UNCHANGED << waitset, selArgs, closing, queue, started, sdone, 
                         closed, hows, envn, crashed, myargs, res >>

m_wk == /\ pc[1] = "m_wk"
        /\ \/ /\ waker < MaxW
              /\ waker' = waker + 1
           \/ /\ waker >= WFull
              /\ TRUE
              /\ waker' = waker
        /\ IF ret = "m_top"
              THEN /\ pc' = [pc EXCEPT ![1] = "m_top"]
                   /\ ret' = ret
              ELSE /\ ret' = "m_top"
                   /\ pc' = [pc EXCEPT ![1] = "m_run"]
        /\ UNCHANGED << mutex, waitset, selArgs, closing, reg, ready, queue, 
                        started, sdone, closeCalled, closed, how, hows, chg, 
                        envn, ncl, closedfds, crashed, myargs, must, res, 
                        todoR, todoW, cur, cret >>

m_ss_acq == /\ pc[1] = "m_ss_acq"
            /\ mutex = 0
            /\ mutex' = 1
            /\ pc' = [pc EXCEPT ![1] = "m_ss_body"]
            /\ UNCHANGED << waitset, selArgs, closing, waker, reg, ready, 
                            queue, started, sdone, closeCalled, closed, how, 
                            hows, chg, envn, ncl, closedfds, crashed, myargs, 
                            must, res, todoR, todoW, cur, ret, cret >>

m_ss_body == /\ pc[1] = "m_ss_body"
             /\ selArgs' = [some |-> TRUE, r |-> reg["r"], w |-> reg["w"]]
             /\ waitset' = {}
             /\ pc' = [pc EXCEPT ![1] = "m_ss_rel"]
             /\ UNCHANGED << mutex, closing, waker, reg, ready, queue, started, 
                             sdone, closeCalled, closed, how, hows, chg, envn, 
                             ncl, closedfds, crashed, myargs, must, res, todoR, 
                             todoW, cur, ret, cret >>

m_ss_rel == /\ pc[1] = "m_ss_rel"
            /\ mutex' = 0
            /\ pc' = [pc EXCEPT ![1] = "m_top"]
            /\ UNCHANGED << waitset, selArgs, closing, waker, reg, ready, 
                            queue, started, sdone, closeCalled, closed, how, 
                            hows, chg, envn, ncl, closedfds, crashed, myargs, 
                            must, res, todoR, todoW, cur, ret, cret >>

m_cl_body == /\ pc[1] = "m_cl_body"
             /\ closing' = TRUE
             /\ waitset' = {}
             /\ pc' = [pc EXCEPT ![1] = "m_cl_rel"]
             /\ UNCHANGED << mutex, selArgs, waker, reg, ready, queue, started, 
                             sdone, closeCalled, closed, how, hows, chg, envn, 
                             ncl, closedfds, crashed, myargs, must, res, todoR, 
                             todoW, cur, ret, cret >>

m_cl_rel == /\ pc[1] = "m_cl_rel"
            /\ mutex' = 0
            /\ pc' = [pc EXCEPT ![1] = "m_cl_wk"]
            /\ UNCHANGED << waitset, selArgs, closing, waker, reg, ready, 
                            queue, started, sdone, closeCalled, closed, how, 
                            hows, chg, envn, ncl, closedfds, crashed, myargs, 
                            must, res, todoR, todoW, cur, ret, cret >>

m_cl_wk == /\ pc[1] = "m_cl_wk"
           /\ \/ /\ waker < MaxW
                 /\ waker' = waker + 1
              \/ /\ waker >= WFull
                 /\ TRUE
                 /\ waker' = waker
           /\ IF ~started
                 THEN /\ IF how = "atexit"
                            THEN /\ pc' = [pc EXCEPT ![1] = "m_top"]
                            ELSE /\ pc' = [pc EXCEPT ![1] = "m_cl_rm"]
                 ELSE /\ pc' = [pc EXCEPT ![1] = "m_cl_join"]
           /\ UNCHANGED << mutex, waitset, selArgs, closing, reg, ready, queue, 
                           started, sdone, closeCalled, closed, how, hows, chg, 
                           envn, ncl, closedfds, crashed, myargs, must, res, 
                           todoR, todoW, cur, ret, cret >>

m_cl_join == /\ pc[1] = "m_cl_join"
             /\ sdone
             /\ IF how = "atexit"
                   THEN /\ pc' = [pc EXCEPT ![1] = "m_top"]
                   ELSE /\ pc' = [pc EXCEPT ![1] = "m_cl_rm"]
             /\ UNCHANGED << mutex, waitset, selArgs, closing, waker, reg, 
                             ready, queue, started, sdone, closeCalled, closed, 
                             how, hows, chg, envn, ncl, closedfds, crashed, 
                             myargs, must, res, todoR, todoW, cur, ret, cret >>

m_cl_rm == /\ pc[1] = "m_cl_rm"
           /\ reg' = [reg EXCEPT !["r"] = reg["r"] \ {0}]
           /\ \/ /\ waker < MaxW
                 /\ waker' = waker + 1
              \/ /\ waker >= WFull
                 /\ TRUE
                 /\ waker' = waker
           /\ pc' = [pc EXCEPT ![1] = "m_cl_end"]
           /\ UNCHANGED << mutex, waitset, selArgs, closing, ready, queue, 
                           started, sdone, closeCalled, closed, how, hows, chg, 
                           envn, ncl, closedfds, crashed, myargs, must, res, 
                           todoR, todoW, cur, ret, cret >>

m_cl_end == /\ pc[1] = "m_cl_end"
            /\ closed' = TRUE
            /\ IF cret = "m_top"
                  THEN /\ pc' = [pc EXCEPT ![1] = "m_top"]
                       /\ cret' = cret
                  ELSE /\ cret' = "m_top"
                       /\ pc' = [pc EXCEPT ![1] = "m_run"]
            /\ UNCHANGED << mutex, waitset, selArgs, closing, waker, reg, 
                            ready, queue, started, sdone, closeCalled, how, 
                            hows, chg, envn, ncl, closedfds, crashed, myargs, 
                            must, res, todoR, todoW, cur, ret >>

main == m_init \/ m_top \/ m_run \/ m_wk \/ m_ss_acq \/ m_ss_body
           \/ m_ss_rel \/ m_cl_body \/ m_cl_rel \/ m_cl_wk \/ m_cl_join
           \/ m_cl_rm \/ m_cl_end

s_acq == /\ pc[2] = "s_acq"
         /\ started /\ mutex = 0
         /\ mutex' = 2
         /\ pc' = [pc EXCEPT ![2] = "s_cs"]
         /\ UNCHANGED << waitset, selArgs, closing, waker, reg, ready, queue, 
                         started, sdone, closeCalled, closed, how, hows, chg, 
                         envn, ncl, closedfds, crashed, myargs, must, res, 
                         todoR, todoW, cur, ret, cret >>

s_cs == /\ pc[2] = "s_cs"
        /\ IF ~selArgs.some /\ ~closing
              THEN /\ mutex' = 0
                   /\ waitset' = {2}
                   /\ pc' = [pc EXCEPT ![2] = "s_woke"]
                   /\ UNCHANGED << selArgs, sdone, myargs >>
              ELSE /\ IF closing
                         THEN /\ mutex' = 0
                              /\ sdone' = TRUE
                              /\ pc' = [pc EXCEPT ![2] = "Done"]
                              /\ UNCHANGED << selArgs, myargs >>
                         ELSE /\ myargs' = selArgs
                              /\ selArgs' = NoArgs
                              /\ mutex' = 0
                              /\ pc' = [pc EXCEPT ![2] = "s_sel_begin"]
                              /\ sdone' = sdone
                   /\ UNCHANGED waitset
        /\ UNCHANGED << closing, waker, reg, ready, queue, started, 
                        closeCalled, closed, how, hows, chg, envn, ncl, 
                        closedfds, crashed, must, res, todoR, todoW, cur, ret, 
                        cret >>

s_woke == /\ pc[2] = "s_woke"
          /\ 2 \notin waitset /\ mutex = 0
          /\ mutex' = 2
          /\ pc' = [pc EXCEPT ![2] = "s_cs"]
          /\ UNCHANGED << waitset, selArgs, closing, waker, reg, ready, queue, 
                          started, sdone, closeCalled, closed, how, hows, chg, 
                          envn, ncl, closedfds, crashed, myargs, must, res, 
                          todoR, todoW, cur, ret, cret >>

s_sel_begin == /\ pc[2] = "s_sel_begin"
               /\ must' = [k \in Kinds |-> ReadyNow(k) \cap ArgsOf(myargs, k)]
               /\ pc' = [pc EXCEPT ![2] = "s_sel_end"]
               /\ UNCHANGED << mutex, waitset, selArgs, closing, waker, reg, 
                               ready, queue, started, sdone, closeCalled, 
                               closed, how, hows, chg, envn, ncl, closedfds, 
                               crashed, myargs, res, todoR, todoW, cur, ret, 
                               cret >>

s_sel_end == /\ pc[2] = "s_sel_end"
             /\ \/ /\ \E rs \in SeqsBetween(must["r"], (ReadyNow("r") \cup closedfds) \cap myargs.r):
                        \E ws \in SeqsBetween(must["w"], (ReadyNow("w") \cup closedfds) \cap myargs.w):
                          \E xs \in SeqsBetween({}, closedfds \cap myargs.w):
                            /\ Len(rs) + Len(ws) + Len(xs) > 0
                            /\ res' = [rs |-> rs, ws |-> ws \o xs]
                   /\ must' = [k \in Kinds |-> {}]
                   /\ myargs' = NoArgs
                   /\ pc' = [pc EXCEPT ![2] = "s_post"]
                \/ /\ (myargs.r \cup myargs.w) \cap closedfds # {}
                   /\ must' = [k \in Kinds |-> {}]
                   /\ myargs' = NoArgs
                   /\ pc' = [pc EXCEPT ![2] = "s_poll_begin"]
                   /\ res' = res
             /\ UNCHANGED << mutex, waitset, selArgs, closing, waker, reg, 
                             ready, queue, started, sdone, closeCalled, closed, 
                             how, hows, chg, envn, ncl, closedfds, crashed, 
                             todoR, todoW, cur, ret, cret >>

s_poll_begin == /\ pc[2] = "s_poll_begin"
                /\ TRUE
                /\ pc' = [pc EXCEPT ![2] = "s_poll_end"]
                /\ UNCHANGED << mutex, waitset, selArgs, closing, waker, reg, 
                                ready, queue, started, sdone, closeCalled, 
                                closed, how, hows, chg, envn, ncl, closedfds, 
                                crashed, myargs, must, res, todoR, todoW, cur, 
                                ret, cret >>

s_poll_end == /\ pc[2] = "s_poll_end"
              /\ IF waker > 0
                    THEN /\ res' = [rs |-> <<RawWaker>>, ws |-> <<>>]
                         /\ pc' = [pc EXCEPT ![2] = "s_post"]
                         /\ UNCHANGED << sdone, crashed >>
                    ELSE /\ crashed' = TRUE
                         /\ sdone' = TRUE
                         /\ pc' = [pc EXCEPT ![2] = "Done"]
                         /\ res' = res
              /\ UNCHANGED << mutex, waitset, selArgs, closing, waker, reg, 
                              ready, queue, started, closeCalled, closed, how, 
                              hows, chg, envn, ncl, closedfds, myargs, must, 
                              todoR, todoW, cur, ret, cret >>

s_post == /\ pc[2] = "s_post"
          /\ queue' = Append(queue, res)
          /\ res' = [rs |-> <<>>, ws |-> <<>>]
          /\ pc' = [pc EXCEPT ![2] = "s_acq"]
          /\ UNCHANGED << mutex, waitset, selArgs, closing, waker, reg, ready, 
                          started, sdone, closeCalled, closed, how, hows, chg, 
                          envn, ncl, closedfds, crashed, myargs, must, todoR, 
                          todoW, cur, ret, cret >>

sel == s_acq \/ s_cs \/ s_woke \/ s_sel_begin \/ s_sel_end \/ s_poll_begin
          \/ s_poll_end \/ s_post

e_loop == /\ pc[3] = "e_loop"
          /\ envn < MaxEnv
          /\ \E k \in Kinds:
               \E f \in FDs \ closedfds:
                 /\ f \notin ready[k]
                 /\ ready' = [ready EXCEPT ![k] = ready[k] \cup {f}]
                 /\ envn' = envn + 1
          /\ pc' = [pc EXCEPT ![3] = "e_loop"]
          /\ UNCHANGED << mutex, waitset, selArgs, closing, waker, reg, queue, 
                          started, sdone, closeCalled, closed, how, hows, chg, 
                          ncl, closedfds, crashed, myargs, must, res, todoR, 
                          todoW, cur, ret, cret >>

env == e_loop

(* Allow infinite stuttering to prevent deadlock on termination. *)
Terminating == /\ \A self \in ProcSet: pc[self] = "Done"
               /\ UNCHANGED vars

Next == main \/ sel \/ env
           \/ Terminating

Spec == Init /\ [][Next]_vars

Termination == <>(\A self \in ProcSet: pc[self] = "Done")

\* END TRANSLATION 

-----------------------------------------------------------------------------
(* Properties (C40) *)

TypeOK ==
    /\ mutex \in 0..2
    /\ waitset \subseteq {2}
    /\ waker \in 0..MaxW
    /\ reg["r"] \subseteq 0..NF /\ reg["w"] \subseteq FDs
    /\ ready["r"] \subseteq FDs /\ ready["w"] \subseteq FDs
    /\ Len(queue) <= 1

(* Where the single "select token" is.  _start_select hands it to the selector thread through
   _select_args; the selector thread holds it while it selects and hands it back through the
   loop's callback queue; _handle_select holds it until it calls _start_select again. *)
TokArgs == IF selArgs.some THEN 1 ELSE 0
TokSel  == IF pc[2] \in {"s_sel_begin", "s_sel_end", "s_poll_begin", "s_poll_end", "s_post"} THEN 1 ELSE 0
CloseLabels == {"m_cl_body", "m_cl_rel", "m_cl_wk", "m_cl_join", "m_cl_rm", "m_cl_end"}
TokMain == IF \/ ~started
              \/ pc[1] \in {"m_ss_acq", "m_ss_body", "m_run"}
              \/ (pc[1] = "m_wk" /\ ret = "m_run")
              \/ (pc[1] \in CloseLabels /\ cret = "m_run")
           THEN 1 ELSE 0
(* at most one select outstanding: exactly one token, so never two selects / two result callbacks *)
OneSelect == TokArgs + TokSel + Len(queue) + TokMain = 1
(* the assertion in _start_select *)
StartSelectPre == pc[1] = "m_ss_body" => ~selArgs.some
(* the mutex is held exactly inside the with-blocks *)
MutexOK == /\ (mutex = 1) = (pc[1] \in {"m_ss_body", "m_ss_rel", "m_cl_body", "m_cl_rel"})
           /\ (mutex = 2) = (pc[2] = "s_cs")
(* a waiting selector thread has nothing to do: no notify is ever lost *)
NoLostNotify == 2 \in waitset => (~selArgs.some /\ ~closing /\ pc[2] = "s_woke")
(* callbacks are dispatched only by main-thread steps, while the selector thread does not select *)
CallbackOnMain == cur # NoCb => (pc[1] \in {"m_run", "m_wk"} \cup CloseLabels /\ TokMain = 1 /\ TokSel = 0)
(* readiness never decreases while a select is in progress (justifies the select contract used) *)
NoUnreadyDuringSelect ==
    pc[2] = "s_sel_end" => \A k \in Kinds : must[k] \subseteq ReadyNow(k) \cap ArgsOf(myargs, k)
(* no lost registration: the selector thread never sleeps in select on a stale fd set with no
   wake-up byte pending while the main thread is idle *)
SelectBlocked == /\ pc[2] = "s_sel_end"
                 /\ \A k \in Kinds : ReadyNow(k) \cap ArgsOf(myargs, k) = {}
                 /\ (myargs.r \cup myargs.w) \cap closedfds = {}
(* the EBADF race: whenever the selector thread may meet a closed fd (the application removed it
   and then closed it) the wake-up byte of that removal is still unread, so the fallback poll of
   the waker finds it readable and the thread never dies with the original error; it also makes
   the select contract honest (a select that holds a closed fd is never the only thing pending) *)
ClosedFdImpliesWake ==
    (myargs.some /\ (myargs.r \cup myargs.w) \cap closedfds # {}) => waker > 0
PollFindsWake == pc[2] \in {"s_poll_begin", "s_poll_end"} => waker > 0
NoCrash == ~crashed
NoStaleSleep ==
    (SelectBlocked /\ pc[1] = "m_top" /\ ~closed) => (myargs.r = reg["r"] /\ myargs.w = reg["w"])
(* close() returns only with the selector thread stopped *)
JoinedStopped == pc[1] \in {"m_cl_rm", "m_cl_end"} => (started => sdone)

(* Deadlock freedom.  Steps the application or the environment may or may not take (registration
   changes and close at top level, readiness) are excluded: if nothing else can move, the system
   must be in one of the two legitimate resting states. *)
MainInternal == main /\ (pc[1] = "m_top" => pc'[1] \in {"m_run", "m_ss_acq"})
Internal == sel \/ MainInternal
IdleWaiting == pc[1] = "m_top" /\ queue = <<>> /\ started /\ SelectBlocked   \* waiting for I/O
IdleStopped == pc[1] = "m_top" /\ queue = <<>> /\ started /\ sdone /\ closing
NoDeadlock == (~ENABLED Internal) => (IdleWaiting \/ IdleStopped)

(* TLC's own deadlock check: resting states stutter *)
Rest == (IdleWaiting \/ IdleStopped) /\ UNCHANGED vars
NextR2 == Next \/ Rest
SpecD == Init /\ [][NextR2]_vars

(* Liveness under weak fairness of the selector thread and of the obligatory main-thread steps *)
FairSpec == Spec /\ WF_vars(sel) /\ WF_vars(MainInternal)
Eligible(k, f) == ~closeCalled /\ f \in reg[k] /\ f \in ready[k]
(* a registered fd that stays ready is dispatched again and again *)
Dispatch == \A k \in Kinds, f \in FDs : []<>(~Eligible(k, f) \/ cur = [k |-> k, f |-> f])
(* close / atexit terminates, with the selector thread stopped *)
CloseTerminates == closeCalled ~> (pc[1] = "m_top" /\ (started => sdone))
ThreadExits == (closing /\ started) ~> sdone

View == vars
=============================================================================
