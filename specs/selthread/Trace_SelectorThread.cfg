SPECIFICATION TraceSpec
CONSTANTS
  NF = 3
  MaxChg = 100000
  MaxEnv = 100000
  MaxW = 100000
  WFull = 1
  RecvMax = 1024
  HowSets = {{"close", "atexit"}}
  MaxClose = 100000
CONSTRAINT Report
INVARIANT TypeOK
INVARIANT OneSelect
INVARIANT StartSelectPre
INVARIANT MutexOK
INVARIANT NoLostNotify
INVARIANT CallbackOnMain
INVARIANT NoUnreadyDuringSelect
INVARIANT NoStaleSleep
INVARIANT JoinedStopped
INVARIANT NoDeadlock
INVARIANT ClosedFdImpliesWake
INVARIANT PollFindsWake
INVARIANT NoCrash
CHECK_DEADLOCK FALSE
