SPECIFICATION FairSpec
CONSTANTS
  NF = 2
  MaxChg = 2
  MaxEnv = 1
  MaxW = 2
  WFull = 2
  RecvMax = 1
  HowSets = {{"close", "atexit"}}
  MaxClose = 1
PROPERTY Dispatch
PROPERTY CloseTerminates
PROPERTY ThreadExits
CHECK_DEADLOCK FALSE
