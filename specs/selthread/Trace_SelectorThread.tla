---------------------------- MODULE Trace_SelectorThread ----------------------------
(* Validates event logs recorded from the real tornado.platform.asyncio.SelectorThread (real
   threads, real socketpairs, tracing shims of harness/selthread_driver.py) against
   SelectorThread.tla.  One ndjson line per run:
     {"id": n, "cfg": {..}, "ev": [{"a": name, "t": thread, "args": .., "obs": ..}, ...]}
   The log is totally ordered by the harness lock.  Every event must be explained by exactly one
   label action of the process that owns the logging thread (t = 1 event loop, 2 selector
   thread, 3 environment), with the logged arguments / observations equal to the corresponding
   primed specification variables.  There are no silent steps.  All invariants of
   SelectorThread are evaluated at every step of every recorded run. *)
EXTENDS SelectorThread, Json, IOUtils, TLCExt
Traces == ndJsonDeserialize(IOEnv.TRACE_FILE)
Verbose == IOEnv.TRACE_VERBOSE = "1"
VARIABLES tid, l
Ev == Traces[tid].ev
E == Ev[l]
TraceInit ==
    /\ tid \in 1..Len(Traces)
    /\ l = 1
    /\ Init
IsEvent(a, t) == l <= Len(Ev) /\ E.a = a /\ E.t = t /\ l' = l + 1 /\ UNCHANGED tid

ArgsRec(o) == [some |-> o.some, r |-> SeqSet(o.r), w |-> SeqSet(o.w)]
ResRec(o)  == [rs |-> o.rs, ws |-> o.ws]
SendOk == E.obs.ok = (waker' = waker + 1)

(* ---- event-loop thread *)
TrWsendM == IsEvent("wsend", 1) /\ (m_init \/ m_wk \/ m_cl_wk \/ m_cl_rm) /\ SendOk
TrTstart == IsEvent("tstart", 1) /\ m_top /\ ~started /\ started'
TrHs     == IsEvent("hs", 1) /\ m_top /\ pc'[1] = "m_run"
            /\ todoR' = E.args.rs /\ todoW' = E.args.ws
TrReg    == IsEvent("reg", 1) /\ (m_top \/ m_run) /\ chg' = chg + 1
            /\ LET op == E.args[1]  k == E.args[2]  f == E.args[3] IN
               /\ k \in Kinds /\ f \in FDs
               /\ reg' = [reg EXCEPT ![k] = IF op = "add" THEN @ \cup {f} ELSE @ \ {f}]
TrCb2    == IsEvent("cb", 1) /\ m_run /\ cur' = [k |-> E.args[1], f |-> E.args[2]]
            /\ (todoR' # todoR \/ todoW' # todoW)
TrWrecv  == IsEvent("wrecv", 1) /\ m_run /\ NextR # 0 /\ todoR[NextR] = 0 /\ todoR' # todoR
            /\ waker - waker' = E.obs.n
TrConsume == IsEvent("consume", 1) /\ m_run /\ cur = [k |-> E.args[1], f |-> E.args[2]]
             /\ ready' = [ready EXCEPT ![E.args[1]] = @ \ {E.args[2]}] /\ ready' # ready
TrAcqM   == IsEvent("acq", 1)
            /\ \/ E.args[1] = "ss" /\ (m_ss_acq \/ (m_run /\ pc'[1] = "m_ss_body"))
               \/ E.args[1] \in {"close", "atexit"} /\ (m_top \/ m_run) /\ pc'[1] = "m_cl_body" /\ how' = E.args[1]
            /\ mutex' = 1
TrNotify == IsEvent("notify", 1) /\ (m_ss_body \/ m_cl_body)
TrRelM   == IsEvent("rel", 1) /\ (m_ss_rel \/ m_cl_rel)
            /\ selArgs' = ArgsRec(E.obs.args) /\ closing' = E.obs.closing
TrFdClose == IsEvent("fdclose", 1) /\ (m_top \/ m_run)
             /\ closedfds' = closedfds \cup {E.args[1]} /\ closedfds' # closedfds
TrJoined == IsEvent("joined", 1) /\ m_cl_join
TrClosed == IsEvent("closed", 1) /\ m_cl_end /\ E.obs.alive = (started /\ ~sdone)

(* ---- selector thread *)
TrAcqS   == IsEvent("acq", 2) /\ s_acq
TrWait   == IsEvent("wait", 2) /\ s_cs /\ pc'[2] = "s_woke"
TrWoke   == IsEvent("woke", 2) /\ s_woke
TrRelS   == IsEvent("rel", 2) /\ s_cs /\ pc'[2] # "s_woke"
            /\ selArgs' = ArgsRec(E.obs.args) /\ closing' = E.obs.closing
TrSelBegin == IsEvent("sel_begin", 2) /\ s_sel_begin
              /\ myargs.r = SeqSet(E.args.r) /\ myargs.w = SeqSet(E.args.w)
TrSelEnd == IsEvent("sel_end", 2) /\ s_sel_end /\ pc'[2] = "s_post" /\ res' = ResRec(E.obs)
TrSelErr == IsEvent("sel_err", 2) /\ s_sel_end /\ pc'[2] = "s_poll_begin"
            /\ E.args[1] = "OSError" /\ E.args[2] = 9
TrPollBegin == IsEvent("sel_begin", 2) /\ s_poll_begin /\ E.args.r = <<RawWaker>> /\ E.args.w = <<>>
TrPollEnd == IsEvent("sel_end", 2) /\ s_poll_end /\ res' = ResRec(E.obs)
TrPost   == IsEvent("post", 2) /\ s_post /\ queue' = Append(queue, ResRec(E.args))

(* ---- environment *)
TrReady  == IsEvent("ready", 3) /\ e_loop
            /\ ready' = [ready EXCEPT ![E.args[1]] = @ \cup {E.args[2]}]

TraceNext == \/ TrWsendM \/ TrTstart \/ TrHs \/ TrReg \/ TrCb2 \/ TrWrecv \/ TrConsume
             \/ TrAcqM \/ TrNotify \/ TrRelM \/ TrJoined \/ TrClosed
             \/ TrFdClose \/ TrSelErr \/ TrPollBegin \/ TrPollEnd
             \/ TrAcqS \/ TrWait \/ TrWoke \/ TrRelS \/ TrSelBegin \/ TrSelEnd \/ TrPost
             \/ TrReady
TraceSpec == TraceInit /\ [][TraceNext]_<<vars, tid, l>>

(* a complete run ends closed, with the selector thread stopped and nothing queued *)
Complete == closed /\ pc[1] = "m_top" /\ (started => sdone) /\ queue = <<>>
Report == IF Verbose THEN PrintT(<<"AT", Traces[tid].id, l>>)
          ELSE ((l = Len(Ev) + 1 /\ Complete) => PrintT(<<"ACCEPT", Traces[tid].id>>))
=============================================================================
