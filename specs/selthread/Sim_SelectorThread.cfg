SPECIFICATION Spec
CONSTANTS
  NF = 2
  MaxChg = 4
  MaxEnv = 3
  MaxW = 1000
  WFull = 1000
  RecvMax = 1024
  HowSets = {{}, {"close", "atexit"}}
  MaxClose = 1
CHECK_DEADLOCK FALSE
