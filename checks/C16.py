"""C16 - WebSocket close handshake is orderly and reported exactly once.

MC : specs/ws/WsClose.tla - one endpoint against an arbitrary peer: local close, peer close frames
     (none / 1-byte / code / code+reason / invalid UTF-8 reason), peer disconnect, messages (with an
     asynchronous on_message suspending the receive loop and input queueing up), pongs, the 5 s
     closing timeout and the keep-alive ping timers on virtual time.  Invariants / action
     properties / liveness: AtMostOneCloseFrame, NoDataAfterClose, EchoesPeerCode,
     BothClosedTearsDown, ClosedIsNotified, NotifiedAtMostOnce / OnceFinal / WithPeerCode,
     WriteAfterCloseFails, CloseTerminates, EventuallyNotified.
S2C: every action sequence up to length L (quick 3, thorough 4 with every close variant) and TLC simulation walks of depth 14 replayed on a real WebSocketHandler (server) and a real
     WebSocketClientConnection (client) over MemStreams, the harness owning the virtual clock; the
     projection (close frames written and their code, data after close, pings, stream closed,
     close notifications with code / reason, deliveries, exception of write_message) is compared
     after every step; after the path all timers are run out and quiescence is checked.
C2S: seeded random scenarios recorded from real endpoints, validated by TLC (Trace_WsClose).

Binding demonstrated in a scratch worktree (see notes/ws.md): dropping the echo of the peer's
code, a 50 s closing timeout, and a handler write_message without the is_closing() check are
each reported.
"""
import hashlib
import random
import os
import time

from harness import framework
from harness.framework import canon, jdump
from harness import ws_driver as W


def expand(paths, seed):
    out = []
    for extra, path in paths:
        h = int(hashlib.sha1(jdump([extra, [[s["act"], s["args"]] for s in path], seed]).encode()).hexdigest()[:8], 16)
        e = dict(extra)
        e["variant"] = {"chunk": h % 3, "seed": h % 100000}
        out.append((e, path))
    return out


def mask(exp, obs):
    """Fields the specification's projection leaves open (-1 / "any": after a malformed close frame
    has been processed) are not compared."""
    obs = dict(obs)
    for k in ("closeFrames", "sentCode", "nCode"):
        if exp[k] == -1:
            obs[k] = -1
    if exp["nReason"] == "any":
        obs["nReason"] = "any"
    return obs


def make_sig(cfg, path, i, exp, obs):
    hist = [p["act"] for p in path[:i]]
    invalid = any(p["act"] == "peerclose" and p["args"][1] == "invalid" for p in path[:i + 1])
    return {"invalid_close": invalid, "notified_differs": exp["notified"] != obs["notified"], "role": cfg["role"], "ping": cfg["ping"], "async": cfg["async"], "act": path[i]["act"],
            "args": path[i]["args"], "differs": sorted(k for k in exp if exp[k] != obs.get(k)),
            "after_local_close": "close" in hist, "after_peer_close": "peerclose" in hist,
            "after_ping_timeout": exp["closeFrames"] == 1 and exp["sentCode"] == 1000 and "close" not in hist and "peerclose" not in hist,
            "inflight": hist.count("msg") > hist.count("resume") and cfg["async"],
            "obs_err": obs["err"], "exp_err": exp["err"]}


def replayer(extra, path):
    from harness.httpsim import LogCapture
    cfg, v = extra["cfg"], extra["variant"]
    with LogCapture():
        try:
            real = W.CloseReal(cfg, chunk_mode=v["chunk"], seed=v["seed"])
        except W.HandshakeFailed as e:     # an observation about the code under test, not a harness failure
            return {"step": 0, "act": "handshake", "args": [], "exp": "opening handshake completes", "obs": str(e)[:400],
                    "sig": {"act": "handshake", "where": e.where, "role": cfg["role"], "ping": cfg["ping"], "async": cfg["async"]}}
        try:
            for i, s in enumerate(path):
                exp = s["exp"]
                obs = mask(exp, canon(real.step(s["act"], s["args"])))
                if obs != exp:
                    return {"step": i, "act": s["act"], "args": s["args"], "exp": exp, "obs": obs,
                            "sig": make_sig(cfg, path, i, exp, obs)}
            # quiescence obligations: let every timer expire (the async handler, if any, returns first)
            last = path[-1]["exp"] if path else None
            while real.gates:
                real.step("resume", [])
            fin = canon(real.finish())
            bad = []
            if last is not None:
                if fin["closeFrames"] > 1:
                    bad.append("closeFrames")
                if fin["dataAfterClose"]:
                    bad.append("dataAfterClose")
                if (fin["closeFrames"] >= 1 or not last["tcpOpen"]) and fin["tcpOpen"]:
                    bad.append("tcpOpen")
                if not fin["tcpOpen"] and fin["notified"] != 1:
                    bad.append("notified")
                if fin["notified"] > 1:
                    bad.append("notified")
            if bad:
                return {"step": len(path), "act": "quiesce", "args": [], "exp": last, "obs": fin,
                        "sig": {"role": cfg["role"], "ping": cfg["ping"], "async": cfg["async"], "act": "quiesce",
                                "differs": sorted(set(bad)), "history": [p["act"] for p in path],
                                "invalid_close": any(p["act"] == "peerclose" and p["args"][1] == "invalid" for p in path),
                                "notified_differs": "notified" in bad}}
            return None
        finally:
            real.close()


PEER_CLOSES = [[0, "none"], [0, "onebyte"], [1000, "none"], [3000, "valid"], [1001, "invalid"], [4999, "valid"], [1000, "valid"]]
LOCAL_CLOSES = [[0, False], [1001, False], [0, True], [3001, True], [1000, False]]


def random_trace(job):
    """A seeded random closing scenario on a real endpoint, recorded for TLC."""
    from harness.httpsim import LogCapture
    tid, seed = job
    rng = random.Random(seed)
    role = rng.choice(["server", "client"])
    cfg = {"role": role, "ping": rng.random() < 0.5, "async": role == "server" and rng.random() < 0.5}
    ev = []
    with LogCapture():
        try:
            real = W.CloseReal(cfg, chunk_mode=rng.randrange(3), seed=seed)
        except W.HandshakeFailed as e:      # no specification action is called "error:...": TLC rejects the trace
            return {"id": tid, "cfg": cfg, "ev": [{"a": "error:handshake", "args": [e.where, e.detail], "obs": {"err": "handshake"}}]}
        try:
            obs = real.proj()
            peer_closed = peer_gone = False
            queued = []          # what the harness sent while the handler was suspended
            pings_seen = 0
            pong_owed = False
            for _ in range(rng.randint(4, 30)):
                blocked = bool(real.gates)
                can_send = obs["tcpOpen"] and not peer_closed and not peer_gone
                opts = ["close", "write", "write"]
                if can_send:
                    opts += ["msg", "msg", "msg", "peerclose"]
                    if cfg["ping"] and pong_owed:
                        opts += ["pong"] * 4
                if obs["tcpOpen"] and not peer_gone and not (blocked and not queued):
                    opts += ["eof"]
                if blocked:
                    opts += ["resume"] * 3
                nd = real.env.loop.next_deadline()
                if nd is not None:
                    opts += ["advance"] * 4
                a = rng.choice(opts)
                args = []
                if a == "close":
                    args = list(rng.choice(LOCAL_CLOSES))
                elif a == "peerclose":
                    args = list(rng.choice(PEER_CLOSES))
                    peer_closed = True
                elif a == "eof":
                    peer_gone = True
                elif a == "advance":
                    d = nd - real.env.now
                    args = [int(round(d))] if abs(d - round(d)) < 1e-9 else [d]
                elif a == "pong":
                    pong_owed = False
                if a in ("msg", "pong", "peerclose", "eof") and blocked:
                    queued.append(a)
                if a == "resume":
                    while queued:
                        if queued.pop(0) == "msg":
                            break
                obs = real.step(a, args)
                if not real.gates:
                    queued = []
                ev.append({"a": a, "args": args, "obs": obs})
                if obs["pings"] > pings_seen:
                    pings_seen = obs["pings"]
                    pong_owed = True
                elif a == "advance":
                    pong_owed = False
                if not obs["tcpOpen"] and obs["notified"] == 1 and rng.random() < 0.6:
                    break
            return {"id": tid, "cfg": cfg, "ev": ev}
        finally:
            real.close()


def trace_sig(t, bad, l):
    if not bad:
        return {}
    return {"role": t["cfg"]["role"], "ping": t["cfg"]["ping"], "async": t["cfg"]["async"], "args": bad.get("args"),
            "obs_err": bad["obs"]["err"], "invalid_close": any(e["a"] == "peerclose" and e["args"][1] == "invalid" for e in t["ev"][:l])}


def _mc(ctx, *a, **kw):
    """ctx.mc, skippable with WS_DEV_SKIP_MC=1 (development only: seeded-edit runs, where the
    specification-level model checking is unaffected by the edit)."""
    if os.environ.get("WS_DEV_SKIP_MC") == "1":
        return None
    return ctx.mc(*a, **kw)


def run(ctx):
    t0 = time.time()
    _mc(ctx, "ws", "MC_WsClose", "MC_WsClose.cfg", overrides=ctx.pick({"MaxMsgs": 1}, {"MaxMsgs": 2}),
           required_actions=["LocalClose", "AppWrite", "MessageArrives", "PongArrives", "PeerCloseFrame", "PeerDisconnect",
                             "AsyncOnMessageReturns", "Advance"])
    ctx._phase("mc", t0)
    t0 = time.time()
    paths = ctx.gen_paths("ws", "Gen_WsClose", ctx.pick("Gen_WsClose.cfg", "Gen_WsCloseFull.cfg"),
                          overrides=ctx.pick({"L": 3, "MaxMsgs": 1}, {"L": 4, "MaxMsgs": 2}))
    ctx._phase("gen", t0)
    t0 = time.time()
    ctx.replay(expand(paths, ctx.seed), replayer)
    ctx._phase("s2c", t0)
    ctx.cov["exhaustive"] = True
    # long seeded TLC walks (all close variants, two messages)
    t0 = time.time()
    sims = ctx.sim_paths("ws", "Gen_WsClose", "Gen_WsCloseFull.cfg", num=ctx.pick(250, 3000), depth=14,
                         overrides={"L": 14, "MaxMsgs": 2})
    ctx.replay(expand(sims, ctx.seed), replayer, label="s2c-sim")
    ctx._phase("s2c-sim", t0)
    t0 = time.time()
    n = ctx.pick(200, 5000)
    traces = framework.pool_map(random_trace, [(i + 1, ctx.seed * 1000003 + i) for i in range(n)])
    ctx.validate("ws", "Trace_WsClose", "Trace_WsClose.cfg", traces, sig_fn=trace_sig)
    ctx._phase("c2s", t0)
    ctx.cov["trusted_base"] += ["harness/ws_driver.py frame plumbing", "virtual clock: env.advance to the specification's next deadline"]
    ctx.cov["rule"] = ("paths: every sequence of close / write / msg / pong / peerclose / eof / resume / advance of length <= %d per "
                       "(role, ping, async) configuration, plus TLC simulation walks of depth 14 and random recorded scenarios; "
                       "distinct = distinct (config, segmentation variant, action sequence)" % ctx.pick(3, 4))


def replay(ctx, rec):
    d = rec["detail"]
    if "path" in d:
        r = replayer(d["extra"], d["path"])
        print("replay:", "diverges " + framework.jdump(r) if r else "follows the specification")
        return 1 if r else 0
    t = d["trace"]
    v = ctx.validate("ws", "Trace_WsClose", "Trace_WsClose.cfg", [t], sig_fn=trace_sig)
    bad = v[t["id"]]
    print("replay:", "trace rejected at event %s" % bad["at"] if bad else "trace accepted by the specification")
    return 1 if bad else 0
