"""C44 - Command-line and config options parse to the values they denote.

MC : specs/text/Options.tla - Denote(type, text) for int / float (decimal rationals) / bool /
     datetime (the ten formats) / timedelta (unit table) / str, multiple values and inclusive
     integer ranges; theorems: every canonical and alternative spelling of every table value
     denotes that value, every non-denoting text is an error.
S2C: a fresh tornado.options.OptionParser per case: the option is set on the command line
     (--my-opt=TEXT, name normalisation '-' / '_'), as a string or as a native python literal in a
     config file (written to a scratch file), as a bare flag, not at all (default kept), or an
     unknown option is passed; the projected value / "raised an error" must equal Denote.
C2S: seeded random cases (random numbers rendered in random spellings by the harness are *not*
     used - texts are drawn from TLC-validated tables and combined randomly into longer multiple
     lists); TLC validates every recorded call.

Binding demonstrated during development (scratch worktree, notes/text.md): range made exclusive
(`range(lo, hi)`), unknown command-line option ignored - each reported as VIOLATION by S2C.
"""
import random

from harness import framework
from harness import text_driver as td

MODULE = "Options"


def random_items(seed, n, pool):
    """Random multiple-valued cases built from parts TLC has enumerated (pool: type -> parts)."""
    rng = random.Random(seed)
    items = []
    types = sorted(pool)
    for _ in range(n):
        t = rng.choice(types)
        parts = [rng.choice(pool[t]) for _ in range(rng.randint(1, 6))]
        src = rng.choice(["cmd", "cfgstr"])
        if src == "cfgstr":
            parts = [p for p in parts if 39 not in p] or [pool[t][0]]
        items.append(({"type": t, "mult": True, "src": src}, [("parse", parts)]))
    return items


def run(ctx):
    # The spelling theorems are state independent: one TLC run on the single state of the (int, single, unset)
    # configuration (a violated theorem stops the check as a machinery failure).  TLC's -coverage instrumentation
    # makes the large constant tables of this module take minutes, so ctx.mc is not used; non-vacuity is established
    # from the enumerated states below (every (type, multiple, source) combination must have produced cases).
    ctx.gen_states("text", MODULE, "Thm_Options.cfg", timeout=ctx.pick(900, 1500))
    mp = ctx.pick(2, 3)
    states = ctx.gen_states("text", MODULE, "Gen_Options.cfg", timeout=ctx.pick(900, 1500), overrides={"MaxParts": mp})
    paths, rel_items = td.paths_from_states(states)
    combos = {(e["cfg"]["type"], e["cfg"]["mult"], e["cfg"]["src"]) for e, _ in paths}
    need = {(t, m, s) for t in ("str", "int", "float", "bool", "datetime", "timedelta") for m in (False, True)
            for s in ("cmd", "cfgstr", "flag", "unknown", "unset")}
    if need - combos:
        raise framework.Machinery("vacuity: no case generated for %s" % sorted(need - combos)[:5])
    ctx.cov["coverage_by_action"]["Options.Extend"] = sum(1 for s_ in states if s_["inp"])
    ctx.replay(paths, td.make_replayer(MODULE), nontrivial=lambda e, p: True)
    ctx.cov["exhaustive"] = True
    pool = {}
    for extra, path in paths:
        c = extra["cfg"]
        if c["mult"] and c["src"] == "cmd":
            for part in path[0]["args"][0]:
                if part not in pool.setdefault(c["type"], []):
                    pool[c["type"]].append(part)
    items = random_items(ctx.seed * 7919 + 44, ctx.pick(300, 5000), pool)
    traces = td.record(MODULE, items)
    td.validate_calls(ctx, MODULE, "Trace_Options", "Trace_Options.cfg", traces)
    ctx.cov["rule"] = ("cases: 6 types x single/multiple x {command line, config string, config native literal, bare flag, unknown "
                       "option, unset}; single: every spelling of every table value and every non-denoting text; multiple: every "
                       "list of <= %d parts (values, ranges lo:hi, lo:, :hi, reversed, junk); plus seeded random lists of <= 6 parts" % mp)
    ctx.cov["trusted_base"] += ["harness/text_driver.py adapters (OptionParser set-up, config file in scratch dir, projection of "
                                "float via shortest repr, datetime / timedelta fields)", "stdlib strptime / float / int (opaque)"]


def replay(ctx, rec):
    return td.replay_record(ctx, MODULE, "Trace_Options", "Trace_Options.cfg", rec)
