"""C11 - IOStream reads return exactly the incoming bytes, in order, per request.

MC : specs/net/IOStreamContract.tla restricted to the read side (Read / Deliver / EOF / close):
     every stream over {a, b, CR, LF} up to MaxStream bytes x every arrival pattern x every
     sequence of the read kinds (fixed, partial, into, until / regex with and without max_bytes,
     until-close); invariants ReadDataIsStreamSegment, PendingMeansUnsatisfied, action properties
     ConsumedOnlyByReads, MaxBytesRespected.
S2C: every path of length <= 4 (thorough: longer streams over {a,LF,CR}, more read kinds) through the TLC state graph is replayed on a real BaseIOStream
     over the in-memory transport (read_chunk_size 1/2/3/default, so deliveries straddle the
     stream's own chunking); the projection is compared after every step.  The specification is
     nondeterministic where the contract is (length of a partial read, what is still buffered at
     close): a step is accepted iff some enumerated behaviour with the same observed prefix
     expects it (net_driver.BranchIndex).
C2S: seeded random read programs over streams of a few KiB with 1-byte / chunk-size +-1
     deliveries, recorded from the real stream and validated by TLC (Trace_IOStreamContract).

Binding demonstrated during development (scratch worktree, see notes/net.md): `_find_read_pos`
returning loc instead of loc + delimiter_len, `_check_max_bytes` using >= , `_consume` keeping one
byte, read_into copying one byte less - each reported as a VIOLATION by the S2C replay.
"""
from harness import framework, net_common, net_driver as nd


def run(ctx):
    ctx.mc("net", "IOStreamContract", "MC_IOStreamRead.cfg",
           overrides=ctx.pick({"MaxStream": 3}, {"MaxStream": 5}),
           required_actions=["Read", "Deliver", "Cond", "CloseLocal"], timeout=ctx.pick(900, 3000))
    L = 4
    variants = ctx.pick(nd.VARIANTS[:2], nd.VARIANTS)
    net_common.s2c_stream(ctx, "GenG_IOStreamRead.cfg",
                          ctx.pick({"L": L}, {"L": L, "MaxStream": 5, "MaxChunk": 2, "ReadIds": "{1, 3, 4, 7, 10, 11, 12, 13, 17, 19, 23, 25}", "Alphabet": "{97, 10, 13}"}),
                          variants, spread=ctx.quick,
                          nontrivial=lambda e, p: len(p) >= 2 and any(s["act"] == "read" for s in p))
    # longer streams / bigger deliveries with the max_bytes reads followed by other kinds (no close ops)
    net_common.s2c_stream(ctx, "GenG_IOStreamStale.cfg", {"L": ctx.pick(4, 5)}, variants[:1], label="s2c")
    # flow control: max_buffer_size 4 (read_chunk_size 2), every read asks for <= 2 bytes, bursts of up to
    # 6 bytes arrive while the stream is idle (close callback on / off): whatever is not asked for stays
    # in the transport - the contract (no overflow clause needed: nothing lost, stream stays open) is the
    # same specification, only the real object is configured small
    net_common.s2c_stream(ctx, "GenG_IOStreamIdle.cfg", ctx.pick({"L": 4}, {"L": 5, "Ccs": "{0, 1}"}),
                          [dict(rcs=2, mbs=4), dict(rcs=1, mbs=5)], label="s2c", spread=ctx.quick)
    ctx.cov["exhaustive"] = True
    net_common.c2s_stream(ctx, "read", n=ctx.pick(100, 800))
    ctx.cov["rule"] = ("paths: every sequence of read(kind)/deliver(chunk<=2 over {a,LF})/eof/close of length <= %d "
                       "through the TLC state graph, each replayed under %d transport variants; plus seeded random "
                       "recorded read programs validated by TLC; distinct = distinct (config, operation sequence, "
                       "expected observations); non-trivial = length >= 2 containing a read" % (L, len(variants)))


def replay(ctx, rec):
    return net_common.replay_file(ctx, rec)
