"""C01 - HTTP/1.x request framing is exact, strict and chunking-independent.

MC : specs/httpr/HttpReader.tla (+ HttpLex byte-level grammar) over the wires of HttpWires: every
     arrival schedule (pieces of 1,2,3,4,8 bytes or the rest), peer close at every point.  Invariants:
     Confluent (what was delivered = what a reader given the same bytes in one piece delivers),
     BadFramingNeverFinishes, FinishedComplete, OneEnd, PrefixOfSent, RefusalCloses, Final.
S2C: TLC enumerates the wires of the token grammar and computes, byte by byte, what the reader
     delivers (Gen_HttpReader trail); each wire is fed to a real HTTPServer over a MemStream under
     every single cut point, the all-1-byte schedule and 8 seeded random segmentations, in two
     application modes (recording HTTPMessageDelegate, request callback); after every piece the
     delivered messages (start line, header fields, body, finish/close), the status codes written
     back, the connection state and the tornado logs are compared with the fold of the trail.
C2S: seeded random richer request streams (random header sets, bodies to 300 bytes, pipelining,
     one-byte mutations at framing-relevant positions, random segmentations) are run on the real
     server; TLC validates each recorded run against Trace_HttpReader.

Binding demonstrated during development (scratch worktrees, VERIF_REPO=...): the reverted fixes F04 / F30 / F35 each
produce their divergences (52 / 95 / 7 replayed behaviours); seeded edits M2 (`parse_int` -> `int()`) and M5 (Content-Length
with Transfer-Encoding no longer refused) are reported by the S2C replay as `accepted_refused`; see notes/httpr.md.
"""
from harness import framework
from harness import httpr_check as H

QUICK_GEN = {"RLs": "{1, 2, 3, 4, 7, 19}", "HOSTs": "{1, 2, 4, 5}", "FRs": "{1, 2, 3, 5, 9, 11, 17}",
             "FR2s": "{1, 3, 5}", "XHs": "{1, 3, 5}", "BLANKs": "{1, 2}", "BODYs": "{1, 2, 3, 4, 6, 9, 11, 18}",
             "TAILs": "{1, 2}", "Dev": 1}
FULL = {"RLs": "{1, 2, 3, 4, 5, 6, 7, 8, 9, 10, 11, 12, 13, 14, 15, 16, 17, 18, 19, 20}", "HOSTs": "{1, 2, 3, 4, 5, 6, 7, 8, 9, 10, 11, 12, 13, 14}", "FRs": "{1, 2, 3, 4, 5, 6, 7, 8, 9, 10, 11, 12, 13, 14, 15, 16, 17, 18, 19, 20, 21, 22, 23, 24, 25, 26, 27}", "FR2s": "{1, 2, 3, 4, 5, 6, 7}", "XHs": "{1, 2, 3, 4, 5, 6, 7, 8, 9, 10, 11, 12, 13, 14}", "BLANKs": "{1, 2}",
        "BODYs": "{1, 2, 3, 4, 5, 6, 7, 8, 9, 10, 11, 12, 13, 14, 15, 16, 17, 18, 19, 20, 21, 22, 23, 24, 25, 26}", "TAILs": "{1, 2, 3}"}
SERVER_ONLY = {"Modes": '{"server"}', "Responds": '{"sync"}', "Timeouts": "{FALSE}", "Shuts": "{FALSE}", "Heads": "{FALSE}"}


def run(ctx):
    # 1. model checking: vacuity run (actions seen in the dumped states of a tiny instance), then the real run
    tiny = dict(SERVER_ONLY, RLs="{1}", HOSTs="{1}", FRs="{2, 3}", FR2s="{1}", XHs="{1}", BLANKs="{1}", BODYs="{3}",
                TAILs="{1}", Dev=0)
    H.vacuity(ctx, tiny, ["arrive", "eof"])
    big = dict(SERVER_ONLY, HOSTs="{1, 2}", FR2s="{1, 5}", BODYs="{1, 2, 3, 9}")
    if not ctx.quick:
        big.update(RLs="{1, 3, 4, 5, 7, 19}", HOSTs="{1, 2, 4, 5, 8}", FRs="{1, 2, 3, 4, 5, 9, 10, 11, 12, 15, 16, 17, 18}",
                   FR2s="{1, 2, 3, 5, 6}", XHs="{1, 3, 5}", BLANKs="{1, 2}", BODYs="{1, 2, 3, 4, 5, 6, 9, 10, 11, 18, 21, 22}",
                   TAILs="{1, 2}", Dev=1)
    H.mc(ctx, "MC_HttpReader", "MC_HttpReader.cfg", overrides=big)
    # 2. spec -> code
    gen = dict(QUICK_GEN) if ctx.quick else dict(FULL, Dev=1)
    cases = H.gen_cases(ctx, gen)
    H.replay_server(ctx, cases)
    ctx.cov["exhaustive"] = True
    # 3. code -> spec
    n = ctx.pick(200, 5000)
    jobs = [(i + 1, ctx.seed * 1000003 + i, H.BASE_CFG, "req") for i in range(n)]
    traces = framework.pool_map(H.record_random_server, jobs)
    H.validate(ctx, traces, H.classify_server)
    ctx.cov["rule"] = ("wires = token-grammar requests RL HOST FR FR2 XH BLANK BODY TAIL (harness/httpr_tokens.py) with at most "
                       "%d non-default slots plus the full FR x FR2 x BODY x TAIL product; each wire x {delegate, callback} x "
                       "{every single cut, all-1-byte, 8 random segmentations}; plus %d random mutated pipelined request "
                       "streams validated by TLC; distinct = distinct (wire, schedule family, application mode) / distinct trace"
                       % (gen["Dev"], n))
    ctx.cov["trusted_base"] += ["harness/memstream.py in-memory transport", "harness/httpr_driver.py recorder + trail fold",
                                "harness/httpsim.split_responses (status codes of the bytes written back)"]


def replay(ctx, rec):
    d = rec["detail"]
    if "path" in d:
        r = H.server_replayer(d["extra"], d["path"])
        print("replay:", "diverges " + framework.jdump(r)[:3000] if r else "follows the specification")
        return 1 if r else 0
    if "trace" in d:
        v = H.validate(ctx, [d["trace"]], H.classify_server)
        bad = [x for x in v.values() if x]
        print("replay:", "trace rejected by the specification: " + framework.jdump(bad[0]) if bad else "trace accepted")
        return 1 if bad else 0
    print("nothing to replay")
    return 2
