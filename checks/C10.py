"""C10 - TCP connection racing resolves exactly once and leaks no sockets.

MC : specs/net/Connector.tla - every address list of up to 4 entries over two families, every
     per-address behaviour (asynchronous, synchronous failure), connect timeout none / before /
     after the 0.3 s fallback timer, every order of completions (including two completions in the
     same loop iteration) and timer firings: OnePerFamily, ResultOnce, FirstSuccessWins,
     ErrorMeansAllFailedOrTimeout, NoLeak, ResolvesEventually (at quiescence a result exists).
S2C: every path through the TLC state graph replayed on the real TCPClient.connect ->
     _Connector -> _create_stream -> IOStream.connect with scripted sockets (the `socket` and
     `IOStream` names of tornado.tcpclient are shimmed, a fake resolver returns the address list)
     on the virtual-time loop; result of connect() and the state of every socket
     (none / connecting / connected / closed) compared after every step.  A second, small
     configuration makes stream *creation* fail (socket() or IOStream() raising OSError): the
     contract treats that address as failed (DESIGN §8 F19).
C2S: random schedules over 5-8 addresses recorded from the real code and validated by TLC.

Binding demonstrated during development (notes/net.md): `remaining -= 1` dropped, close_streams()
not called on success, late arrival not closed, secondary started from primary_addrs - each
reported as a VIOLATION.
"""
from harness import net_common


def run(ctx):
    ctx.mc("net", "Connector", "MC_Connector.cfg",
           required_actions=["Start", "SucceedAny", "FailAny", "PairAny", "HE", "CT"], timeout=ctx.pick(900, 3000))
    ctx.mc("net", "Connector", "MC_Connector.cfg", overrides={"MaxN": ctx.pick(2, 3), "Modes": '{"async", "sync", "sockerr", "streamerr", "binderr"}'},
           required_actions=["Start", "SucceedAny", "FailAny", "HE", "CT"], timeout=ctx.pick(900, 3000))
    net_common.s2c_connector(ctx, "GenG_Connector.cfg", {"MaxN": ctx.pick(3, 4)})
    net_common.s2c_connector(ctx, "GenG_ConnectorCreate.cfg", {"MaxN": ctx.pick(2, 3)}, label="s2c-create")
    ctx.cov["exhaustive"] = True
    net_common.c2s_connector(ctx, ctx.pick(200, 10000), n_create=ctx.pick(40, 1000))
    ctx.cov["rule"] = ("paths: every behaviour (to quiescence) of the connector for every address list of <= %d entries "
                       "over two families x per-address mode (async / synchronous failure) x connect timeout "
                       "(none / before / after the fallback timer), plus lists <= %d with failing stream creation; "
                       "random recorded schedules over up to 8 addresses validated by TLC; non-trivial = length >= 2"
                       % (ctx.pick(3, 4), ctx.pick(2, 3)))


def replay(ctx, rec):
    return net_common.replay_file(ctx, rec)
