"""C19 - Compiled templates produce what the template language defines.

MC : specs/tmpl/TemplateLang.tla (Lex / Parse / Eval), MC_TemplateLang.cfg; the generation run
     (Gen_TemplateLang.cfg) checks the same invariants again over every template it dumps for the
     replay.  TLC enumerates templates token by token in
     focused families (character-level lexing, literal text, control flow, while, try, signals
     through finally, loop > named block > break/continue, apply, loader, whitespace, ill-formed
     templates) and checks that the layers
     agree: a ParseError is reported exactly for an ill-formed main, error lines lie in the file,
     every tag token lexes back to one tag, literal text is reproduced byte for byte, the output
     is the concatenation of the segments, expression segments are escaped where escaping is in
     effect.
S2C: every enumerated template (TLC renders the tokens to text and computes the result) is
     compiled by the real DictLoader / Template and generated with the fixed pool in the
     namespace; bytes, (ParseError.filename, lineno) or the exception class are compared with the
     specification's result.  "unspec" results (arbitrary / invalid Python, disputed corners) are
     run but not compared.
C2S: a seeded python-side grammar produces larger template sets (three files, nesting <= 3,
     literal text with quotes / backslashes / braces / non-ASCII, injected ill-formedness); the
     real output is recorded and TLC lexes, parses and evaluates the recorded *text* itself
     (Trace_TemplateLang) and accepts or rejects the observation.

ParseError line convention (DESIGN 5.C19): the line on which the offending tag starts (any line
of the tag if it spans several); for a missing end any line from the outermost unclosed block's
opening tag to the last line; a directive lacking its argument (apply / block / autoescape /
set / extends / include) and an unknown whitespace mode are ill-formed.

Binding demonstrated during development (scratch worktree, one edit at a time, details in
notes/tmpl.md): innermost-brace rule not applied to runs of >= 4 braces; `else` allowed to attach
to `block`; `apply` body inheriting in_loop; the reader's line counter skipping a newline at the
start of a consumed chunk; `single` whitespace mode collapsing only spaces; `{{!` at the very end
of the text not treated as an escape; `ancestors.reverse()` dropped.  Every one is reported as a
VIOLATION by the S2C replay (the first three only since final ParseErrors are closed by up to two
{% end %} tokens, see Gen_TemplateLang.tla).  Findings F70-F72 (fixed upstream) were found by this
check on the then-unchanged tree.
"""
from harness import framework
from harness import tmpl_driver as D

FAMS = ["lex", "text", "control", "control4", "while", "try", "tryloop", "blockloop", "apply", "loader", "ws", "errors", "errors2"]


def fams(names):
    return "{" + ", ".join('"%s"' % n for n in names) + "}"


def replayer(extra, path):
    return D.check_case(extra["cfg"], extra["src"], path[0]["exp"])


def to_paths(states):
    out = []
    for s in states:
        out.append(({"cfg": s["cfg"], "src": s["src"]}, [{"act": "render", "args": [], "exp": D.slim(s["res"])}]))
    return out


def trace_sig(t, bad, l):
    o = (bad or {}).get("obs", {})
    sig = {"obs_kind": o.get("kind")}
    if o.get("kind") == "parse":
        sig["obs_line"] = o.get("line")
        sig["obs_file"] = o.get("file")
    if o.get("kind") == "exc":
        sig["obs_cls"] = (o.get("mro") or ["?"])[0]
    sig["main"] = D.text_of(t["cfg"]["files"]["main"])[:160]
    return sig


def run_family_replay(ctx, names, grow, slen=0, label="s2c"):
    return D.gen_and_replay(ctx, "Gen_TemplateLang", "Gen_TemplateLang.cfg",
                            {"Fams": fams(names), "Grow": grow, "SLen": slen}, timeout=ctx.pick(400, 3000), label=label)


def binding_demo(ctx, traces):
    """thorough tier: a recorded observation corrupted in one byte / one line number must be rejected by TLC"""
    import copy
    import os
    from harness import VERIF
    bad, kind_of = [], {}
    for t in traces:
        o = t["ev"][0]["obs"]
        n_ok = sum(1 for k in kind_of.values() if k == "ok")
        n_pe = sum(1 for k in kind_of.values() if k == "parse")
        if o["kind"] == "ok" and len(o["out"]) > 3 and n_ok < 3:
            c = copy.deepcopy(t)
            c["id"] = len(bad) + 1
            c["ev"][0]["obs"]["out"][1] ^= 1
        elif o["kind"] == "parse" and o["file"] == "main" and n_pe < 3:
            c = copy.deepcopy(t)
            c["id"] = len(bad) + 1
            c["ev"][0]["obs"]["line"] += 1000
        else:
            continue
        kind_of[c["id"]] = o["kind"]
        bad.append(c)
    sd = os.path.join(VERIF, "specs", "tmpl")
    accepted, _ = D.validate_shards_threads(sd, "Trace_TemplateLang", os.path.join(sd, "Trace_TemplateLang.cfg"), bad, 1,
                                            ctx.scratch, 600, False)
    # a corrupted observation is accepted only where the specification leaves the template open ("unspec")
    rejected = [kind_of[i] for i in kind_of if i not in accepted]
    if "ok" not in rejected or "parse" not in rejected:
        raise framework.Machinery("binding demonstration failed: corrupted observations accepted (%s rejected of %s)"
                                  % (rejected, list(kind_of.values())))
    ctx.cov["binding_demo"] = ("%d of %d corrupted observations (one output byte flipped / ParseError line shifted) rejected by TLC"
                               % (len(rejected), len(bad)))


def run_traces(ctx, n, err_rate, salt=0, esc_bias=False):
    jobs = [(i + 1, (ctx.seed + salt) * 1000003 + i, err_rate, esc_bias) for i in range(n)]
    traces = framework.pool_map(D.random_case, jobs)
    framework._validate_shards = D.validate_shards_threads      # same sharding, threads instead of Pool.map (see there)
    ctx.validate("tmpl", "Trace_TemplateLang", "Trace_TemplateLang.cfg", traces, sig_fn=trace_sig,
                 timeout=ctx.pick(400, 3000))
    if not ctx.quick:
        binding_demo(ctx, traces)
    kinds = {}
    for t in traces:
        k = t["ev"][0]["obs"]["kind"]
        kinds[k] = kinds.get(k, 0) + 1
    ctx.cov["recorded_observations_by_kind"] = kinds
    return traces


def run(ctx):
    # 1 + 2. model checking and spec -> code in one pass per family group: Gen_TemplateLang.cfg carries the
    #    INVARIANT lines of MC_TemplateLang.cfg, TLC checks them on every template it enumerates and dumps, and
    #    every dumped template goes through the real compiler.  (-coverage is unusable on this specification, see
    #    tmpl_driver.mc_plain; MC_TemplateLang.cfg is the same model without the dump, for use by hand.)
    if ctx.quick:
        n = run_family_replay(ctx, FAMS, 1)
    else:
        n = run_family_replay(ctx, ["lex", "text", "control", "control4", "tryloop", "blockloop", "apply", "loader", "ws"], 2)
        n += run_family_replay(ctx, ["errors", "errors2", "try", "while"], 2)
    ctx.cov["exhaustive"] = True
    # 3. code -> spec: larger random templates, TLC lexes / parses / evaluates the recorded text
    run_traces(ctx, ctx.pick(250, 10000), 0.3)
    ctx.cov["rule"] = ("templates: every token sequence of each family (alphabets and bounds in TemplateLang!Family, bound = max + %d) "
                       "x loader settings, %d in total, plus seeded random three-file template sets from the python-side grammar; "
                       "distinct = distinct (settings, file texts); non-trivial = main text of >= 2 characters with a specified result"
                       % (ctx.pick(0, 1), n))
    ctx.cov["trusted_base"] += ["harness/tmpl_driver.py (namespace pool, comparator = TemplateLang!Match)",
                                "harness/tmpl_tokens.py (spelling tables)"]
    ctx.assumptions.append("expressions restricted to the fixed pool; templates whose meaning is arbitrary or invalid Python, "
                           "<pre> text under whitespace filtering, non-ASCII whitespace, conflicting autoescape directives, "
                           "duplicate block names, extends below the top level are 'unspec' (run, not compared)")


def replay(ctx, rec):
    d = rec["detail"]
    if "path" in d:
        r = replayer(d["extra"], d["path"])
        print("template:", repr(D.text_of(d["extra"]["src"]["main"])))
        print("replay:", "diverges " + framework.jdump(r) if r else "follows the specification")
        return 1 if r else 0
    t = d["trace"]
    cfg = {k: v for k, v in t["cfg"].items() if k != "files"}
    obs = D.render(cfg, t["cfg"]["files"])
    for f, cps in t["cfg"]["files"].items():
        print(f + ":", repr(D.text_of(cps)))
    print("recorded:", framework.jdump(t["ev"][0]["obs"])[:600])
    print("now     :", framework.jdump(obs)[:600])
    v = ctx.validate("tmpl", "Trace_TemplateLang", "Trace_TemplateLang.cfg",
                     [{"id": 1, "cfg": t["cfg"], "ev": [{"a": "render", "args": [], "obs": {
                         "kind": obs["kind"], "out": obs.get("out", []), "file": obs.get("file") or "", "line": obs.get("line", 0),
                         "mro": obs.get("mro", [])}}]}], sig_fn=trace_sig)
    bad = v[1] is not None
    print("replay:", "rejected by the specification" if bad else "accepted by the specification")
    return 1 if bad else 0
