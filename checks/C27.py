"""C27 - Static range and conditional responses match the file exactly.

MC : specs/webstatic/StaticRange.tla - strict Range grammar ("bytes=" 1*DIGIT "-" *DIGIT | "-" 1*DIGIT),
     integer range arithmetic on the file size, 304 decision from abstract validators, HEAD = GET
     minus body; invariants: body = file[a..b], Content-Length = |body|, 416 carries bytes */size,
     an invalid header never changes the response.
S2C: every Range value built from the token alphabet (digits, '-', '+', ' ', '_', ',', letters,
     non-ASCII digits, unit variants) x file sizes x GET/HEAD, and validator combinations, sent to
     the real StaticFileHandler over the in-memory server on real files; the observed (status,
     Content-Range, Content-Length, body) must be one of TLC's acceptable responses.  Values that
     cannot travel in a latin-1 header drive httputil._parse_request_range directly.
C2S: seeded random request sequences on files of up to 300 bytes (numbers around the size,
     mutated specs, validators) recorded and validated by TLC against Trace_StaticRange.

Binding demonstrations: notes/webstatic.md (seeded edits in /tmp/wt-webstatic).
"""
import random
import time

from harness import framework
from harness import webstatic_driver as W

FILES = []


def _files():
    if not FILES:
        FILES.append(W.RangeFiles())
    return FILES[0]


def _drop():
    for f in FILES:
        f.remove()
    del FILES[:]


def observe(cfg, act, args):
    if act == "parse":
        return W.parse_range_direct(args[0])
    m, has_range, value, inm, ims, fmt = args
    return W.project_range(W.range_request(_files(), cfg["size"], cfg["k"], m, has_range, value, inm, ims, fmt))


def _sig(cfg, act, args, exp, obs):
    if act == "parse":
        return {"act": act, "junk": W.range_features(args[0]), "exp_ignored": exp[0]["ignored"], "obs_ignored": obs["ignored"]}
    m, has_range, value, inm, ims, fmt = args
    return {"act": act, "method": m, "ims": ims, "imsfmt": fmt, "junk": W.range_features(value) if has_range else "norange",
            "exp_st": sorted(r["st"] for r in exp), "obs_st": obs["st"], "cond": inm != "none" or ims != "none",
            "same_status": obs["st"] in [r["st"] for r in exp]}


def replayer(extra, path):
    cfg = extra["cfg"]
    for i, s in enumerate(path):
        obs = observe(cfg, s["act"], s["args"])
        if obs not in s["exp"]:
            return {"step": i, "act": s["act"], "args": s["args"], "exp": s["exp"], "obs": obs,
                    "sig": _sig(cfg, s["act"], s["args"], s["exp"], obs)}
    return None


JUNK = [" ", "+", "_", ",", "x", "-", "\t", "=", ".", "\xa0", "\xb2", "0"]


def random_trace(a):
    tid, seed, length = a
    rng = random.Random(seed)
    size = rng.choice([0, 1, 2, 3, 10, 64, 255, 256, 300, rng.randint(0, 300)])
    cfg = {"size": size, "k": rng.randint(0, 250)}
    ev = []
    for _ in range(length):
        def num():
            return str(rng.choice([0, 1, 2, size - 1, size, size + 1, size // 2, 10 ** 12, rng.randint(0, size + 5)]) if size else rng.choice([0, 1, 5]))
        form = rng.random()
        if form < 0.1:
            has_range, text = False, ""
        else:
            has_range = True
            k = rng.random()
            if k < 0.4:
                a_, b_ = int(num()), int(num())
                text = "bytes=%d-%d" % (a_, b_)
            elif k < 0.6:
                text = "bytes=%s-" % num()
            elif k < 0.8:
                text = "bytes=-%s" % num()
            else:
                text = rng.choice(["bytes=", "bytes=-", "bytes", "items=0-1", "bytes=0-1,2-3", "Bytes=0-1", "bytes=1", "bytes=00-01"])
            if rng.random() < 0.35 and text:
                p = rng.randint(0, len(text))
                text = text[:p] + rng.choice(JUNK) + text[p:]
        inm = rng.choice(["none"] * 6 + ["match", "differ", "star", "weak", "list", "listdiffer"])
        ims = rng.choice(["none"] * 6 + ["before", "equal", "after", "garbage"])
        m = rng.choice(["GET", "GET", "HEAD"])
        fmt = rng.choice(["imf", "rfc850", "asctime", "nozone"]) if ims in ("before", "equal", "after") else "imf"
        args = [m, has_range, W.chars(text), inm, ims, fmt]
        ev.append({"a": "request", "args": args, "obs": observe(cfg, "request", args)})
    return {"id": tid, "cfg": cfg, "ev": ev}


def _trace_sig(t, bad, l):
    if not bad:
        return {}
    if bad["a"] == "parse":
        return {"junk": W.range_features(bad["args"][0]), "obs_ignored": bad["obs"]["ignored"]}
    return {"method": bad["args"][0], "junk": W.range_features(bad["args"][2]) if bad["args"][1] else "norange",
            "obs_st": bad["obs"]["st"], "cond": bad["args"][3] != "none" or bad["args"][4] != "none", "imsfmt": bad["args"][5]}


def run(ctx):
    try:
        _files()
        body_q = ["d0", "d1", "d4", "d5", "d12", "d99", "dash", "plus", "sp", "us", "comma", "x", "arab"]
        body_t = body_q + ["d11", "d007", "dbig", "dot", "tab", "sup2", "nbsp", "eq"]
        prefixes = ["B", "Bsp", "spB", "Beqsp", "items", "BY", "empty", "tabB", "nbspB"]
        nt = lambda e, p: True
        t0 = time.time()
        # all bodies after "bytes=", plus all validator combinations
        paths = W.mc_states(ctx, "webstatic", "StaticRange", "MC_StaticRange.cfg",
                            overrides=ctx.pick({"Sizes": {0, 5, 12}, "BodyToks": set(body_q), "BodyLen": 3, "CondRanges": {"r1to4", "bad"}},
                                               {"Sizes": set(range(0, 13)), "BodyToks": set(body_t), "BodyLen": 3,
                                                "CondRanges": {"r1to4", "bad", "from0", "suffix1", "beyond"}}),
                            required_actions=["request"])
        ctx.replay(paths, replayer, nontrivial=nt)
        # unit / whitespace variants of the prefix with short bodies
        paths2 = W.mc_states(ctx, "webstatic", "StaticRange", "MC_StaticRange.cfg",
                             overrides={"Sizes": ctx.pick({5}, {0, 5, 12}), "RPrefixes": set(prefixes), "BodyToks": set(ctx.pick(body_q, body_t)),
                                        "BodyLen": ctx.pick(2, 3), "Methods": {"GET"}, "CondRanges": set()},
                             required_actions=["request"])
        ctx.replay(paths2, replayer, nontrivial=nt)
        ctx.cov["exhaustive"] = True
        # request sequences on one file (history dependence: etag cache, keep-alive state)
        sims = ctx.sim_paths("webstatic", "Gen_StaticRange", "Gen_StaticRange.cfg", num=ctx.pick(40, 400), depth=7, timeout=ctx.pick(900, 1500))
        ctx.replay(sims, replayer, label="s2c-sim")
        ctx._phase("mc+s2c", t0)
        t0 = time.time()
        # short traces: validation of a trace stops at its first rejected event, and the open finding
        # F12b rejects about one event in twenty
        n = ctx.pick(750, 12000)
        jobs = [(i + 1, ctx.seed * 1000003 + i, 8) for i in range(n)]
        traces = framework.pool_map(random_trace, jobs)
        ctx.validate("webstatic", "Trace_StaticRange", "Trace_StaticRange.cfg", traces, shards=ctx.pick(2, None), sig_fn=_trace_sig, timeout=ctx.pick(900, 1500))
        ctx._phase("c2s", t0)
        ctx.cov["rule"] = ("requests: every Range value 'bytes=' + <= 3 tokens over the body alphabet x sizes x GET/HEAD; unit/whitespace "
                           "prefix variants; all If-None-Match x If-Modified-Since classes x a menu of ranges; TLC simulation walks of 6 "
                           "requests on one file; random recorded sequences on files of <= 300 bytes; distinct = distinct (size, request)")
        ctx.cov["trusted_base"] += ["harness/httpsim.split_responses (transport splitter)", "Content-Range header text parsed by a fixed regex in the driver"]
        ctx.assumptions.append("disputed statuses accepted both ways: whole-file range 200|206, last<first 200|416, suffix of empty file 200|416")
    finally:
        _drop()


def replay(ctx, rec):
    d = rec["detail"]
    try:
        if "path" in d:
            r = replayer(d["extra"], d["path"])
            print("replay:", "diverges " + framework.jdump(r) if r else "follows the specification")
            return 1 if r else 0
        print("trace replays are validated with: ./check C27 (trace stored in the replay file)")
        return 0
    finally:
        _drop()
