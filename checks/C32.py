"""C32 - Proxy headers yield a valid client IP and never leak between requests.

MC : specs/httpm/XHeaders.tla - the reference function (own headers, socket values) -> allowed
     remote_ip / protocol values, over the full per-request header table (22 X-Forwarded-For
     shapes x 8 X-Real-Ip shapes, 10 x 10 scheme shapes) x 8 connection configurations, two requests
     per connection; invariants: numeric-or-socket, taken from own headers, X-Real-Ip precedence,
     rightmost untrusted entry, protocol valid, no headers => socket values; NoLeak action property.
S2C: every single request of the full table under every configuration, and every sequence of up
     to 3 keep-alive requests over the reduced table, sent to a real HTTPServer(xheaders=True) over
     a MemStream (header order / case / chunking variants); the remote_ip / protocol the request
     callback saw must be among the allowed values after every request.
C2S: seeded random connections (random trusted sets, socket kinds, 1-8 requests with random
     address / garbage tokens, separators and multi-line headers; numeric tags from the standard
     library's ipaddress module) validated by TLC against Trace_XHeaders.

Binding demonstrated during development (scratch worktree, see notes/httpm.md): removing
_unapply_xheaders from _ProxyAdapter._cleanup, iterating X-Forwarded-For left-to-right, and
dropping the is_valid_ip check were each reported as VIOLATION by S2C and C2S.
"""
import random

from harness import framework
from harness.framework import canon
from harness.httpm_driver import XhReal, t2s, s2t, numeric_tag

TOKENS_TAGGED = ["1.2.3.4", "5.6.7.8", "2001:db8::2", "10.0.0.1", "10.0.0.2", "127.0.0.1", "0.0.0.0"]
TOKENS_UNTAGGED = ["host.example", "1.2.3.\xb2", "1.2.3.4.5", ""]


def _shape(h):
    def one(lines):
        if not lines:
            return "absent"
        return "%dline" % len(lines)
    return {k: one(h[k]) for k in ("xff", "xri", "xs", "xfp")}


def _classify(text, cfg):
    t = s2t(text)
    if text == cfg["sock"]:
        return "socket"
    if numeric_tag(t):
        return "numeric"
    if not t.isascii():
        return "non-ascii-garbage"
    return "garbage"


def _replay_one(extra, path, variant):
    cfg = extra["cfg"]
    real = XhReal(cfg, variant)
    try:
        for i, s in enumerate(path):
            obs = canon(real.step(s["act"], s["args"]))
            exp = s["exp"]
            ok = obs["ip"] in exp["ips"] and obs["proto"] in exp["protos"] and obs["n"] == exp["n"]
            if not ok:
                return {"step": i, "act": s["act"], "args": s["args"], "exp": exp, "obs": obs,
                        "sig": {"act": s["act"], "ip_ok": obs["ip"] in exp["ips"], "proto_ok": obs["proto"] in exp["protos"],
                                "served": obs["n"] == exp["n"], "ip_class": _classify(obs["ip"], cfg),
                                "first_request": i == 0, "hdr": _shape(s["args"][0])}}
        return None
    finally:
        real.close()


def replayer(extra, path):
    for variant in (0, 15, 6):
        r = _replay_one(extra, path, variant)
        if r is not None:
            r["sig"]["variant"] = variant
            return r
    return None


def _cross_check_tags():
    for t in TOKENS_TAGGED:
        if not numeric_tag(t):
            raise framework.Machinery("token %r is tagged numeric in XHeaders.tla but ipaddress rejects it" % t)
    for t in TOKENS_UNTAGGED:
        if numeric_tag(t):
            raise framework.Machinery("token %r is untagged in XHeaders.tla but ipaddress accepts it" % t)


POOL = ["1.2.3.4", "5.6.7.8", "203.0.113.9", "255.255.255.255", "::1", "2001:db8::2", "::ffff:1.2.3.4", "fe80::1",
        "10.0.0.1", "10.0.0.2", "192.168.1.1", "fd00::1",
        "host.example", "localhost", "1.2.3.4.5", "1.2.3.256", "1.2.3.\xb2", "\xb9.2.3.4", "1.2.3.4:80", "[::1]",
        "<script>", "unknown", "1.2.3.4 5.6.7.8", "", "-", "2001:db8::g", "\xe9", "1.2.3.4/8"]
PROTOS = ["http", "https", "ftp", "HTTPS", "Http", "", "ws", "https ", "httpx", "on"]


def _list_value(rng, toks):
    return "".join(t + (rng.choice([",", ", ", " ,", " , ", ",\t"]) if i < len(toks) - 1 else "") for i, t in enumerate(toks)).strip(" \t")


def random_trace(args):
    tid, seed = args
    rng = random.Random(seed)
    trusted = rng.sample(["10.0.0.1", "10.0.0.2", "192.168.1.1", "fd00::1", "5.6.7.8"], rng.choice([0, 0, 1, 2, 3]))
    sock = rng.choice(["127.0.0.1", "127.0.0.1", "198.51.100.7", "0.0.0.0"])
    cfg = {"sock": t2s(sock), "proto": t2s(rng.choice(["http", "http", "https"])), "trusted": [t2s(t) for t in trusted],
           "numeric": [t2s(t) for t in POOL + [sock] if numeric_tag(t)]}
    cfg["variant"] = rng.randrange(16)
    real = XhReal(cfg, variant=cfg["variant"])
    ev = []
    try:
        for _ in range(rng.choice([1, 2, 3, 4, 6, 8])):
            h = {"xff": [], "xri": [], "xs": [], "xfp": []}
            if rng.random() < 0.6:
                for _l in range(rng.choice([1, 1, 1, 2])):
                    toks = [rng.choice(POOL if rng.random() < 0.6 else trusted or POOL) for _t in range(rng.choice([1, 1, 2, 3, 4]))]
                    h["xff"].append(t2s(_list_value(rng, toks)))
            if rng.random() < 0.35:
                for _l in range(rng.choice([1, 1, 1, 2])):
                    h["xri"].append(t2s(rng.choice(POOL)))
            for key in ("xs", "xfp"):
                if rng.random() < 0.3:
                    for _l in range(rng.choice([1, 1, 2])):
                        h[key].append(t2s(_list_value(rng, [rng.choice(PROTOS) for _t in range(rng.choice([1, 1, 2]))])))
            obs = real.step("request", [h])
            ev.append({"a": "request", "args": [h], "obs": obs})
            if obs["closed"]:
                break
        return {"id": tid, "cfg": cfg, "ev": ev}
    finally:
        real.close()


def _c2s_sig(t, bad, l):
    if not bad:
        return {}
    return {"ip_class": _classify(bad["obs"]["ip"], t["cfg"]), "first_request": l == 1, "hdr": _shape(bad["args"][0]),
            "proto": s2t(bad["obs"]["proto"])[:8]}


def run(ctx):
    _cross_check_tags()
    ctx.mc("httpm", "XHeaders", "MC_XHeaders.cfg", timeout=ctx.pick(900, 3000), required_actions=["Request"])
    # every single request of the full table under every connection configuration
    p1 = ctx.gen_paths("httpm", "Gen_XHeaders", "Gen_XHeaders.cfg", timeout=ctx.pick(900, 3000), overrides={"ComboSel": 1, "MaxReq": 1, "CfgSel": 1, "L": 1})
    ctx.replay(p1, replayer, label="s2c", nontrivial=lambda e, p: True)
    # every sequence of <= 3 (quick) / 4 (thorough) keep-alive requests over the reduced table
    k = ctx.pick(3, 4)
    p2 = ctx.gen_paths("httpm", "Gen_XHeaders", "Gen_XHeaders.cfg", timeout=ctx.pick(900, 3000), overrides={"ComboSel": 2, "MaxReq": k, "CfgSel": ctx.pick(2, 1), "L": k})
    ctx.replay(p2, replayer, label="s2c")
    ctx.cov["exhaustive"] = True
    n = ctx.pick(600, 10000)
    traces = framework.pool_map(random_trace, [(i + 1, ctx.seed * 1000003 + i) for i in range(n)])
    ctx.validate("httpm", "Trace_XHeaders", "Trace_XHeaders.cfg", traces, timeout=ctx.pick(900, 3000), sig_fn=_c2s_sig)
    ctx.cov["trusted_base"].append("ipaddress.ip_address as the numeric-IP tag of header tokens")
    ctx.cov["rule"] = ("paths: every request of the full proxy-header table (22 X-Forwarded-For x 8 X-Real-Ip shapes, 10 x 10 "
                       "X-Scheme / X-Forwarded-Proto shapes) under 8 connection configurations, and every sequence of up to %d "
                       "keep-alive requests over an 8-entry table, each in 3 wire variants; plus random recorded connections; "
                       "distinct = distinct (configuration, request sequence)" % k)


def replay(ctx, rec):
    d = rec["detail"]
    if "path" in d:
        r = replayer(d["extra"], d["path"])
        print("replay:", "diverges " + framework.jdump(r) if r else "follows the specification")
        return 1 if r else 0
    if "trace" in d:
        t = d["trace"]
        real = XhReal(t["cfg"], variant=t["cfg"].get("variant", 0))      # re-execute the recorded inputs
        try:
            t = {"id": t["id"], "cfg": t["cfg"], "ev": [{"a": e["a"], "args": e["args"], "obs": real.step(e["a"], e["args"])} for e in t["ev"]]}
        finally:
            real.close()
        v = ctx.validate("httpm", "Trace_XHeaders", "Trace_XHeaders.cfg", [t], sig_fn=_c2s_sig)
        bad = v[t["id"]]
        print("replay:", "rejected at event %d: %s" % (bad["at"], framework.jdump(bad["event"])) if bad else "accepted by the specification")
        return 1 if bad else 0
    print("replay: specification-level counterexample (re-run ./check C32)")
    return 1
