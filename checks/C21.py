"""C21 - Escaping and encoding helpers are safe and invertible.

MC : specs/text/Escapes.tla - the theorems of the property (HtmlSafe, HtmlInverse, UrlInverse in
     both plus modes for text and bytes, Utf8Inverse, QsPreserve) are TLC invariants over every
     input built from the per-kind token tables up to MaxTok tokens.
S2C: every enumerated input (TLC state) goes through the real tornado.escape helpers
     (xhtml_escape / xhtml_unescape, url_escape / url_unescape str and bytes forms, utf8 /
     to_unicode / recursive_unicode incl. non-str arguments, parse_qs_bytes on bytes and on the
     latin-1 decoding); the observation must equal the TLC-computed reference result.
     json_encode is relational (json.dumps is opaque): TLC enumerates values, the recorded
     (value, output, decoded == value) triples are validated by Trace_Escapes (no '</').
C2S: seeded random Unicode / bytes / query strings / JSON values through the same helpers; TLC
     (Trace_Escapes) recomputes every reference result and evaluates the theorems on every
     recorded input.

Binding demonstrated during development (scratch worktree, see notes/text.md): parse_qs_bytes
encoding values as utf-8 instead of latin-1 (S2C parse_qs_* / qs_pairs_roundtrip), json_encode
guarding only "</s" (TLC rejects the recorded outputs containing "</").
"""
import random

from harness import framework
from harness import text_driver as td

MODULE = "Escapes"
KIND_FNS = {
    "html": ["xhtml_escape", "xhtml_escape_u8", "xhtml_roundtrip", "utf8", "utf8_roundtrip"],
    "url": ["url_escape_p", "url_escape_n", "url_roundtrip_p", "url_roundtrip_n", "url_unescape_bytes_p",
            "url_unescape_bytes_n", "url_unescape_p", "url_unescape_n", "utf8", "utf8_roundtrip"],
    "utf8": ["to_unicode", "utf8_b", "xhtml_escape_b", "recursive_unicode", "url_escape_b_p", "url_escape_b_n",
             "url_roundtrip_b_p", "url_roundtrip_b_n"],
    "qs": ["parse_qs_keep", "parse_qs_drop"],
    "qsp": ["qs_pairs_roundtrip"],
    "json": ["json_encode"],
}


def _rand_jval(rng, depth):
    r = rng.random()
    if depth <= 0 or r < 0.45:
        k = rng.choice(["str", "str", "str", "int", "bool", "null", "float"])
        if k == "str":
            s = td.rand_text(rng, ["<", "/", "</", "\\", '"', " ", " ", "a", "</script>", "\x00", "\x7f"], 12, 0.25)
            return {"k": "str", "v": td.cps(s)}
        if k == "int":
            return {"k": "int", "v": rng.choice([0, 1, -1, 7, 2 ** 31 - 1, -(2 ** 31) + 1, rng.randint(-10 ** 6, 10 ** 6)])}
        if k == "bool":
            return {"k": "bool", "v": rng.random() < 0.5}
        if k == "float":
            return {"k": "float", "v": [rng.randint(-1000, 1000), rng.choice([1, 2, 3, 7, 10, 1000])]}
        return {"k": "null", "v": 0}
    if r < 0.75:
        return {"k": "list", "v": [_rand_jval(rng, depth - 1) for _ in range(rng.randint(0, 3))]}
    keys = []
    ents = []
    for _ in range(rng.randint(0, 3)):
        key = td.rand_text(rng, ["<", "/", "</", "k", '"'], 4, 0.2)
        if key in keys:
            continue
        keys.append(key)
        ents.append({"key": td.cps(key), "val": _rand_jval(rng, depth - 1)})
    return {"k": "dict", "v": ents}


def random_items(seed, n):
    rng = random.Random(seed)
    items = []
    for i in range(n):
        kind = ["html", "url", "utf8", "qs", "qsp", "json"][i % 6]
        if kind == "html":
            x = td.cps(td.rand_text(rng, ["<", ">", "&", '"', "'", "&amp;", "&lt;", "&#39;", "&#x27;", ";", "a", " "], 60))
        elif kind == "url":
            x = td.cps(td.rand_text(rng, ["a", " ", "+", "%", "%41", "%C3%A9", "%e9", "/", "~", "&", "=", "%2", "%zz",
                                          "é", "%F0%9F%98%80", "-", "_", "."], 40))
        elif kind == "utf8":
            x = list(td.rand_bytes(rng, [b"<", b"&", b"a", "é".encode(), "€".encode(), "\U0001f600".encode(),
                                         b"\xc3", b"\x80", b"\xed\xa0\x80", b"\xc0\xaf", b"\xf4\x90\x80\x80", b"\xe2\x82"], 30, 0.15))
        elif kind == "qs":
            x = list(td.rand_bytes(rng, [b"a", b"b", b"=", b"&", b"+", b"%41", b"%26", b"%3D", b"%", b";", b"\xe9",
                                         b"c=d", b"&&", b"%e9", b"%2B"], 40, 0.1))
        elif kind == "qsp":
            x = []
            for j in range(rng.randint(0, 5)):
                if j:
                    x.append(256)
                x += list(td.rand_bytes(rng, [b"a", b"=", b"&", b"+", b"%", b"\x00"], 6, 0.5))
                x.append(257)
                x += list(td.rand_bytes(rng, [b"a", b"=", b"&", b"+", b"%", b"\x00"], 8, 0.5))
        else:
            x = _rand_jval(rng, 3)
        items.append(({"kind": kind}, [(fn, x) for fn in KIND_FNS[kind]]))
    return items


def run(ctx):
    # 1. the theorems on the specification (with per-action coverage)
    ctx.mc("text", MODULE, "MC_Escapes.cfg", timeout=ctx.pick(900, 1500), overrides={"MaxTok": ctx.pick(2, 3)},
           required_actions=["Extend", "JExtend", "JWrapList", "JWrapDict", "JAsKey"])
    # 2. spec -> code: every enumerated input through the real helpers (the theorems are checked again
    #    by this run on the larger bound)
    ntok = ctx.pick(3, 4)
    states = ctx.gen_states("text", MODULE, "Gen_Escapes.cfg", timeout=ctx.pick(900, 1500), overrides={"MaxTok": ntok})
    paths, rel_items = td.paths_from_states(states)
    ctx.replay(paths, td.make_replayer(MODULE), nontrivial=lambda e, p: len(p[0]["args"][0]) >= 1)
    rel_traces = td.record(MODULE, rel_items)
    ctx.cov["exhaustive"] = True
    # 3. code -> spec: random inputs
    items = random_items(ctx.seed * 7919 + 21, ctx.pick(300, 20000))
    traces = td.record(MODULE, items)
    td.validate_both(ctx, MODULE, "Trace_Escapes", "Trace_Escapes.cfg", rel_traces, traces)
    ctx.cov["rule"] = ("inputs: every concatenation of <= %d tokens of each kind's token table (html, url, utf8 bytes, "
                       "query-string bytes, name/value pair lists, argument types, JSON values nested <= 2), each through every "
                       "helper of its kind; plus seeded random inputs (text <= 60, bytes <= 40, JSON depth <= 3) validated by "
                       "TLC; distinct = distinct (kind, input); non-trivial = non-empty input" % ntok)
    ctx.cov["trusted_base"] += ["html.unescape / json / urllib (stdlib, opaque)", "harness/text_driver.py adapters"]


def replay(ctx, rec):
    return td.replay_record(ctx, MODULE, "Trace_Escapes", "Trace_Escapes.cfg", rec)
