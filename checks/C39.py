"""C39 - PeriodicCallback stays on its grid, skips missed periods, never overlaps.

MC : specs/loop/Periodic.tla over integer ticks with separate wall and monotonic clocks: the
     _update_next arithmetic (floor branch / clock-behind branch) and the run loop
     (start, fire, coroutine completion, stop); grid, monotonicity, not-in-the-past,
     at-most-one-period, no-overlap, no-run-after-stop as invariants / action properties.
S2C: every sequence of start / stop / done / tick up to length L enumerated by TLC is replayed on
     a real PeriodicCallback whose IOLoop.time() (wall) and asyncio clock (monotonic) are separate
     virtual clocks; deadlines are observed at IOLoop.add_timeout.  Ticks map to dyadic floats
     (1 s, 2^-19 s at epoch scale, 0.25 s, timedelta periods) so float arithmetic is exact.
C2S: seeded random long runs recorded from the real object and validated by TLC.
Jitter: specs/loop/PeriodicJitter.tla - the same machine with the random draw of _update_next as an
     action argument (jitter = 1/2, dyadic draws scripted through tornado.ioloop.random): MC, S2C
     (divergence only if under both draw conventions r and 1 - r) and C2S (draw inferred by TLC).
Proof: specs/loop/PeriodicProof.tla (TLAPS) - the arithmetic facts for all integers.

Binding demonstrated during development (scratch worktree, see notes/loop.md): ceil instead of
floor+1, recomputing from the current time in the clock-behind branch, scheduling the next run
before awaiting the coroutine, stop() not removing the timeout, start() reading the asyncio clock,
no reschedule after a raising callback - each reported as VIOLATION by the S2C replay; a recorded
trace with one deadline changed by one tick is rejected by Trace_Periodic.
"""
import random

from harness import framework
from harness.framework import canon, jdump
from harness import loop_driver as D

_NVAR = 2


def periodic_replay_one(extra, path, variant):
    cfg = extra["cfg"]
    real = D.PeriodicReal(cfg, variant=variant)
    try:
        for i, s in enumerate(path):
            obs = canon(real.step(s["act"], s["args"]))
            if obs != s["exp"]:
                e = s["exp"]
                return {"step": i, "act": s["act"], "args": s["args"], "exp": e, "obs": obs, "variant": variant,
                        "sig": {"spec": "Periodic", "act": s["act"], "kind_": cfg["kind"],
                                "sched_differs": obs.get("sched") != e["sched"], "calls_differ": obs.get("calls") != e["calls"],
                                "armed_differs": obs.get("armed") != e["armed"], "inflight_differs": obs.get("inflight") != e["inflight"],
                                "running_differs": obs.get("running") != e["running"], "errs_differ": obs.get("errs") != e["errs"],
                                "raised": obs.get("raised"), "unexpected_log": bool(obs.get("unexpected_log")),
                                "after_restart": sum(1 for x in path[:i + 1] if x["act"] == "start") > 1,
                                "restart_in_flight": any(x["act"] == "start" and j > 0 and path[j - 1]["exp"]["inflight"] > 0
                                                         for j, x in enumerate(path[:i + 1]))}}
        return None
    finally:
        real.close()


def periodic_replayer(extra, path):
    for v in range(_NVAR):
        r = periodic_replay_one(extra, path, v)
        if r is not None and extra["cfg"].get("jit"):
            # which random number maps to which end of the jitter range is not part of C39: a path
            # diverges only if it diverges under both conventions (r and 1 - r)
            r2 = periodic_replay_one(dict(extra, cfg=dict(extra["cfg"], mirror=1)), path, v)
            if r2 is None:
                r = None
        if r is not None:
            return r
    return None


def random_periodic_trace(args):
    """A seeded random long run of a real PeriodicCallback: periods up to 60 ticks, wall clock running
    with, slower than, ahead of and behind the loop's clock, callbacks of every kind."""
    tid, seed, length = args
    rng = random.Random(seed)
    cfg = {"p": rng.choice([1, 2, 3, 5, 7, 10, 16, 25, 60]), "kind": rng.choice(["sync", "raise", "coro", "coro", "cororaise"]),
           "w0": rng.choice([0, 3, 100, 4000])}
    real = D.PeriodicReal(cfg, variant=rng.randrange(len(D.PERIODIC_SCALES)))
    p = cfg["p"]
    ev = []
    mode = "sync"
    try:
        for _ in range(length):
            running = real.pc.is_running()
            acts = ["tick"] * 8
            if not running and real.inflight == 0:
                acts += ["start"] * 4
            if running:
                acts += ["stop"]
            else:
                acts += ["stop"] if rng.random() < 0.2 else []
            if real.inflight:
                acts += ["done"] * 3
            a = rng.choice(acts)
            args_ = []
            if a == "tick":
                if rng.random() < 0.15:
                    mode = rng.choice(["sync", "sync", "slow", "fast", "jumpy"])
                dm = rng.choice([0, 1, 1, 2, p // 2, p, p + 1, 2 * p, 3 * p + 1])
                if mode == "sync":
                    dw = dm
                elif mode == "slow":
                    dw = dm - rng.choice([0, 1, min(dm, 2)]) if dm else 0
                elif mode == "fast":
                    dw = dm + rng.choice([0, 1, p])
                else:
                    dw = rng.choice([-2 * p - 1, -p, -1, 0, 1, p, 5 * p + 2])
                dw = max(dw, -real.wall, -1000)
                args_ = [dw, dm]
            obs = real.step(a, args_)
            ev.append({"a": a, "args": args_, "obs": obs})
        return {"id": tid, "cfg": cfg, "ev": ev}
    finally:
        real.close()


def random_jitter_trace(args):
    """A seeded random long run of a real PeriodicCallback(jitter=0.5) with scripted draws (base periods
    that are multiples of 8 ticks, so every jittered period is a whole number of ticks)."""
    tid, seed, length = args
    rng = random.Random(seed)
    cfg = {"p": rng.choice([8, 16, 24, 40, 64]), "kind": rng.choice(["sync", "raise", "coro", "coro", "cororaise"]),
           "w0": rng.choice([0, 3, 100, 4000]), "jit": 1}
    real = D.PeriodicReal(cfg, variant=rng.randrange(len(D.PERIODIC_SCALES)))
    p = cfg["p"]
    ev = []
    mode = "sync"
    try:
        for _ in range(length):
            running = real.pc.is_running()
            acts = ["tick"] * 8
            if not running and real.inflight == 0:
                acts += ["start"] * 4
            if running or rng.random() < 0.2:
                acts += ["stop"]
            if real.inflight:
                acts += ["done"] * 3
            a = rng.choice(acts)
            f = rng.choice([6, 7, 8, 9])
            args_ = []
            if a == "tick":
                if rng.random() < 0.15:
                    mode = rng.choice(["sync", "sync", "slow", "fast", "jumpy"])
                dm = rng.choice([0, 1, 3, p // 2, (3 * p) // 4, p - 1, p, p + 1, (5 * p) // 4, 2 * p, 3 * p + 1])
                if mode == "sync":
                    dw = dm
                elif mode == "slow":
                    dw = dm - rng.choice([0, 1, min(dm, 2)]) if dm else 0
                elif mode == "fast":
                    dw = dm + rng.choice([0, 1, p])
                else:
                    dw = rng.choice([-2 * p - 1, -p, -1, 0, 1, p, 5 * p + 2])
                dw = max(dw, -real.wall, -1000)
                args_ = [dw, dm]
            obs = real.step(a, args_ if a == "stop" else args_ + [f])
            ev.append({"a": a, "args": args_, "f": f, "obs": obs})
        return {"id": tid, "cfg": {k: cfg[k] for k in ("p", "kind", "w0")}, "ev": ev}
    finally:
        real.close()


def run(ctx):
    global _NVAR
    _NVAR = ctx.pick(2, len(D.PERIODIC_SCALES))
    full_ticks = "{" + ", ".join(str(10 * x + dm) for x in range(0, 13) for dm in range(0, 4)) + "}"
    ctx.mc("loop", "Periodic", "MC_Periodic.cfg", required_actions=["Start", "Stop", "Tick", "Done"],
           overrides=ctx.pick({}, {"Periods": "{1, 2, 3, 4, 5, 6}", "Ticks": full_ticks, "Back": 4, "MaxWall": 15, "MaxMono": 8}),
           timeout=ctx.pick(300, 2400))
    runs = ctx.pick([{"L": 5, "Ticks": "{41, 31, 11, 101}"}],
                    [{"L": 6, "Kinds": '{"sync", "coro", "raise"}'},
                     {"L": 5, "Periods": "{1, 5}", "Kinds": '{"sync", "coro", "cororaise"}', "Ticks": "{41, 52, 31, 11, 101, 30, 73}"}])
    for ov in runs:
        paths = ctx.gen_paths("loop", "Gen_Periodic", "Gen_Periodic.cfg", overrides=ov)
        ctx.replay(paths, periodic_replayer, label="s2c-periodic",
                   nontrivial=lambda e, p: any(s["act"] == "tick" for s in p) and any(s["act"] == "start" for s in p))
    # extension: start() offered again while an invocation is still in flight (after stop)
    rp = ctx.gen_paths("loop", "Gen_Periodic", "Gen_Periodic.cfg",
                       overrides={"L": ctx.pick(5, 6), "Restart": 1, "Periods": "{2}", "Ticks": "{41, 52, 62}",
                                  "Kinds": ctx.pick('{"coro"}', '{"coro", "cororaise", "sync"}')})
    rp = [(e, p) for e, p in rp if sum(1 for s in p if s["act"] == "start") > 1]
    ctx.replay(rp, periodic_replayer, label="s2c-periodic-restart")
    n = ctx.pick(200, 3000)
    traces = framework.pool_map(random_periodic_trace, [(i + 1, ctx.seed * 1000003 + i, ctx.pick(60, 100)) for i in range(n)])
    ctx.validate("loop", "Trace_Periodic", "Trace_Periodic.cfg", traces, label="c2s-periodic",
                 sig_fn=lambda t, bad, l: {"spec": "Periodic", "kind_": t["cfg"]["kind"]})
    # extension: jitter = 1/2 with scripted draws (specs/loop/PeriodicJitter.tla)
    ctx.mc("loop", "PeriodicJitter", "MC_PeriodicJitter.cfg", required_actions=["Start", "Stop", "Tick", "Done"],
           overrides=ctx.pick({}, {"Periods": "{8, 16}", "MaxWall": 72, "MaxMono": 44,
                                   "Ticks": "{300, 1003, 1008, 1511, 2013, 2310, 712, 5, 4028}"}),
           timeout=ctx.pick(600, 2400))
    jp = ctx.gen_paths("loop", "Gen_PeriodicJitter", "Gen_PeriodicJitter.cfg",
                       overrides=ctx.pick({}, {"L": 6, "JF": "{6, 9}"}))
    ctx.replay(jp, periodic_replayer, label="s2c-periodic-jitter",
               nontrivial=lambda e, p: any(s["act"] == "tick" for s in p) and len(p[-1]["exp"]["sched"]) >= 2)
    nj = ctx.pick(150, 2000)
    jt = framework.pool_map(random_jitter_trace, [(i + 1, ctx.seed * 7000003 + i, ctx.pick(60, 100)) for i in range(nj)])
    ctx.validate("loop", "Trace_PeriodicJitter", "Trace_PeriodicJitter.cfg", jt, label="c2s-periodic-jitter",
                 sig_fn=lambda t, bad, l: {"spec": "PeriodicJitter", "kind_": t["cfg"]["kind"]})
    # proof component: the arithmetic facts for all integers (TLAPS)
    import os
    pr = D.run_tlapm(os.path.join(framework.VERIF, "specs", "loop", "PeriodicProof.tla"), ctx.scratch)
    ctx.note("tlaps", {k: pr[k] for k in ("ok", "obligations", "failed", "wall_s")})
    ctx.cov["checker_cmd"].append("tlapm PeriodicProof.tla")
    ctx.cov["trusted_base"].append("TLAPS (tlapm, Z3/Zenon/Isabelle backends) for PeriodicProof.tla")
    if not pr["ok"]:
        if pr["failed"]:
            ctx.violation({"kind": "proof", "module": "PeriodicProof", "failed": pr["failed"]}, {"tlapm": pr["tail"]})
        else:
            raise framework.Machinery("tlapm did not complete: %s" % pr["tail"])
    ctx.cov["exhaustive"] = True
    ctx.cov["rule"] = ("paths: every sequence of start/stop/done/tick(dw, dm) over the Gen tick set (clocks in step, wall slower, "
                       "wall backwards, wall jumping ahead) up to the bound, per period and callback kind; distinct = distinct "
                       "(config, sequence); non-trivial = contains a start and a tick")


def replay(ctx, rec):
    d = rec["detail"]
    if "path" in d:
        r = periodic_replayer(d["extra"], d["path"])
        print("replay:", "diverges " + jdump(r) if r else "follows the specification")
        return 1 if r else 0
    print("trace replays are validated with: ./check C39 (trace stored in the replay file)")
    return 0
