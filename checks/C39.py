"""C39 - PeriodicCallback stays on its grid, skips missed periods, never overlaps.

MC : specs/loop/Periodic.tla over integer ticks with separate wall and monotonic clocks: the
     _update_next arithmetic (floor branch / clock-behind branch) and the run loop
     (start, fire, coroutine completion, stop); grid, monotonicity, not-in-the-past,
     at-most-one-period, no-overlap, no-run-after-stop as invariants / action properties.
S2C: every sequence of start / stop / done / tick up to length L enumerated by TLC is replayed on
     a real PeriodicCallback whose IOLoop.time() (wall) and asyncio clock (monotonic) are separate
     virtual clocks; deadlines are observed at IOLoop.add_timeout.  Ticks map to dyadic floats
     (1 s, 2^-19 s at epoch scale, 0.25 s, timedelta periods) so float arithmetic is exact.
C2S: seeded random long runs recorded from the real object and validated by TLC.
"""
import random

from harness import framework
from harness.framework import canon, jdump
from harness import loop_driver as D

_NVAR = 2


def periodic_replay_one(extra, path, variant):
    cfg = extra["cfg"]
    real = D.PeriodicReal(cfg, variant=variant)
    try:
        for i, s in enumerate(path):
            obs = canon(real.step(s["act"], s["args"]))
            if obs != s["exp"]:
                e = s["exp"]
                return {"step": i, "act": s["act"], "args": s["args"], "exp": e, "obs": obs, "variant": variant,
                        "sig": {"spec": "Periodic", "act": s["act"], "kind_": cfg["kind"],
                                "sched_differs": obs.get("sched") != e["sched"], "calls_differ": obs.get("calls") != e["calls"],
                                "armed_differs": obs.get("armed") != e["armed"], "inflight_differs": obs.get("inflight") != e["inflight"],
                                "running_differs": obs.get("running") != e["running"], "errs_differ": obs.get("errs") != e["errs"],
                                "raised": obs.get("raised"), "unexpected_log": bool(obs.get("unexpected_log")),
                                "after_restart": sum(1 for x in path[:i + 1] if x["act"] == "start") > 1}}
        return None
    finally:
        real.close()


def periodic_replayer(extra, path):
    for v in range(_NVAR):
        r = periodic_replay_one(extra, path, v)
        if r is not None:
            return r
    return None


def run(ctx):
    global _NVAR
    _NVAR = ctx.pick(2, len(D.PERIODIC_SCALES))
    ctx.mc("loop", "Periodic", "MC_Periodic.cfg", required_actions=["Start", "Stop", "Tick", "Done"])
    paths = ctx.gen_paths("loop", "Gen_Periodic", "Gen_Periodic.cfg", overrides={"L": ctx.pick(5, 6)})
    ctx.replay(paths, periodic_replayer, label="s2c-periodic",
               nontrivial=lambda e, p: any(s["act"] == "tick" for s in p) and any(s["act"] == "start" for s in p))
    ctx.cov["exhaustive"] = True
    ctx.cov["rule"] = ("paths: every sequence of start/stop/done/tick(dw, dm) over the Gen tick set (clocks in step, wall slower, "
                       "wall backwards, wall jumping ahead) up to the bound, per period and callback kind; distinct = distinct "
                       "(config, sequence); non-trivial = contains a start and a tick")


def replay(ctx, rec):
    d = rec["detail"]
    if "path" in d:
        r = periodic_replayer(d["extra"], d["path"])
        print("replay:", "diverges " + jdump(r) if r else "follows the specification")
        return 1 if r else 0
    print("trace replays are validated with: ./check C39 (trace stored in the replay file)")
    return 0
