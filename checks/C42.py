"""C42 - Subprocess exit is reported once with the right status.

MC : specs/proc/SubprocessExit.tla - every interleaving of child exits (0 / non-zero / signal /
     core), registrations (set_exit_callback, wait_for_exit with and without raise_error),
     coalescing and spurious SIGCHLD deliveries, future cancellations and explicit
     initialize / uninitialize over 2 (quick) / 3 (thorough) concurrent children; invariants
     CallbackOnce, FutureOutcome, ReturnCodeRight, ReportedAtQuiescence, action properties
     ExitBeforeRegister, Sticky; liveness EventuallyReported under fair delivery (LiveSpec).
S2C: every history up to the bound enumerated by TLC is replayed on real
     tornado.process.Subprocess objects on the virtual loop (Popen / waitpid answered by a
     scripted kernel; the SIGCHLD handler Tornado installs is invoked as asyncio would);
     callback values, future states, returncodes, escaped exceptions compared after every step.
     Plus seeded TLC simulation walks over 3 children.
C2S: seeded random schedules over up to 8 children with arbitrary statuses recorded from the
     real objects and validated by TLC against Trace_SubprocessExit.
Thorough only: real children (all exit codes 0..255, terminating signals) run through the
     unshimmed Subprocess with the real SIGCHLD handler; TLC checks the kernel's raw status
     against WaitStatus!Encode (the encoding every scripted run of C41/C42 relies on) and the
     reported values against the model's reporting operators.

Binding demonstrated during development (VERIF_REPO=/tmp/wt-proc, see notes/proc.md): sign of the
signal returncode flipped; the poll at registration dropped; `ret != 0` -> `ret > 0` in
wait_for_exit; _cleanup polling only the first waiting pid; `if ret_pid == 0: return` dropped -
each reported as VIOLATION by the replay and by trace validation.
"""
import time

from harness import framework
from harness.proc_driver import (replay_subprocess, gen_paths_fast, random_subprocess_trace,
                                 real_children_trace, REAL_SIGNALS, binding_selftest)

ACTIONS = ["Exit", "Register", "Sigchld", "CancelWait", "Initialize", "Uninitialize"]


def replayer(extra, path):
    return replay_subprocess(extra["cfg"], path, len(path[0]["exp"]["rc"]))


def _nontrivial(extra, path):
    return len(path) >= 3 and any(s["act"] == "register" for s in path)


def _trace_sig(t, bad, l):
    if not bad:
        return {}
    sig = {"args": bad.get("args") if bad.get("a") == "real" else None}
    if isinstance(bad.get("obs"), dict):
        sig["err"] = bad["obs"].get("err")
    return sig


def run(ctx):
    t0 = time.time()
    # 1. model checking (safety, then liveness under fair SIGCHLD delivery)
    ctx.mc("proc", "SubprocessExit", "MC_SubprocessExit.cfg",
           overrides=ctx.pick({}, {"NCs": "{3}", "MaxC": 3, "Statuses": "{0, 1, 1009, 2011}"}),
           required_actions=ACTIONS)
    ctx.mc("proc", "SubprocessExit", "MC_SubprocessExit_live.cfg", required_actions=ACTIONS)
    ctx._phase("mc", t0)
    t0 = time.time()
    # 2. spec -> code: all histories up to the bound
    la, lb = ctx.pick((4, 5), (5, 6))
    paths = gen_paths_fast(ctx, "proc", "Gen_SubprocessExit", "Gen_SubprocessExit.cfg",
                           overrides={"L": la, "Ext": True})
    ctx.replay(paths, replayer, nontrivial=_nontrivial)
    paths = gen_paths_fast(ctx, "proc", "Gen_SubprocessExit", "Gen_SubprocessExit.cfg",
                           overrides={"L": lb, "Ext": False})
    ctx.replay(paths, replayer, nontrivial=_nontrivial, label="s2c-noext")
    ctx.cov["exhaustive"] = True
    ctx._phase("s2c_paths", t0)
    t0 = time.time()
    sims = ctx.sim_paths("proc", "Gen_SubprocessExit", "Gen_SubprocessExit.cfg", num=ctx.pick(150, 2000), depth=16,
                         overrides={"L": 16, "MaxSpur": 4, "NCs": "{3}", "MaxC": 3, "Statuses": "{0, 1, 255, 1009, 1015, 2011}"})
    ctx.replay(sims, replayer, nontrivial=_nontrivial, label="s2c-sim")
    ctx._phase("s2c_sim", t0)
    t0 = time.time()
    # 3. code -> spec: random recorded schedules
    n = ctx.pick(300, 4000)
    maxc = 8
    jobs = [(i + 1, ctx.seed * 1000003 + i, maxc, ctx.pick(40, 70)) for i in range(n)]
    traces = framework.pool_map(random_subprocess_trace, jobs)
    verdict = ctx.validate("proc", "Trace_SubprocessExit", "Trace_SubprocessExit.cfg", traces, overrides={"MaxC": maxc},
                           sig_fn=_trace_sig)
    ctx._phase("c2s", t0)
    t0 = time.time()
    # non-vacuity of both bindings
    good = [t for t in traces if verdict[t["id"]] is None]

    def corrupt(o):
        o["rc"] = [(-9 if r == 999 else r + 1) for r in o["rc"]]
    binding_selftest(ctx, "Trace_SubprocessExit", "Trace_SubprocessExit.cfg", {"MaxC": maxc}, good,
                     paths, replayer, corrupt)
    rule = ("paths: every history of exit(status in {0,3,signal 9})/register(cb|wr|wn)/sigchld/cancel/initialize/uninitialize "
            "up to length %d, and without (un)initialize up to length %d, over 2 children (at most one spurious delivery); "
            "seeded TLC simulation walks over 3 children (depth 16); random recorded schedules over <= 8 children; "
            "distinct = distinct (config, event sequence); non-trivial = length >= 2 with a registration" % (la, lb))
    ctx._phase("selftest", t0)
    t0 = time.time()
    # 4. thorough: real children validate the status encoding and the reports
    if not ctx.quick:
        kinds = ("cb", "wr", "wn")
        items = [(st, kinds[st % 3], st % 2 == 0) for st in range(256)]
        items += [(1000 + s, k, late) for s in REAL_SIGNALS for k in kinds for late in (False, True)]
        items += [(3000 + s, k, s == 6) for s in (3, 6) for k in kinds]      # core dumps enabled (if the kernel dumps)
        real = [real_children_trace((i + 1, items[j:j + 40])) for i, j in enumerate(range(0, len(items), 40))]
        ctx.validate("proc", "Trace_SubprocessExit", "Trace_SubprocessExit.cfg", real, overrides={"MaxC": 1},
                     label="c2s-real", shards=1, sig_fn=_trace_sig)
        ctx.cov["real_children"] = len(items)
        ctx.cov["trusted_base"].append("real children: /bin/sh exit codes and self-sent signals, asyncio's SIGCHLD delivery (wall clock)")
        ctx._phase("real_children", t0)
        rule += "; %d real child processes (exit codes 0..255, signals %s)" % (len(items), REAL_SIGNALS)
    ctx.cov["rule"] = rule


def replay(ctx, rec):
    d = rec["detail"]
    if "path" in d:
        r = replayer(d["extra"], d["path"])
        print("replay:", "diverges " + framework.jdump(r) if r else "follows the specification")
        return 1 if r else 0
    if "trace" in d:
        t = d["trace"]
        real = any(e.get("a") == "real" for e in t["ev"])
        if "job" in t:          # re-record the same seeded schedule from the code under test
            t = random_subprocess_trace(tuple(t["job"]))
        v = ctx.validate("proc", "Trace_SubprocessExit", "Trace_SubprocessExit.cfg", [t],
                         overrides={"MaxC": 1 if real else 8}, shards=1)
        bad = v.get(t["id"])
        print("replay:", "recorded trace rejected at event %s" % bad["at"] if bad else "recorded trace accepted by the specification")
        return 1 if bad else 0
    return 2
