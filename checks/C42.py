"""C42 - Subprocess exit is reported once with the right status.
"""
from harness import framework
from harness.proc_driver import replay_subprocess, gen_paths_fast, random_subprocess_trace

MAXC_GEN = 2


def replayer(extra, path):
    return replay_subprocess(extra["cfg"], path, MAXC_GEN)


def run(ctx):
    ctx.mc("proc", "SubprocessExit", "MC_SubprocessExit.cfg",
           required_actions=["Exit", "Register", "Sigchld", "CancelWait", "Initialize", "Uninitialize"])
    L = ctx.pick(4, 5)
    paths = gen_paths_fast(ctx, "proc", "Gen_SubprocessExit", "Gen_SubprocessExit.cfg", overrides={"L": L})
    ctx.replay(paths, replayer, nontrivial=lambda e, p: len(p) >= 3)
    ctx.cov["exhaustive"] = True
    n = ctx.pick(200, 5000)
    maxc = 8
    jobs = [(i + 1, ctx.seed * 1000003 + i, maxc, ctx.pick(40, 60)) for i in range(n)]
    traces = framework.pool_map(random_subprocess_trace, jobs)
    ctx.validate("proc", "Trace_SubprocessExit", "Trace_SubprocessExit.cfg", traces, overrides={"MaxC": maxc})
    ctx.cov["rule"] = "every history up to length %d" % L


def replay(ctx, rec):
    d = rec["detail"]
    if "path" in d:
        r = replayer(d["extra"], d["path"])
        print("replay:", "diverges " + framework.jdump(r) if r else "follows the specification")
        return 1 if r else 0
    print("trace replays are validated with: ./check C42 (trace stored in the replay file)")
    return 0
