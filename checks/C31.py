"""C31 - Routing picks the first matching rule and reverse URLs route back.

MC : specs/webstatic/Routing.tla - explicit regular-expression semantics for the small pattern
     grammar (declarative Splits, operational greedy/leftmost Greedy), ordered rule lists with
     host rules and nested routers, text-level percent-decoding of captures, reverse with
     quote(safe="/"); invariants: FirstMatch (chosen rule accepts, no earlier rule does, default
     iff none), GreedyIsLexMax (engine captures = lexicographically longest split, decoded),
     RoundTripNoSlash.  The full RoundTrip statement is refuted by TLC at specification level
     (MC_Routing_RoundTrip.cfg): an argument containing "/" is kept by quote() and does not
     route back (known finding F31r, design-level).
S2C: every TLC-enumerated (rule list, host, path) and (rule, arguments) is run through a real
     web.Application built from the rule list: Application.find_handler on a constructed
     request (handler class, raw captured groups) and Application.reverse_url.
C2S: seeded random rule lists / hosts / paths served through the in-memory HTTP server (what the
     handler method received after decode_argument) and reverse_url calls, validated by TLC.

Binding demonstrations: notes/webstatic.md.
"""
import random
import time

from harness import framework
from harness import webstatic_driver as W


def observe(cfg, act, args):
    if act == "dispatch":
        return W.routing_dispatch(cfg["rules"], args[0], args[1], cfg.get("dh", "none"))
    return W.routing_reverse(cfg["rules"], args[0], args[1], args[2], cfg.get("dh", "none"))


def _shape(rules):
    return "+".join(e["k"] for e in rules)


def _shape_cfg(cfg):
    return _shape(cfg["rules"]) + ("/dh" if cfg.get("dh", "none") != "none" else "")


def _sig(cfg, s, obs):
    if s["act"] == "dispatch":
        return {"act": "dispatch", "shape": _shape_cfg(cfg), "exp_rule": s["exp"]["rule"], "obs_rule": obs["rule"],
                "args_differ": obs["args"] != s["exp"]["args"], "named": s["exp"]["named"]}
    return {"act": "reverse", "shape": _shape_cfg(cfg), "obs_exc": isinstance(obs["url"], str)}


def replayer(extra, path):
    cfg = extra["cfg"]
    for i, s in enumerate(path):
        obs = observe(cfg, s["act"], s["args"])
        if obs != s["exp"]:
            return {"step": i, "act": s["act"], "args": s["args"], "exp": s["exp"], "obs": obs, "sig": _sig(cfg, s, obs)}
    return None


MENU = [["s", "a"], ["s", "Gns"], ["s", "Gany"], ["s", "a", "s", "Gdig"], ["s", "Gns", "s", "Gns"], ["s", "Gany", "s", "Gdig"],
        ["s", "a", "dot", "Gns"], ["s", "Nns", "s", "Nany"], ["s", "Gdig", "Gany"], ["s", "a", "s"], ["s", "Gany", "s", "Gany"],
        ["s", "Gns", "dot", "Gns"], ["s", "1", "Gany", "a"], ["s", "Ndig", "s", "Nns", "s", "Nany"], ["s", "Gany", "a", "Gany"]]
PIECES = ["/", "a", "1", ".", "%41", "%2F", "%2f", "A", "12", "%4", "a.a", "%C3%A9"[:0] + "%7E", "+", "~"]
HOSTS = ["a.com", "a.com:8080", "A.COM", "xa.com", "b.com", "a.com.b.com", "a.com.evil.net"]
ARGS = ["a", "1", "a1", "A", "", "a/1", "%41", "a +", "?#", "..", "12", "x~y_z-", "a&b=c"]


def random_trace(a):
    tid, seed, length = a
    rng = random.Random(seed)
    rules = []
    for _ in range(rng.choice([1, 2, 2, 3, 3])):
        k = rng.choice(["path", "path", "path", "host", "nest", "addh"])
        if k == "path":
            rules.append({"k": "path", "h": "", "p": rng.choice(MENU), "sub": []})
        elif k in ("host", "addh"):
            rules.append({"k": k, "h": rng.choice(["h_a", "h_any"]), "p": [], "sub": [rng.choice(MENU) for _i in range(rng.choice([1, 2]))]})
        else:
            rules.append({"k": "nest", "h": "", "p": rng.choice([["s", "Gany"], ["s", "a", "Gany"], ["s", "Gns", "s", "Gany"]]),
                          "sub": [rng.choice(MENU) for _i in range(rng.choice([1, 2]))]})
    dh = rng.choice(["none", "none", "a.com", "b.com"]) if any(e["k"] == "addh" for e in rules) else "none"
    cfg = {"rules": rules, "dh": dh}
    ev = []
    named = [(i, j, p) for i, e in enumerate(rules, 1) for j, p in ([(0, e["p"])] if e["k"] == "path" else list(enumerate(e["sub"], 1)))]
    for _ in range(length):
        if rng.random() < 0.75:
            text = "/" + "".join(rng.choice(PIECES) for _i in range(rng.choice([0, 1, 2, 3, 4, 5, 6])))
            args = [rng.choice(HOSTS), W.chars(text)]
            ev.append({"a": "dispatch", "args": args, "obs": W.routing_dispatch_http(rules, args[0], args[1], dh)})
        else:
            i, j, p = rng.choice(named)
            ng = sum(1 for e in p if e[0] in "GN")
            args = [i, j, [W.chars(rng.choice(ARGS)) for _i in range(ng)]]
            ev.append({"a": "reverse", "args": args, "obs": W.routing_reverse(rules, i, j, args[2], dh)})
    return {"id": tid, "cfg": cfg, "ev": ev}


def _trace_sig(t, bad, l):
    if not bad:
        return {}
    return {"shape": _shape_cfg(t["cfg"]), "obs_rule": bad["obs"].get("rule"), "obs_exc": isinstance(bad["obs"].get("url"), str)}


def run(ctx):
    t0 = time.time()
    nt = lambda e, p: True
    base = {"Hosts": {"b.com"}, "HostPats": set()}
    # (A) first match among ordered path rules
    paths = W.mc_states(ctx, "webstatic", "Routing", "MC_Routing.cfg",
                        overrides=dict(base, Mode="flat", MaxRules=ctx.pick(2, 3), PathLen=3,
                                       Pats=set(ctx.pick(["p_a", "p_ns", "p_any", "p_adig", "p_anydig"],
                                                         ["p_a", "p_ns", "p_any", "p_adig", "p_anydig", "p_named"]))),
                        required_actions=["dispatch", "reverse"], timeout=ctx.pick(900, 1500))
    # (B) host rules and nested routers
    paths += W.mc_states(ctx, "webstatic", "Routing", "MC_Routing.cfg",
                         overrides={"Mode": "struct", "MaxRules": ctx.pick(1, 2), "Pats": {"p_a", "p_ns", "p_adig"}, "HostPats": {"h_a", "h_any"},
                                    "Hosts": {"a.com", "b.com", "xa.com", "a.com:8080", "A.COM", "a.com.evil.net"}, "PathLen": 2,
                                    "DefaultHosts": {"none", "a.com", "b.com"},
                                    "PathToks": {"s", "a", "1", "pS"}, "ArgNames": {"a", "1"}},
                         required_actions=["dispatch", "reverse"], timeout=ctx.pick(900, 1500))
    # (C) single rules from the pattern generator
    paths += W.mc_states(ctx, "webstatic", "Routing", "MC_Routing.cfg",
                         overrides=dict(base, Mode="gen", GenLen=ctx.pick(2, 3), PathLen=3,
                                        PathToks=set(ctx.pick(["s", "a", "1", "pA", "pS"], ["s", "a", "1", "dot", "pA", "pS"])),
                                        ArgNames={"a", "1", "slash", "pct", "empty", "sp", "12"},
                                        ElemToks={"s", "a", "dot", "Gns", "Gany", "Gdig", "Nns", "Nany"}),
                         required_actions=["dispatch", "reverse"], timeout=ctx.pick(900, 1500))
    # the full round-trip statement, expected to be refuted at specification level (finding F31r)
    W.mc_states(ctx, "webstatic", "Routing", "MC_Routing_RoundTrip.cfg", timeout=ctx.pick(900, 1500),
                violation_sig=lambda r, states: {"arg_has_slash": any(47 in a for a in (states[-1][1]["step"]["args"][2] if states else []))})
    ctx.replay(paths, replayer, nontrivial=nt)
    ctx.cov["exhaustive"] = True
    if not ctx.quick:      # -simulate enumerates every successor per step (~2.5 s per walk): thorough tier only
        sims = ctx.sim_paths("webstatic", "Gen_Routing", "Gen_Routing.cfg", num=400, depth=9, timeout=1500)
        ctx.replay(sims, replayer, label="s2c-sim")
    ctx._phase("mc+s2c", t0)
    t0 = time.time()
    n = ctx.pick(200, 5000)
    traces = framework.pool_map(random_trace, [(i + 1, ctx.seed * 1000003 + i, ctx.pick(20, 25)) for i in range(n)])
    ctx.validate("webstatic", "Trace_Routing", "Trace_Routing.cfg", traces, shards=ctx.pick(2, None), sig_fn=_trace_sig, timeout=ctx.pick(900, 1500))
    ctx._phase("c2s", t0)
    ctx.cov["rule"] = ("cases: (A) ordered lists of <= 2/3 path rules from a pattern menu x paths '/' + <= 3 tokens over {/, a, 1, ., %41, %2F}; "
                       "(B) lists with host rules (constructor and add_handlers, with and without default_host) and nested routers x 6 Host values; (C) every pattern '/' + <= 2/3 elements x paths; "
                       "reverse_url for every rule x argument tuples; simulation walks; random recorded applications through HTTP; "
                       "distinct = distinct (rule list, call)")
    ctx.cov["trusted_base"] += ["element -> regex text table and HostName table (harness/webstatic_driver.py, Routing.tla)"]


def replay(ctx, rec):
    d = rec["detail"]
    if "path" in d:
        r = replayer(d["extra"], d["path"])
        print("replay:", "diverges " + framework.jdump(r) if r else "follows the specification")
        return 1 if r else 0
    if "tlc_trace" in d:
        r = ctx.mc("webstatic", "Routing", "MC_Routing_RoundTrip.cfg")
        print("replay: TLC", "refutes RoundTrip: " + r.violation["name"] if not r.ok else "finds no violation")
        return 0 if r.ok else 1
    print("trace replays are validated with: ./check C31 (trace stored in the replay file)")
    return 0
