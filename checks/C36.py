"""C36 - Future combinators always settle and report the right outcome.

MC : specs/futures/Combinators.tla - gen.multi (list / dict), gen.WaitIterator (positional /
     keyword), gen.with_timeout (over a future and over a list) and concurrent.chain_future
     over up to 3-4 inputs with duplicates, already-done inputs, all completion orders and
     outcomes (result / exception / cancellation), all deadline placements, cancellation of the
     output.  Invariants = the clauses of the property (NoPendingForever, MultiOutcome,
     TimeoutOutcome, ChainOutcome, WaitOnce, WaitCompletionOrder, NoRaise, Sticky).
S2C: every complete behaviour TLC enumerates is replayed on the real combinators on the
     virtual loop (asyncio futures; chain_future also with concurrent.futures sources / targets;
     with_timeout with relative and absolute deadlines); the projection (output future outcome,
     each next() future's outcome, the input at current_index, done(), exception class of the
     call) is compared after every step.
C2S: seeded random runs with up to 8 inputs recorded from the real objects are validated by
     TLC against Trace_Combinators (all invariants evaluated at every step).

Binding demonstrated during development (scratch worktree, details in notes/futures.md), each
reported by the S2C replay: `if not unfinished_children` -> `len(..) <= 1` in multi_future (output
settles early with InvalidStateError); reversed scan for the failing child in multi_future (E2
reported instead of E1); dropped `not self._running_future.done()` in WaitIterator._done_callback
(an input completing after the application cancelled next() is lost: cur / done() differ);
`if b.done()` -> `if b.cancelled()` in chain_future (the call raises InvalidStateError on a
completed target).  The trace validation is exercised on every run by futures_gen.binding_demo
(a corrupted observation and a dropped `create` event must be rejected).  On the pinned commit the
check re-found F01 (cancelled inputs) and found F22 (WaitIterator duplicates); both are fixed in
/repo now, so any recurrence is a VIOLATION.
"""
import random
import time

from harness import framework, futures_gen
from harness.framework import canon
from harness.futures_driver import CombReal

NF_GEN = 4
VARIANTS = {"timeout": (0, 1), "tmulti": (0, 1), "chain": (0, 2, 4, 6)}


def _sig(cfg, s, obs, variant, real):
    exp = s["exp"]
    dup = len(set(cfg["slots"])) != len(cfg["slots"])
    field = [k for k in ("out", "nexts", "cur", "wdone", "err") if obs.get(k) != exp.get(k)]
    cancelled_input = any(x["act"] == "resolve" and x["args"][1] == "cancel" for x in real._done_steps)
    return {"comb": cfg["comb"], "act": s["act"], "dup": dup, "cancelled_input": cancelled_input,
            "fields": field, "exp_err": exp["err"], "obs_err": obs["err"],
            "exp_out": exp["out"]["s"], "obs_out": obs["out"]["s"]}


def _replay_one(extra, path, variant=0):
    cfg = extra["cfg"]
    real = CombReal(cfg, NF_GEN if max(cfg["slots"] or [1]) <= NF_GEN else max(cfg["slots"]), variant)
    real._done_steps = []
    try:
        for i, s in enumerate(path):
            real._done_steps.append(s)
            obs = canon(real.step(s["act"], s["args"]))
            if obs != s["exp"]:
                return {"step": i, "act": s["act"], "args": s["args"], "exp": s["exp"], "obs": obs,
                        "variant": variant, "uncaught": real.uncaught(),
                        "sig": _sig(cfg, s, obs, variant, real)}
        return None
    finally:
        real.close()


def replayer(extra, path):
    for v in VARIANTS.get(extra["cfg"]["comb"], (0,)):
        r = _replay_one(extra, path, v)
        if r is not None:
            return r
    return None


# ---------------------------------------------------------------------- code -> spec
def random_trace(job):
    tid, seed = job
    rng = random.Random(seed)
    comb = rng.choice(["multi", "multid", "wait", "waitkw", "wait", "timeout", "tmulti", "chain"])
    nf = 8
    if comb in ("timeout", "chain"):
        slots = [1]
    else:
        n = rng.choice([0, 1, 2, 3, 4, 5, 6, 8]) if comb != "tmulti" else rng.choice([1, 2, 3, 5])
        k = max(1, rng.randint(1, n)) if n else 0
        slots = []
        for _ in range(n):
            # canonical numbering: a new future gets the next free id
            used = max(slots or [0])
            slots.append(rng.randint(1, min(k, used + 1)))
    cfg = {"comb": comb, "slots": slots, "dl": rng.choice([0, 1, 2, 3, 5]) if comb in ("timeout", "tmulti") else NODL_,
           "bpre": rng.choice(["none", "none", "ok", "cancel"]) if comb == "chain" else "none"}
    variant = rng.choice(VARIANTS.get(comb, (0,)))
    real = CombReal(cfg, nf, variant)
    ev = []
    pending = sorted(set(slots))
    created = False
    cancelled_out = False
    outcomes = rng.choice([["ok"], ["ok", "exc"], ["ok", "exc", "cancel"], ["ok", "ok", "ok", "exc", "cancel"]])
    p_create = rng.choice([0.1, 0.5, 1.0])
    try:
        for _ in range(60):
            choices = []
            if pending:
                choices += ["resolve"] * 3
            if not created:
                if rng.random() < p_create or not pending:
                    choices += ["create"] * 3
            else:
                p = real.proj()
                if real.wi is not None:
                    running = bool(real.nexts) and not real.nexts[-1].done()
                    if not running and not p["wdone"]:
                        choices += ["next"] * 3
                    if running and not cancelled_out:
                        choices += ["cancelout"] if rng.random() < 0.2 else []
                elif real.out is None:
                    break          # the constructor raised: nothing more to drive
                else:
                    if comb in ("timeout", "tmulti") and not real.out.done() and not cancelled_out:
                        choices += ["advance"]
                    if not real.out.done() and not cancelled_out and rng.random() < 0.1:
                        choices += ["cancelout"]
            if not choices:
                break
            a = rng.choice(choices)
            if a == "resolve":
                f = rng.choice(pending)
                pending.remove(f)
                args = [f, rng.choice(outcomes)]
            elif a == "advance":
                args = [rng.choice([1, 1, 2, 3])]
            else:
                args = []
                if a == "create":
                    created = True
                if a == "cancelout":
                    cancelled_out = True
            obs = real.step(a, args)
            ev.append({"a": a, "args": args, "obs": obs})
        return {"id": tid, "cfg": cfg, "ev": ev, "variant": variant}
    finally:
        real.close()


NODL_ = 999


def _trace_sig(t, bad, l):
    cfg = t["cfg"]
    return {"comb": cfg["comb"], "dup": len(set(cfg["slots"])) != len(cfg["slots"]),
            "cancelled_input": any(e["a"] == "resolve" and e["args"][1] == "cancel" for e in t["ev"][:l]),
            "obs_err": (bad or {}).get("obs", {}).get("err")}


def run(ctx):
    # 1. model checking of the specification
    ctx.mc("futures", "Combinators", "MC_Combinators.cfg",
           overrides=ctx.pick({}, {"NF": 4, "MaxSlots": 4, "Deadlines": "{0, 1, 2, 3}", "MaxAdvance": 3}),
           required_actions=["Resolve", "Create", "NextCall", "Advance", "CancelOut"],
           timeout=ctx.pick(600, 1800))
    # 2. spec -> code: every complete behaviour
    LISTS = '{"multi", "multid", "wait", "waitkw"}'
    TIMED = '{"timeout", "tmulti", "chain"}'
    if ctx.quick:
        runs = [{"Combs": '{"multi", "multid", "wait"}', "NF": 3, "MaxSlots": 3, "BPre": '{"none"}'},
                {"Combs": '{"waitkw", "timeout", "tmulti", "chain"}', "NF": 2, "MaxSlots": 2}]
    else:
        runs = [{"Combs": LISTS, "NF": 3, "MaxSlots": 3, "BPre": '{"none"}'},
                {"Combs": TIMED, "NF": 3, "MaxSlots": 3, "Deadlines": "{0, 1, 2, 3}", "MaxAdvance": 3},
                # four distinct inputs (no duplicates) for the list-shaped combinators
                {"Combs": '{"multi", "wait"}', "NF": 4, "MaxSlots": 4, "Dups": "FALSE", "Outcomes": '{"ok", "exc"}',
                 "BPre": '{"none"}', "_only4": True},
                {"Combs": '{"multi", "tmulti"}', "NF": 4, "MaxSlots": 4, "Dups": "FALSE", "Outcomes": '{"ok", "cancel"}',
                 "Deadlines": "{1}", "MaxAdvance": 1, "BPre": '{"none"}', "_only4": True}]
    for ov in runs:
        ov = dict(ov)
        only4 = ov.pop("_only4", False)
        paths = futures_gen.gen_paths(ctx, "futures", "Gen_Combinators", "Gen_Combinators.cfg", overrides=ov,
                                      timeout=ctx.pick(600, 1800))
        if only4:
            paths = [ep for ep in paths if len(ep[0]["cfg"]["slots"]) == 4]
        ctx.replay(paths, replayer, nontrivial=lambda e, p: len(p) >= 2)
    ctx.cov["exhaustive"] = True
    # 3. code -> spec
    n = ctx.pick(400, 10000)
    jobs = [(i + 1, ctx.seed * 1000003 + i) for i in range(n)]
    traces = framework.pool_map(random_trace, jobs)
    ctx.validate("futures", "Trace_Combinators", "Trace_Combinators.cfg", traces, sig_fn=_trace_sig)

    def corrupt(ev):
        o = ev["obs"]["out"]
        ev["obs"]["out"] = {"s": "ok", "v": [4242], "e": ""} if o["s"] != "ok" else {"s": "pending", "v": [], "e": ""}
    futures_gen.binding_demo(ctx, "futures", "Trace_Combinators", "Trace_Combinators.cfg",
                             [t for t in traces if t["cfg"]["comb"] in ("multi", "multid", "timeout")
                              and t["ev"] and t["ev"][-1]["obs"]["out"]["s"] != "pending"], corrupt, "create")
    ctx.cov["rule"] = ("paths: every complete behaviour (resolve/fail/cancel each input in every order, create at every "
                       "point, next() calls, clock advances, cancel of the output) of every combinator over every "
                       "canonical assignment of <= 3 futures to <= 3 positions incl. duplicates (thorough: also 4 distinct "
                       "inputs), each replayed per API variant; traces: seeded random runs with up to 8 inputs; "
                       "distinct = distinct (configuration, operation sequence); non-trivial = length >= 2")


def replay(ctx, rec):
    d = rec["detail"]
    if "path" in d:
        r = replayer(d["extra"], d["path"])
        print("replay:", "diverges " + framework.jdump(r) if r else "follows the specification")
        return 1 if r else 0
    if "trace" in d:
        v = ctx.validate("futures", "Trace_Combinators", "Trace_Combinators.cfg", [d["trace"]], sig_fn=_trace_sig)
        bad = [k for k, x in v.items() if x]
        print("replay:", "trace rejected at event %s" % v[bad[0]]["at"] if bad else "trace accepted by the specification")
        return 1 if bad else 0
    return 2
