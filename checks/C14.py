"""C14 - WebSocket messages arrive intact and in order under every configuration.

MC : WsChannel.tla (a connection is two FIFO message channels: InOrderPrefix, NothingInvented,
     DeliveredGrowsOnly), WsReceiver.tla restricted to permitted frames over the boundary-length
     catalogue (DeliveredAreCompleted, OnlyViolationAborts), WsFrameCodec round trip / minimal
     length rule on the header table.
S2C: (codec) the TLC-enumerated header table against Tornado's frame writer (_write_frame) and
     against the harness' own header plumbing;
     (a) every Send/Transfer sequence of WsChannel up to length L on a real websocket_connect
     client <-> real WebSocketHandler server pair: the harness is a frame-level middlebox that
     re-fragments each message into k pieces with a ping/pong in every gap, re-masks and
     re-segments; deflate parameters (takeover, window bits 9-15, levels, mem levels) from a grid,
     the harness rewriting the extension offer where Tornado's client would never make it;
     (b) every permitted frame sequence of WsReceiver up to length L (boundary lengths 0, 1, 125,
     126, 65535, 65536, text/binary, plain/compressed, cut in pieces, pings/pongs/close in the
     gaps) fed as bytes into the real receiver in both roles.
     In the pair set-up the harness is also a conformant permessage-deflate peer: with zlib (opaque
     codec) it checks that every frame a real sender wrote inflates, under the parameters
     negotiated for that side (window bits; fresh context per message under no_context_takeover),
     to the message the application wrote, and in the `recompress` variant forwards messages
     re-deflated by its own context-keeping compressor.
C2S: seeded random sessions on the real pair (more messages, random content, compressible and
     not): the frames the real writers put on the wire and the deliveries are validated by TLC
     against Trace_WsChannel (header bytes decoded by the TLA+ codec).

Binding demonstrated in a scratch worktree (notes/ws.md): a 126-byte payload written with the
7-bit length form, 65535 written with the 64-bit form, and an inverted no_context_takeover
flag were tried; the last one was first missed (both real endpoints mutated consistently) and
led to the conformant-peer strengthening above, which also exposed F55ws on the unchanged tree.
"""
import hashlib
import os
import random
import time

from harness import framework
from harness.framework import canon, jdump
from harness import ws_driver as W

_CATS = {}


def cat(name):
    if name not in _CATS:
        if name == "recv_quick":
            _CATS[name] = W.catalog_boundaries(lens=(0, 126, 65536), slim=True)
        elif name == "recv_full":
            _CATS[name] = W.catalog_boundaries()
        elif name == "chan":
            _CATS[name] = W.catalog_boundaries(comp=False)
        elif name == "chan_quick":
            _CATS[name] = W.catalog_boundaries(lens=(0, 126, 65536), comp=False, slim=True)
    return _CATS[name]


def _h(*a):
    return int(hashlib.sha1(jdump(a).encode()).hexdigest()[:8], 16)


# ----------------------------------------------------------------------------- codec table
def codec_replayer(extra, path):
    from tornado import websocket
    from harness.vloop import Env
    from harness.memstream import MemStream
    s = path[0]
    h = s["args"][0]
    exp = bytes(s["exp"])
    # harness plumbing must agree with the TLA+ codec
    mine = W.encode_header(h["fin"], h["rsv"], h["op"], h["masked"], h["len"], key=bytes(h["key"]) if h["masked"] else b"")
    if mine != exp:
        return {"step": 0, "act": "encode", "args": [h], "exp": list(exp), "obs": list(mine),
                "sig": {"what": "harness.encode_header", "len": h["len"], "masked": h["masked"]}}
    if h["op"] >= 8 and (h["fin"] == 0 or h["len"] > 125):
        return None          # frames Tornado's writer refuses to produce
    if h["len"] > 1000000:
        return None
    env = Env()
    try:
        p = websocket.WebSocketProtocol13(None, mask_outgoing=bool(h["masked"]), params=websocket._WebSocketParams())
        p.stream = MemStream(env)
        data = W.filler(h["len"], 3)
        try:
            p._write_frame(bool(h["fin"]), h["op"], data, flags=h["rsv"] << 4)
            env.settle()
            out = bytes(p.stream.out)
            frames, rest = W.split_frames(out)
            if len(frames) != 1 or rest:
                obs = {"frames": len(frames), "rest": len(rest)}
            else:
                hdr, key, pl = frames[0]
                obs = list(hdr + (bytes(h["key"]) if key else b"")) if pl == data else {"payload": "differs"}
        except Exception as e:
            obs = {"err": type(e).__name__}
        if obs != list(exp):
            return {"step": 0, "act": "write_frame", "args": [h], "exp": list(exp), "obs": obs,
                    "sig": {"what": "_write_frame", "len_class": "7bit" if h["len"] < 126 else ("16bit" if h["len"] <= 65535 else "64bit"),
                            "masked": h["masked"], "op": h["op"], "fin": h["fin"], "rsv": h["rsv"]}}
        return None
    finally:
        env.close()


# ----------------------------------------------------------------------------- (b) receiver
_RECV_CAT = "recv_quick"


def expand_recv(paths, seed, nvar):
    out = []
    for extra, path in paths:
        h = _h(extra, [s["args"] for s in path], seed)
        for k in range(nvar):
            e = dict(extra)
            e["variant"] = {"role": ("server", "client")[(h + k) % 2], "mode": ("cb", "read")[(h >> 3) & 1],
                            "grid": (h >> 4) % 7 + k, "chunk": (h >> 8) % 4, "seed": h % 100000 + k}
            out.append((e, path))
    return out


def recv_replayer(extra, path):
    from harness.httpsim import LogCapture
    from checks.C15 import make_sig
    cfg, v = extra["cfg"], extra["variant"]
    c = cat(_RECV_CAT)
    with LogCapture():
        try:
            real = W.ReceiverReal(cfg, c, role=v["role"], mode=v["mode"], grid=v["grid"], chunk_mode=v["chunk"], seed=v["seed"])
        except W.HandshakeFailed as e:     # an observation about the code under test, not a harness failure
            return {"step": 0, "act": "handshake", "args": [], "exp": "opening handshake completes", "obs": str(e)[:400],
                    "sig": {"setup": "receiver", "act": "handshake", "where": e.where, "deflate": cfg.get("deflate"), "variant_grid": v.get("grid")}}
        try:
            for i, s in enumerate(path):
                obs = canon(real.step(s["act"], s["args"]))
                exp = dict(s["exp"])
                exp["delivered"] = c.canon_delivered(exp["delivered"])
                if not exp["sent1009"] and exp["closed"] and obs["closed"]:
                    obs["sent1009"] = False     # 1009 is demanded for size violations only; other aborts may carry any close frame
                if obs != exp:
                    sig = make_sig(cfg, v, path, i, exp, obs)
                    sig["setup"] = "receiver"
                    return {"step": i, "act": s["act"], "args": s["args"], "exp": exp, "obs": obs, "sig": sig}
            return None
        finally:
            real.close()


# ----------------------------------------------------------------------------- (a) channel
_CHAN_CAT = "chan_quick"


def expand_chan(paths, seed, nvar):
    out = []
    for extra, path in paths:
        h = _h(extra, [[s["act"], s["args"]] for s in path], seed)
        for k in range(nvar):
            e = dict(extra)
            e["variant"] = {"grid": (h % len(W.PAIR_GRID) + k) % len(W.PAIR_GRID), "mode": ("cb", "read")[(h >> 3) & 1], "seg": (h >> 5) % 4,
                            "recompress": bool((h >> 7) & 1), "seed": h % 100000 + k}
            out.append((e, path))
    return out


def chan_replayer(extra, path):
    from harness.httpsim import LogCapture
    cfg, v = extra["cfg"], extra["variant"]
    c = cat(_CHAN_CAT)
    with LogCapture():
        try:
            real = W.PairReal(cfg, c, grid=v["grid"], mode=v["mode"], seed=v["seed"], recompress=v.get("recompress", False))
        except W.HandshakeFailed as e:     # an observation about the code under test, not a harness failure
            return {"step": 0, "act": "handshake", "args": [], "exp": "opening handshake completes", "obs": str(e)[:400],
                    "sig": {"setup": "pair", "act": "handshake", "where": e.where, "deflate": cfg.get("deflate"), "variant_grid": v.get("grid")}}
        try:
            pinged = {"c2s": False, "s2c": False}
            for i, s in enumerate(path):
                err = "none"
                args = list(s["args"])
                if s["act"] == "transfer":
                    args[3] = v["seg"]          # TCP segmentation is the variant's, not the path's
                try:
                    obs = canon(real.step(s["act"], args))
                except Exception as e:          # exceptions of the code under test are observations
                    err = type(e).__name__
                    obs = canon(real.proj())
                exp = {"c2s": [c.canon_id(x) for x in s["exp"]["c2s"]], "s2c": [c.canon_id(x) for x in s["exp"]["s2c"]]}
                if obs != exp or err != "none" or real.wire_errors:
                    a = s["args"]
                    sig = {"setup": "pair", "act": s["act"], "deflate": cfg["deflate"], "err": err,
                           "wire": sorted(set(w.split(":")[0].split("(")[0].strip() for w in real.wire_errors)),
                           "recompress": v.get("recompress", False),
                           "pieces": a[1] if s["act"] == "transfer" else None,
                           "ctl": a[2] if s["act"] == "transfer" else None,
                           "dir": a[0], "delivered_differs": obs != exp}
                    return {"step": i, "act": s["act"], "args": s["args"], "exp": exp, "obs": obs, "variant": v,
                            "wire_errors": real.wire_errors[:5], "sig": sig}
            return None
        finally:
            real.close()


# ----------------------------------------------------------------------------- C2S sessions
class _SessionCatalog:
    """Per-session message table: ids are assigned by content."""

    def __init__(self):
        self.by_id = {}
        self.by_content = {}

    def add(self, kind, data):
        k = (kind, data)
        if k not in self.by_content:
            i = len(self.by_id) + 1
            self.by_content[k] = i
            self.by_id[i] = {"id": i, "kind": kind, "data": data, "wire": data, "comp": False, "utf8ok": True}
        return self.by_content[k]

    def ident(self, message):
        if isinstance(message, str):
            kind, data = "text", message.encode("utf-8")
        else:
            kind, data = "binary", bytes(message)
        return {"kind": kind, "id": self.by_content.get((kind, data), 0)}


def random_session(job):
    from harness.httpsim import LogCapture
    tid, seed, nmsg = job
    rng = random.Random(seed)
    cfg = {"deflate": rng.random() < 0.7}
    sc = _SessionCatalog()
    rec = []
    ev = []
    words = ["alpha", "béta", "gamma ", "δelta", "\u4e2d\u6587", " ", "0123456789", "\n"]
    with LogCapture():
        try:
            pair = W.PairReal(cfg, sc, grid=rng.randrange(len(W.PAIR_GRID)), mode=rng.choice(["cb", "read"]), seed=seed, record=rec,
                              recompress=rng.random() < 0.5)
        except W.HandshakeFailed as e:      # no specification action is called "error:...": TLC rejects the trace
            return {"id": tid, "cfg": cfg, "ev": [{"a": "error:handshake", "args": [e.where, e.detail], "obs": {"c2s": [], "s2c": []}}]}
        try:
            last = {"c2s": [], "s2c": []}
            pending = {"c2s": 0, "s2c": 0}
            for _ in range(nmsg):
                if rng.random() < 0.6 or not any(pending.values()):
                    d = rng.choice(["c2s", "s2c"])
                    n = rng.choice([0, 1, 2, 5, 17, 125, 126, 127, 300, 1000, 4096, 65535, 65536, 70000]) if rng.random() < 0.5 else rng.randint(0, 600)
                    if rng.random() < 0.5:
                        t = ""
                        while len(t.encode("utf-8")) < n:
                            t += rng.choice(words)
                        data = W._utf8_trim(t.encode("utf-8"), n)
                        kind = "text"
                    else:
                        kind = "binary"
                        data = rng.randbytes(n) if rng.random() < 0.5 else (rng.randbytes(max(1, n // 50)) * 60)[:n]
                    mid = sc.add(kind, data)
                    try:
                        obs = pair.step("send", [d, mid])
                    except Exception as e:      # an exception of the code under test is an observation:
                        # no specification action is called "error:...", so TLC rejects the trace here
                        ev.append({"a": "error:" + type(e).__name__, "args": [d], "obs": pair.proj()})
                        break
                    ev.append({"a": "send", "args": [d, {"id": mid, "kind": kind, "dlen": len(data)}], "obs": obs})
                    pending[d] += 1
                else:
                    d = rng.choice([x for x in pending if pending[x]])
                    k = rng.choice([1, 1, 2, 3, 5])
                    ctl = rng.choice(["none", "ping", "pong"])
                    del rec[:]
                    try:
                        obs = pair.step("transfer", [d, k, ctl, rng.randrange(4)])
                    except Exception as e:
                        ev.append({"a": "error:" + type(e).__name__, "args": [d], "obs": pair.proj()})
                        break
                    for w in rec:
                        ev.append({"a": "wire", "args": w["args"], "obs": dict(last)})
                    new = obs[d][len(last[d]):]
                    cur = {"c2s": list(last["c2s"]), "s2c": list(last["s2c"])}
                    for x in new:
                        cur[d] = cur[d] + [x]
                        ev.append({"a": "deliver", "args": [d], "obs": {"c2s": list(cur["c2s"]), "s2c": list(cur["s2c"])}})
                    if obs != cur:      # something other than appended deliveries changed: log it as it is
                        ev.append({"a": "deliver", "args": [d], "obs": obs})
                    pending[d] = 0
                last = {"c2s": list(obs["c2s"]), "s2c": list(obs["s2c"])}
            if pair.wire_errors:       # zlib-level conformance of the real sender: not a spec action, TLC rejects
                ev.append({"a": "error:wire", "args": [pair.wire_errors[0][:200]], "obs": pair.proj()})
            # the specification's `deflate` is what was actually negotiated (the grid contains offers
            # the server has to decline)
            return {"id": tid, "cfg": {"deflate": pair.params is not None}, "enabled": cfg["deflate"],
                    "negotiated": pair.negotiated, "ev": ev}
        finally:
            pair.close()


def session_sig(t, bad, l):
    if not bad:
        return {}
    sig = {"setup": "session", "deflate": t["cfg"]["deflate"], "dir": bad["args"][0] if bad.get("args") else None}
    if bad.get("a") == "error:handshake":
        sig["dir"] = None
        sig["where"] = bad["args"][0]
    if bad.get("a") == "error:wire":
        sig["dir"] = None
        sig["wire"] = [bad["args"][0].split(":")[0].split("(")[0].strip()]
    return sig


def _mc(ctx, *a, **kw):
    """ctx.mc, skippable with WS_DEV_SKIP_MC=1 (development only: seeded-edit runs, where the
    specification-level model checking is unaffected by the edit)."""
    if os.environ.get("WS_DEV_SKIP_MC") == "1":
        return None
    return ctx.mc(*a, **kw)


def run(ctx):
    global _RECV_CAT, _CHAN_CAT
    _RECV_CAT = ctx.pick("recv_quick", "recv_full")
    _CHAN_CAT = ctx.pick("chan_quick", "chan")
    # 1. model checking
    t0 = time.time()
    _mc(ctx, "ws", "MC_WsChannel", "MC_WsChannel.cfg", overrides=ctx.pick({"MaxSend": 2}, {}),
           required_actions=["Send", "Transfer", "Deliver", "WireCanon"])
    rc = cat(_RECV_CAT)
    os.environ["WS_CATALOG"] = rc.write(os.path.join(ctx.scratch, "catalog_recv.ndjson"))
    if not ctx.quick:      # quick: WsReceiver is model-checked by C15 (with violations); the permitted-frames run is thorough-only
        _mc(ctx, "ws", "MC_WsReceiver", "MC_WsReceiverValid.cfg", env={"WS_CATALOG": os.environ["WS_CATALOG"]},
            required_actions=["SendData", "SendPing", "SendPong", "SendClose"])
    ctx._phase("mc", t0)
    # 2. codec table: TLC invariants on every row + Tornado's writer + harness plumbing
    t0 = time.time()
    rows = ctx.gen_states("ws", "Gen_WsFrameCodec", "Gen_WsFrameCodec.cfg")
    items = [({}, [{"act": "encode", "args": [s["h"]], "exp": s["bytes"]}]) for s in rows]
    ctx.replay(items, codec_replayer, label="s2c-codec", nontrivial=lambda e, p: True)
    ctx._phase("codec", t0)
    # 3. (b) permitted frame sequences into the real receiver
    t0 = time.time()
    paths = ctx.gen_paths("ws", "Gen_WsReceiver", "Gen_WsReceiverValid.cfg", overrides={"L": 3})
    ctx.replay(expand_recv(paths, ctx.seed, ctx.pick(1, 2)), recv_replayer, label="s2c")
    sims = ctx.sim_paths("ws", "Gen_WsReceiver", "Gen_WsReceiverValid.cfg", num=ctx.pick(60, 1000), depth=12,
                         overrides={"L": 12, "PieceKinds": '{"zero", "one", "half", "rest1"}', "CtlLens": "{0, 5, 125}"})
    ctx.replay(expand_recv(sims, ctx.seed, 2), recv_replayer, label="s2c")
    ctx._phase("s2c-recv", t0)
    # 4. (a) real client <-> real server through the re-fragmenting middlebox
    t0 = time.time()
    cc = cat(_CHAN_CAT)
    os.environ["WS_CATALOG"] = cc.write(os.path.join(ctx.scratch, "catalog_chan.ndjson"))
    # quick: 3 message classes, L = 3; thorough: all 12 classes at L = 3 and the 3 classes at L = 4
    paths = ctx.gen_paths("ws", "Gen_WsChannel", "Gen_WsChannel.cfg", overrides={"L": 3, "MaxSend": 2})
    ctx.replay(expand_chan(paths, ctx.seed, 1), chan_replayer, label="s2c")
    if not ctx.quick:
        _CHAN_CAT = "chan_quick"
        os.environ["WS_CATALOG"] = cat(_CHAN_CAT).write(os.path.join(ctx.scratch, "catalog_chan4.ndjson"))
        paths = ctx.gen_paths("ws", "Gen_WsChannel", "Gen_WsChannel.cfg", overrides={"L": 4, "MaxSend": 2})
        ctx.replay(expand_chan(paths, ctx.seed, 2), chan_replayer, label="s2c")
        _CHAN_CAT = "chan"
    ctx._phase("s2c-chan", t0)
    ctx.cov["exhaustive"] = True
    # 5. code -> spec: random sessions on the real pair, wire frames and deliveries judged by TLC
    t0 = time.time()
    n = ctx.pick(100, 2000)
    traces = framework.pool_map(random_session, [(i + 1, ctx.seed * 1000003 + i, ctx.pick(14, 30)) for i in range(n)])
    ctx.validate("ws", "Trace_WsChannel", "Trace_WsChannel.cfg", traces, sig_fn=session_sig)
    ctx._phase("c2s", t0)
    ctx.cov["trusted_base"] += ["harness/ws_driver.py frame plumbing (cross-checked against the TLA+ codec table)",
                                "zlib as the opaque permessage-deflate codec", "sha1-free content identity: messages compared by bytes"]
    ctx.cov["rule"] = ("codec: header table (fin x rsv x opcode x mask x 12 boundary lengths); receiver: every permitted frame "
                       "sequence of length <= 3 over the boundary catalogue (%s) in hashed role/deflate/segmentation variants; "
                       "pair: every Send/Transfer sequence of length <= %d over %d message classes x pieces {1,3} x gap control "
                       "{none, ping} x segmentation, deflate grid of 7 parameter sets + 3 offers the server must decline" % (_RECV_CAT, 3, len(cc.by_id)))


def replay(ctx, rec):
    global _RECV_CAT, _CHAN_CAT
    _RECV_CAT = "recv_quick" if rec.get("tier") == "quick" else "recv_full"
    _CHAN_CAT = "chan_quick" if rec.get("tier") == "quick" else "chan"
    d = rec["detail"]
    if "path" in d:
        setup = rec["sig"].get("setup")
        fn = chan_replayer if setup == "pair" else (recv_replayer if setup == "receiver" else codec_replayer)
        r = fn(d["extra"], d["path"])
        print("replay:", "diverges " + framework.jdump(r) if r else "follows the specification")
        return 1 if r else 0
    t = d["trace"]
    v = ctx.validate("ws", "Trace_WsChannel", "Trace_WsChannel.cfg", [t], sig_fn=session_sig)
    bad = v[t["id"]]
    print("replay:", "trace rejected at event %s" % bad["at"] if bad else "trace accepted by the specification")
    return 1 if bad else 0
