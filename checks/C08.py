"""C08 - The HTTP client decodes any response stream exactly as a strict parser does.

MC : HttpReader.tla in client mode (status line grammar, 1xx interim responses, 204/304/HEAD without
     body, Content-Length / chunked / close-delimited bodies, opaque gzip codec, body limit) over the
     response wires of the token grammar under all arrival schedules and peer close at every point:
     Confluent (segmentation independence), BodyBounded, FinishedComplete, RefusalCloses, Final.
S2C: TLC enumerates response wires x {GET, HEAD} x decompress on/off x body limits at body size -1/0/+1,
     plus complete and truncated gzip members framed by Content-Length, chunks and connection close, and
     computes the byte-by-byte trail; a real SimpleAsyncHTTPClient.fetch runs over a fake TCPClient that
     hands out a MemStream, fed under every single cut, the all-1-byte schedule and random segmentations,
     then EOF, with and without streaming_callback.  After every piece the fetch must be pending /
     done with exactly (code, header fields, body) / failed as the specification says.
C2S: random responses (interim 1xx, duplicate headers, gzip, mutations at framing-relevant positions)
     x random segmentation, recorded from real fetches and validated by TLC (Trace_HttpReader).

Binding demonstrated during development: the unchanged tree yields F18 / F37 / F38 / F39; with the four patches the check is
silent; the seeded edit M4 (204 body check dropped) is reported by the S2C replay (`rej: 204body`) (notes/httpr.md).
"""
import random

from harness import framework
from harness import httpr_check as H
from harness import httpr_driver as D
from harness import httpr_gen as G
from harness import httpr_tokens as T

MC_Q = {"Modes": '{"client"}', "Responds": '{"sync"}', "Timeouts": "{FALSE}", "Shuts": "{FALSE}", "Heads": "{FALSE, TRUE}",
        "SLs": "{1, 2, 6, 7, 9}", "RHs": "{1, 2, 3, 8}", "RH2s": "{1}", "RBs": "{1, 2, 3, 4, 7}", "Dev": 0, "Sizes": "{1, 2, 5}",
        "MaxBodies": "{2, 1000000}"}
GEN_Q = {"SLs": "{1, 2, 3, 6, 9}", "RHs": "{1, 2, 3, 14}", "RBs": "{1, 2, 3, 7}", "RH2s": "{1}", "BLANKs": "{1}", "GzIdx": "{3}"}
GEN_T = {"SLs": "{1, 2, 3, 4, 5, 6, 7, 8, 9, 10, 13, 16}", "RHs": "{1, 2, 3, 4, 5, 6, 7, 8, 11, 12, 14, 18}", "RBs": "{1, 2, 3, 4, 5, 6, 7, 9, 12, 13}", "RH2s": "{1, 2, 3, 4, 5, 6, 7, 8, 9}", "BLANKs": "{1, 2}",
         "GzIdx": "{1, 2, 3, 4}", "GzDrops": "{0, 1, 5, 9}", "GzKeeps": "{1, 5, 10, 11, 12, 15, 20}"}


def record_random(args):
    tid, seed = args
    rng = random.Random(seed)
    table = T.gz_table()[:3]
    wire, info = G.gen_response_stream(rng, gz_table=table)
    cfg = dict(H.BASE_CFG, mode="client", head=rng.random() < 0.15, decompress=rng.random() < 0.6,
               maxBody=rng.choice([1000000, 1000000, 1000000, 3, 17, 40, 64]))
    cfg["gz"] = [{"enc": list(e), "dec": list(d)} for e, d in table] if cfg["decompress"] else []
    pcs = G.segmentation(rng, len(wire))
    streaming = rng.random() < 0.5
    t = D.record_client_trace(tid, cfg, wire, pcs, eof=True, streaming=streaming)
    t["streaming"] = streaming
    return t


def run(ctx):
    H.vacuity(ctx, dict(MC_Q, SLs="{1}", RHs="{3}", RBs="{3}", Sizes="{30}", MaxBodies="{1000000}", Heads="{FALSE}"), ["arrive", "eof"])
    mcq = dict(MC_Q)
    if not ctx.quick:
        mcq.update(SLs="{1, 2, 3, 4, 5, 6, 7, 8, 9, 10, 13}", RHs="{1, 2, 3, 4, 6, 7, 8, 12, 14, 15}", RBs="{1, 2, 3, 4, 5, 6, 7, 8, 9, 10, 13}",
                   Sizes="{1, 2, 3, 4, 8}", MaxBodies="{0, 2, 3, 1000000}")
    H.mc(ctx, "MC_HttpReader", "MC_HttpReader.cfg", overrides=mcq)
    cases = H.gen_cases(ctx, GEN_Q if ctx.quick else GEN_T, cfg="GenC_HttpReader.cfg")
    H.replay_client(ctx, cases)
    ctx.cov["exhaustive"] = True
    n = ctx.pick(200, 5000)
    traces = framework.pool_map(record_random, [(i + 1, ctx.seed * 1000003 + 808 + i) for i in range(n)])
    H.validate(ctx, traces, H.classify_client)
    ctx.cov["rule"] = ("%d (response wire, request method, decompress, limit) cases x {plain, streaming_callback} x {all single "
                       "cuts, 1-byte, 8 random segmentations} then EOF; %d random mutated responses validated by TLC"
                       % (len(cases), n))
    ctx.cov["trusted_base"] += ["harness/memstream.py", "fake TCPClient + ClientRun in harness/httpr_driver.py", "stdlib zlib (gzip members)"]


def replay(ctx, rec):
    d = rec["detail"]
    if "path" in d:
        r = H.client_replayer(d["extra"], d["path"])
        print("replay:", "diverges " + framework.jdump(r)[:3000] if r else "follows the specification")
        return 1 if r else 0
    if "trace" in d:
        v = H.validate(ctx, [d["trace"]], H.classify_client)
        bad = [x for x in v.values() if x]
        print("replay:", "trace rejected by the specification: " + framework.jdump(bad[0]) if bad else "trace accepted")
        return 1 if bad else 0
    print("nothing to replay")
    return 2
