"""C06 - HTTP header maps behave as a case-insensitive multimap.

MC : specs/httpm/HeaderMap.tla - insertion-ordered multimap keyed by normalized name, a copy,
     line parsing (field lines, continuation lines, malformed lines) and serialize/parse
     round trip; invariants: case-insensitivity, stored values stay valid field values, round
     trip equality; action properties: get = join(get_list), present => deletable, deletion
     exact, copy independence, reads pure, insertion order stable.
S2C: every operation sequence up to length L (TLC path enumeration; read-only operations are real
     steps because they change HTTPHeaders._combined_cache) replayed on a real HTTPHeaders;
     after every step get_all() of the map and of its copy, the return value and the exception
     class are compared with the specification.  Long seeded TLC simulation walks over more names.
C2S: seeded random operation sequences (random-case names, values over the whole field-value
     alphabet incl. obs-text, commas and inner whitespace, random line spellings) recorded from
     the real object and validated by TLC against Trace_HeaderMap.

Binding demonstrated during development (scratch worktree, see notes/httpm.md): dropping the
cache invalidation in add(), making __setitem__ append at the end, lower-casing instead of
Http-Header-Case normalisation, and not stripping the value in parse_line were each reported
as VIOLATION by the S2C replay (and by C2S for the first three).
"""
import random

from harness import framework
from harness.framework import canon
from harness.httpm_driver import HdrReal, t2s

ALL_ACTS = '{"add", "set", "del", "get", "getlist", "in", "iter", "items", "pop", "copy", "cadd", "cset", "cdel", "cget", "parseline", "roundtrip"}'
CORE_ACTS = '{"add", "set", "del", "get", "items", "copy", "cdel", "cget", "parseline", "roundtrip"}'
CORE5_ACTS = '{"add", "set", "del", "get", "copy", "cdel", "parseline"}'


def _sig(path, i, s, obs):
    exp = s["exp"]
    api = s["act"][1:] if s["act"] in ("cadd", "cset", "cdel", "cget") else s["act"]
    sig = {"api": api, "on": "copy" if s["act"].startswith("c") and s["act"] != "copy" else "map",
           "exp_err": exp["err"], "obs_err": obs["err"],
           "map_differs": obs["all"] != exp["all"] or obs["call"] != exp["call"],
           "ret_differs": obs["ret"] != exp["ret"]}
    if s["act"] == "parseline":
        sig["line"] = _line_kind(s["args"][0])
        sig["edge_ws"] = _edge_ws(obs)
    return sig


def _line_kind(line):
    body = [x for x in line if x not in (13, 10)]
    return ("blank" if not body else "ws-only-continuation" if all(x in (32, 9) for x in body)
            else "continuation" if body[0] in (32, 9) else "field")


def _edge_ws(obs):
    """some stored value starts or ends with SP / HTAB"""
    return any(v and (v[0] in (32, 9) or v[-1] in (32, 9)) for _, v in obs["all"] + obs["call"])


def replayer(extra, path):
    real = HdrReal()
    for i, s in enumerate(path):
        obs = canon(real.step(s["act"], s["args"]))
        if obs != s["exp"]:
            return {"step": i, "act": s["act"], "args": s["args"], "exp": s["exp"], "obs": obs,
                    "sig": _sig(path, i, s, obs)}
    return None


# ------------------------------------------------------------------ random recorded runs (C2S)

BASES = ["a", "b", "x-y", "set-cookie", "content-type", "x1-2b", "q-", "-w"]
VCH = "vwxyz019,;=:\"/\\()<>@[]{}?!#$%&'*+-.^_`|~\x80\xe9\xff"


def _rcase(rng, s):
    return "".join(ch.upper() if rng.random() < 0.5 else ch.lower() for ch in s)


def _value(rng, valid=True):
    n = rng.choice([0, 1, 1, 2, 3, 5, 8])
    v = "".join(rng.choice(VCH + " \t" if 0 < i < n - 1 else VCH) for i in range(n))
    if not valid:
        k = rng.randrange(5)
        if k == 0:
            v = " " + v + "q"
        elif k == 1:
            v = "q" + v + "\t"
        elif k == 2:
            v = "q" + rng.choice("\x00\x01\x0b\x1f\x7f") + v
        elif k == 3:
            v = v + chr(rng.choice([0x100, 0x20ac]))
        else:
            v = "q\r" + v
    return v


def _ows(rng):
    return "".join(rng.choice(" \t") for _ in range(rng.choice([0, 0, 1, 1, 2])))


def random_trace(args):
    tid, seed, length = args
    rng = random.Random(seed)
    real = HdrReal()
    names = rng.sample(BASES, rng.choice([2, 3, 4]))
    ev = []
    can_cont = True          # no continuation line after a deletion until the next added line
    for _ in range(length):
        a = rng.choice(["add"] * 4 + ["set"] * 2 + ["del"] * 3 + ["get"] * 3 + ["getlist", "in", "in", "iter", "items",
                        "pop", "copy", "roundtrip"] + ["parseline"] * 4
                       + (["cadd", "cset", "cdel", "cdel", "cget"] if real.c is not None else []))
        n = _rcase(rng, rng.choice(names))
        if a in ("add", "cadd"):
            r = rng.random()
            if r < 0.06:
                n = rng.choice(["", "a b", "a:", "\xe9", "a\t"])
            args_ = [n, _value(rng, valid=rng.random() > 0.08)]
        elif a in ("set", "cset"):
            args_ = [n, _value(rng)]
        elif a in ("iter", "items", "copy", "roundtrip"):
            args_ = []
        elif a == "parseline":
            k = rng.random()
            eol = rng.choice(["", "\r\n", "\n", "\r\n"])
            if k < 0.55:
                line = n + ":" + _ows(rng) + _value(rng, valid=rng.random() > 0.05) + _ows(rng) + eol
            elif k < 0.85:
                if not can_cont:
                    continue
                line = rng.choice(" \t") + _ows(rng) + _value(rng, valid=rng.random() > 0.05) + _ows(rng) + eol
            elif k < 0.9:
                line = eol
            else:
                line = rng.choice(["nocolon", ":v", "a b: v", "a : v", "\xe9: v"]) + eol
            args_ = [line]
        else:
            args_ = [n]
        pre_in = int(n in real.h) if a in ("del", "pop", "get") else (int(n in real.c) if a in ("cdel", "cget") else -1)
        obs = real.step(a, [t2s(x) for x in args_])
        ev.append({"a": a, "args": [t2s(x) for x in args_], "obs": obs, "pre_in": pre_in})
        if a in ("del", "pop"):
            can_cont = False
        elif (a == "add" or (a == "parseline" and _line_kind(t2s(args_[0])) == "field")) and obs["err"] == "none":
            can_cont = True
        if (pre_in == 1 and obs["err"] != "none") or _edge_ws(obs):
            break               # anomaly (present name not readable / deletable, stored value with edge
                                # whitespace): the rest could not be matched anyway, the trace ends here
    return {"id": tid, "cfg": {}, "ev": ev}


def _c2s_sig(t, bad, l):
    if not bad:
        return {}
    a = bad["a"]
    sig = {"api": a[1:] if a in ("cadd", "cset", "cdel", "cget") else a, "obs_err": bad["obs"]["err"],
           "present_before": bad.get("pre_in")}
    if a == "parseline":
        sig["line"] = _line_kind(bad["args"][0])
        sig["edge_ws"] = _edge_ws(bad["obs"])
    return sig


def run(ctx):
    # 1. the specification satisfies the property (exhaustive within the constants)
    ctx.mc("httpm", "HeaderMap", "MC_HeaderMap.cfg", timeout=ctx.pick(900, 3000),
           overrides=ctx.pick({"LineFormats": "{1, 3}", "ContFormats": "{1, 3}", "MaxCVals": 1}, {}),   # thorough: the cfg as written (13 574 states)
           required_actions=["Add", "Set", "Del", "Get", "GetList", "In", "Iter", "ItemsOp", "Pop", "Copy", "CAdd", "CSet",
                             "CDel", "CGet", "ParseLine", "RoundTrip"])
    # 2. spec -> code: every path up to L
    # quick: all 16 actions to length 3 over the names {a, A, x-Y}; the 10 cache-affecting actions to length 4.
    # thorough: the same, with the length-3 run over the larger name set NameSel = 4 (1.6e5 paths).  (Length 4
    # over all actions / length 5 over the core is 1.6e6 paths and 1.5 GB of dump: it did not finish in 75 min.)
    paths = ctx.gen_paths("httpm", "Gen_HeaderMap", "Gen_HeaderMap.cfg", timeout=ctx.pick(900, 3000),
                          overrides={"L": 3, "NameSel": ctx.pick(1, 4), "Acts": ALL_ACTS})
    ctx.replay(paths, replayer, label="s2c")
    del paths
    paths = ctx.gen_paths("httpm", "Gen_HeaderMap", "Gen_HeaderMap.cfg", timeout=ctx.pick(900, 3000), overrides={"L": 4, "NameSel": 3, "Acts": CORE_ACTS})
    ctx.replay(paths, replayer, label="s2c")
    ctx.cov["exhaustive"] = True
    sims = ctx.sim_paths("httpm", "Gen_HeaderMap", "Gen_HeaderMap.cfg", timeout=ctx.pick(900, 3000), num=ctx.pick(300, 2000), depth=30,
                         overrides={"L": 30, "NameSel": 4, "Acts": ALL_ACTS, "LineFormats": "{1, 2, 3}",
                                    "ContFormats": "{1, 2, 3}", "BadSel": 1})
    ctx.replay(sims, replayer, label="s2c-sim")
    # 3. code -> spec
    n = ctx.pick(400, 4000)
    jobs = [(i + 1, ctx.seed * 1000003 + i, 40) for i in range(n)]
    traces = framework.pool_map(random_trace, jobs)
    ctx.validate("httpm", "Trace_HeaderMap", "Trace_HeaderMap.cfg", traces, timeout=ctx.pick(900, 3000), sig_fn=_c2s_sig)
    ctx.cov["rule"] = ("paths: every sequence of add/set/del/get/get_list/in/iter/items/pop/copy/copy-ops/parse_line/round-trip "
                       "up to length %d over names {a, A, x-Y} with serial values, every sequence of the cache-affecting "
                       "operations up to length %d over {a, A}, seeded TLC simulation walks (depth 30, 6 names, all line "
                       "spellings) and random recorded runs of length 40; distinct = distinct operation sequence; "
                       "non-trivial = length >= 2" % (3, 4))


def replay(ctx, rec):
    d = rec["detail"]
    if "path" in d:
        r = replayer(d["extra"], d["path"])
        print("replay:", "diverges " + framework.jdump(r) if r else "follows the specification")
        return 1 if r else 0
    if "trace" in d:
        t = d["trace"]
        real = HdrReal()                                      # re-execute the recorded inputs
        t = {"id": t["id"], "cfg": t["cfg"], "ev": [{"a": e["a"], "args": e["args"], "obs": real.step(e["a"], e["args"]),
                                                     "pre_in": e.get("pre_in", -1)} for e in t["ev"]]}
        v = ctx.validate("httpm", "Trace_HeaderMap", "Trace_HeaderMap.cfg", [t], sig_fn=_c2s_sig)
        bad = v[t["id"]]
        print("replay:", "rejected at event %d: %s" % (bad["at"], framework.jdump(bad["event"])) if bad else "accepted by the specification")
        return 1 if bad else 0
    print("replay: specification-level counterexample (re-run ./check C06)")
    return 1
