"""C05 - Every started request ends with exactly one finish or close notification.

MC : HttpReader.tla with PeerClose at every point, asynchronous responses (Respond as a separate
     action), BodyTimeout and Shutdown: invariants OneEnd (at most one of F/C per message, exactly one
     once the connection is closed, only the last message can be unfinished), PrefixOfSent (what was
     delivered is a prefix of what the peer sent, all of it when finished), Final; liveness
     ShutdownCloses (under weak fairness of Shutdown every connection ends up closed).
     The application may also answer early (from headers_received / its first data_received): EarlyEnd.
S2C: (a) every TLC wire is cut at EVERY byte offset (0..n) and the peer closes there: real HTTPServer
     with the recording delegate, the request callback and a tornado.web.Application (plain and
     @stream_request_body handlers) wrapped in a recording delegate;
     (b) TLC computes for a set of wires the tree of behaviours "arrive byte by byte; at any point the
     peer closes | the body times out | close_all_connections | the asynchronous application answers
     (then arrival continues)" (GenT_HttpReader); every root-to-event path is run on the real server
     (recording delegate answering on demand, and a web.Application whose handler awaits a harness
     future); close_all_connections() must complete within the settle.
     (c) early-answering applications (raw delegate answering in headers_received / first data_received,
     @stream_request_body handler finishing in prepare() / data_received) on the TLC wires, whole request
     in one segment, one cut and random segmentations; each run is validated by TLC.
C2S: random request streams x random segmentation x random placement of peer close / answer / body
     timeout / shutdown, recorded from the real server and validated by TLC (Trace_HttpReader).

Binding demonstrated during development: on the tree without fix F30 the `shutdown` paths of the trees diverge; the seeded
edit M3 (`need_delegate_close = False` dropped before finish) yields end "FC" in s2c-eof, s2c-tree and in TLC-rejected
traces (16 violations) (notes/httpr.md).
"""
import random

from harness import framework
from harness import httpr_check as H
from harness import httpr_driver as D
from harness import httpr_gen as G

MC_Q = {"Modes": '{"server"}', "Heads": "{FALSE}", "RLs": "{1, 3}", "HOSTs": "{1, 4}", "FRs": "{1, 2, 3, 5}", "FR2s": "{1, 5}",
        "XHs": "{1}", "BODYs": "{1, 2, 3, 4, 9}", "TAILs": "{1, 2}", "Dev": 1, "Sizes": "{1, 4}",
        "Timeouts": "{TRUE}", "Shuts": "{TRUE}", "Responds": '{"sync", "async", "early", "earlydata", "raise"}'}
GEN_Q = {"RLs": "{1, 2, 3}", "HOSTs": "{1, 2}", "FRs": "{1, 2, 3, 5, 9}", "FR2s": "{1, 3, 5}", "XHs": "{1, 3}",
         "BLANKs": "{1}", "BODYs": "{1, 2, 3, 4, 6, 9, 18}", "TAILs": "{1, 2}", "Dev": 1}
GEN_T = {"RLs": "{1, 2, 3, 4, 5, 6, 7, 8, 9, 10, 11, 12, 13, 14, 15, 16, 17, 18, 19, 20}", "HOSTs": "{1, 2, 3, 4, 5, 6, 7, 8, 9, 10, 11, 12, 13, 14}", "FRs": "{1, 2, 3, 4, 5, 9, 10, 11, 12, 13, 15, 16, 17, 18}", "FR2s": "{1, 2, 3, 4, 5, 6, 7}", "XHs": "{1, 2, 3, 4, 5, 6, 7, 8, 9, 10, 11, 12, 13, 14}", "BLANKs": "{1, 2}",
         "BODYs": "{1, 2, 3, 4, 5, 6, 7, 9, 10, 11, 18, 21, 22, 24}", "TAILs": "{1, 2, 3}", "Dev": 1}
TREE_Q = {"RLs": "{1, 3}", "HOSTs": "{1}", "FRs": "{1, 2, 3}", "FR2s": "{1}", "XHs": "{1}", "BODYs": "{1, 2, 3}", "TAILs": "{1, 2}",
          "Dev": 0}
TREE_T = {"RLs": "{1, 3}", "HOSTs": "{1}", "FRs": "{1, 2, 3, 5, 11}", "FR2s": "{1, 5}", "XHs": "{1}",
          "BODYs": "{1, 2, 3, 4, 9, 18}", "TAILs": "{1, 2}", "Dev": 1}


def eof_replayer(extra, path):
    """The peer closes after exactly k bytes, for every k."""
    wire = bytes(extra["wire"])
    env = D.Env()
    try:
        for k in range(len(wire) + 1):
            div = D.run_server_schedule(extra["cfg"], wire, [wire[:k]] if k else [], path, extra["eofs"],
                                        mode=extra["app"], eof_after=k, env=env)
            if div:
                div["pieces"] = [k]
                div["sig"] = H.server_sig(div, extra["app"], wire, extra["cfg"])
                return div
        return None
    finally:
        env.close()


def tree_replayer(extra, path):
    wire = bytes(extra["wire"])
    env = D.Env()
    try:
        for steps in D.tree_scenarios(path):
            div = D.run_scenario(extra["cfg"], wire, steps, extra["app"], env)
            if div:
                div["scenario"] = [[s[0], s[1] if s[0] == "arrive" else None] for s in steps]
                div["sig"] = H.server_sig(div, extra["app"], wire, extra["cfg"])
                return div
        return None
    finally:
        env.close()


def record_random(args):
    tid, seed = args
    rng = random.Random(seed)
    cfg = dict(H.BASE_CFG, respond=rng.choice(["sync", "async", "async"]), btimeout=rng.random() < 0.5,
               shut=rng.random() < 0.3)
    w = G.gen_request_stream(rng, max_body=120, p_mut=0.3)
    pcs = G.segmentation(rng, len(w))
    script = []
    for i in range(len(pcs)):
        r = rng.random()
        if cfg["respond"] == "async" and r < 0.5:
            script.append((i, "respond"))
        elif cfg["btimeout"] and r < 0.58:
            script.append((i, "timeout"))
        elif r < 0.64:
            script.append((i, "eof"))
        elif cfg["shut"] and r < 0.68:
            script.append((i, "shutdown"))
    if rng.random() < 0.5:
        script.append((len(pcs) - 1, "eof"))
    if cfg["respond"] == "async":
        script += [(len(pcs) - 1, "respond")] * 4
    return D.record_server_trace(tid, cfg, w, pcs, script)


def record_early(args):
    """The application answers before the request has been read (from headers_received / from its first
    data_received): raw delegate and @stream_request_body web handler, whole request in one segment and
    cut schedules.  The delegate must still get exactly one of finish / close."""
    tid, wire, mode, app, pieces = args
    cfg = dict(H.BASE_CFG, respond=mode)
    t = D.record_server_trace(tid, cfg, bytes(wire), pieces, [(len(pieces) - 1, "eof")], mode=app)
    t["app"] = app
    return t


def early_jobs(cases, rng, stride):
    jobs = []
    for c in cases[::stride]:
        w = c["wire"]
        n = len(w)
        if n < 2:
            continue
        for mode in ("early", "earlydata"):
            for app in ("delegate", "app-stream-" + mode):
                k = rng.randrange(1, n)
                for pieces in ([n], [k, n - k], G.segmentation(rng, n)):
                    jobs.append((len(jobs) + 1, w, mode, app, pieces))
        # an application whose finish() raises (after noting it): still exactly one end notification
        for pieces in ([n], [rng.randrange(1, n), 0]):
            pieces = [p for p in pieces if p] if pieces[-1] else [pieces[0], n - pieces[0]]
            jobs.append((len(jobs) + 1, w, "raise", "delegate", pieces))
    return jobs


def run(ctx):
    # 1. model checking
    H.vacuity(ctx, dict(MC_Q, RLs="{1}", HOSTs="{1}", FRs="{2}", FR2s="{1}", BODYs="{2}", TAILs="{2}", Dev=0, Sizes="{47}"),
              ["arrive", "eof", "respond", "timeout", "shutdown"])
    mcq = dict(MC_Q)
    if not ctx.quick:
        mcq.update(FRs="{1, 2, 3, 5, 9, 11, 17}", BODYs="{1, 2, 3, 4, 6, 9, 11, 18, 21}", Sizes="{1, 2, 3, 4, 8}")
    H.mc(ctx, "MC_HttpReader", "MC_HttpReader.cfg", overrides=mcq)
    H.mc(ctx, "MC_HttpReader", "MCL_HttpReader.cfg",
         overrides=dict(MC_Q, RLs="{1}", HOSTs="{1}", FRs="{1, 2, 3}", FR2s="{1}", BODYs="{1, 2, 3}", Dev=0, Sizes="{4}"))
    # 2a. spec -> code: disconnect at every byte offset (synchronous application)
    cases = H.gen_cases(ctx, GEN_Q if ctx.quick else GEN_T)
    items = []
    for c in cases:
        for app in ("delegate", "callback", "app-sync", "app-stream"):
            items.append(({"cfg": c["cfg"], "wire": c["wire"], "eofs": c["eofs"], "app": app, "family": "eof"}, c["trail"]))
    ctx.replay(items, eof_replayer, label="s2c-eof", nontrivial=lambda e, p: True)
    runs = sum(len(e["wire"]) + 1 for e, p in items)
    # 2b. behaviour trees: asynchronous answers, body timeout, shutdown
    trees = []
    for ov in ({"TResponds": '{"async"}', "TTimeouts": "{TRUE}", "TShuts": "{TRUE}"},
               {"TResponds": '{"sync"}', "TTimeouts": "{TRUE}", "TShuts": "{TRUE}"}):
        sts = ctx.gen_states(H.sdir(ctx), "GenT_HttpReader", "GenT_HttpReader.cfg",
                             overrides=dict(TREE_Q if ctx.quick else TREE_T, **ov), variables=("cfg", "wire", "tree", "done"),
                             timeout=ctx.pick(900, 3000))
        trees += [s for s in sts if s["done"]]
    titems = []
    for t in trees:
        apps = ("delegate", "app-async") if t["cfg"]["respond"] == "async" else ("delegate", "app-sync", "app-stream")
        for app in apps:
            titems.append(({"cfg": t["cfg"], "wire": t["wire"], "app": app, "family": "tree"}, t["tree"]))
    ctx.replay(titems, tree_replayer, label="s2c-tree", nontrivial=lambda e, p: True)
    truns = sum(sum(1 for _ in D.tree_scenarios(p)) for e, p in titems)
    ctx.cov["connection_runs"] = runs + truns
    ctx.cov["evaluations"] += runs + truns - len(items) - len(titems)
    ctx.cov["exhaustive"] = True
    # 2c. applications that answer early (validated by TLC: the expected projection depends on the schedule)
    ej = early_jobs(cases, random.Random(ctx.seed + 5), ctx.pick(6, 3))
    etraces = framework.pool_map(record_early, ej)
    H.validate(ctx, etraces, H.classify_server, label="early")
    ctx.cov["early_answer_runs"] = len(etraces)
    # 3. code -> spec
    n = ctx.pick(200, 5000)
    traces = framework.pool_map(record_random, [(i + 1, ctx.seed * 1000003 + 77 + i) for i in range(n)])
    H.validate(ctx, traces, H.classify_server)
    ctx.cov["rule"] = ("(a) %d token-grammar wires x {delegate, callback, web app, streaming web app} x peer close after every "
                       "byte offset; (b) %d behaviour trees (arrive byte by byte; at any point close / timeout / shutdown / "
                       "asynchronous answer, depth 2) x application modes, every root-to-event path; (c) %d random recorded runs "
                       "with random event placement validated by TLC" % (len(cases), len(trees), n))
    ctx.cov["trusted_base"] += ["harness/memstream.py in-memory transport", "harness/httpr_driver.py recorder, wrapper delegate around web.Application"]


def replay(ctx, rec):
    d = rec["detail"]
    if "path" in d:
        fam = d["extra"].get("family")
        fn = tree_replayer if fam == "tree" else eof_replayer if fam == "eof" else H.server_replayer
        r = fn(d["extra"], d["path"])
        print("replay:", "diverges " + framework.jdump(r)[:3000] if r else "follows the specification")
        return 1 if r else 0
    if "trace" in d:
        v = H.validate(ctx, [d["trace"]], H.classify_server)
        bad = [x for x in v.values() if x]
        print("replay:", "trace rejected by the specification: " + framework.jdump(bad[0]) if bad else "trace accepted")
        return 1 if bad else 0
    print("nothing to replay")
    return 2
