"""C35 - Queues conserve items and match their ordering discipline.

MC : specs/sync/Queue.tla - all interleavings of put / put_nowait / get / get_nowait / task_done /
     join (each with timeouts), clock advances and cancellations of pending futures, for FIFO, LIFO
     and priority queues of maxsize 0..2(3); invariants and action properties state the property.
S2C: every operation sequence enumerated by TLC (path enumeration over five alphabets, see
     GEN_FAMILIES) plus seeded TLC simulation walks are replayed on the real Queue / LifoQueue /
     PriorityQueue on the virtual loop; the projection (every put/get/join future's state, every
     delivered item, qsize/empty/full, exception class of the call) is compared after every step.
     Every behaviour is replayed under four placements of event-loop iterations: settled after every
     call; all calls of a stretch inside one iteration (no callback runs between them) with the calls
     after an advance made from a callback in the iteration in which the timers fire; the same one
     iteration later; and a pseudo-random placement two iterations later (see harness.sync_driver._Fused).
C2S: seeded random runs recorded from the real queues (long histories, maxsize 0..3, many more
     operations than TLC enumerates) are validated by TLC against Trace_Queue with every invariant
     and action property evaluated at every step.

Binding demonstrated during development (scratch worktree, see notes/sync.md).
"""
import os
import random
import zlib

from harness import framework, sync_paths
from harness.framework import canon
from harness.sync_driver import QueueReal, NOTO

NP_GEN, NG_GEN, NJ_GEN = 4, 4, 2
ALL_OPS = '{"put", "put_nowait", "get", "get_nowait", "task_done", "join", "advance", "cancel_put", "cancel_get", "cancel_join"}'


def _style(path):
    return zlib.crc32(framework.jdump([[s["act"], s["args"]] for s in path]).encode()) & 1


def _differs(exp, obs):
    return sorted(k for k in set(exp) | set(obs) if exp.get(k) != obs.get(k))


def _needs_settle(s):
    a = s["act"]
    return (a == "put" and s["args"][2] == 0) or (a in ("get", "join") and s["args"][1] == 0)


# placements of loop iterations tried for every behaviour besides "settle after every call":
# (fuse predicate on the step index, iterations between the timers of an advance and the follow-up calls)
def _placements(h):
    return [(lambda i: True, 0), (lambda i: True, 1), (lambda i: (h >> (i % 16)) & 1 == 1, 2)]


def _sig(cfg, d, placement):
    return {"act": d["act"], "kind_": cfg["kind"], "maxsize": cfg["maxsize"], "differs": _differs(d["exp"], d["obs"]),
            "exp_err": d["exp"]["err"], "obs_err": d["obs"]["err"], "placement": placement}


def _replay(extra, path, dims, style, fused=True):
    cfg = extra["cfg"]
    real = QueueReal(cfg, dims[0], dims[1], dims[2], style=style)
    try:
        for i, s in enumerate(path):
            obs = canon(real.step(s["act"], s["args"]))
            if obs != s["exp"]:
                d = {"step": i, "act": s["act"], "args": s["args"], "exp": s["exp"], "obs": obs}
                d["sig"] = _sig(cfg, d, "settled")
                return d
    finally:
        real.close()
    if not fused or len(path) < 2:
        return None
    h = zlib.crc32(framework.jdump([[s["act"], s["args"]] for s in path]).encode()) >> 1
    for n, (fuse, delay) in enumerate(_placements(h)):
        real = QueueReal(cfg, dims[0], dims[1], dims[2], style=(style + n + 1) & 1)
        try:
            d = sync_paths.fused_replay(real, path, _needs_settle, fuse, delay)
        finally:
            real.close()
        if d is not None:
            d["sig"] = _sig(cfg, d, "fused%d" % n)
            return d
    return None


def _dims(path):
    e = path[0]["exp"]
    return (len(e["pst"]), len(e["gst"]), len(e["jst"]))


def replayer(extra, path):
    return _replay(extra, path, _dims(path), _style(path))


def random_trace(args):
    """One recorded run of a real queue.  profile: 'mixed' | 'bounded' (small maxsize, many blocking
    puts with timeouts) | 'consumers' (getters mostly ahead of putters)."""
    tid, seed, n_ids, length, profile = args
    rng = random.Random(seed)
    kind = rng.choice(["fifo", "lifo", "prio"])
    maxsize = rng.choice([1, 1, 2, 3]) if profile == "bounded" else rng.choice([0, 0, 1, 2, 3])
    cfg = {"kind": kind, "maxsize": maxsize, "style": rng.randrange(2)}
    np_, ng, nj = n_ids, n_ids, max(4, n_ids // 3)
    real = QueueReal(cfg, np_, ng, nj, style=cfg["style"])
    ev = []
    nxt = {"p": 1, "g": 1, "j": 1}
    w = {"mixed": (4, 2, 4, 2, 3, 2), "bounded": (7, 2, 3, 2, 2, 1), "consumers": (3, 1, 6, 1, 2, 1)}[profile]
    try:
        for _ in range(length):
            ch = []
            if nxt["p"] <= np_:
                ch += ["put"] * w[0] + ["put_nowait"] * w[1]
            if nxt["g"] <= ng:
                ch += ["get"] * w[2] + ["get_nowait"] * w[3]
            ch += ["task_done"] * w[4]
            if nxt["j"] <= nj:
                ch += ["join"] * w[5]
            pend = {k: real.pending(k) for k in "pgj"}
            if pend["p"]:
                ch += ["cancel_put"]
            if pend["g"]:
                ch += ["cancel_get"]
            if pend["j"]:
                ch += ["cancel_join"]
            if real.timed_pending():
                ch += ["advance"] * 3
            a = rng.choice(ch)
            to = rng.choice([NOTO, NOTO, 0, 1, 2, 3, 5])
            if a == "put":
                args_ = [nxt["p"], rng.choice([1, 2, 3]) if kind == "prio" else 1, to]
                nxt["p"] += 1
            elif a == "put_nowait":
                args_ = [nxt["p"], rng.choice([1, 2, 3]) if kind == "prio" else 1]
                nxt["p"] += 1
            elif a == "get":
                args_ = [nxt["g"], to]
                nxt["g"] += 1
            elif a == "get_nowait":
                args_ = [nxt["g"]]
                nxt["g"] += 1
            elif a == "join":
                args_ = [nxt["j"], to]
                nxt["j"] += 1
            elif a == "advance":
                args_ = [rng.choice([1, 1, 2, 3])]
            elif a.startswith("cancel_"):
                args_ = [rng.choice(pend[a[7]])]
            else:
                args_ = []
            obs = real.step(a, args_)
            ev.append({"a": a, "args": args_, "obs": obs})
        return {"id": tid, "cfg": cfg, "ev": ev}
    finally:
        real.close()


def random_replay(t):
    """Re-execute the operation sequence of a recorded trace on the current tree."""
    o = t["ev"][0]["obs"]
    real = QueueReal(t["cfg"], len(o["pst"]), len(o["gst"]), len(o["jst"]), style=t["cfg"].get("style", 0))
    ev = []
    try:
        for e in t["ev"]:
            # the recorded operation sequence was chosen against the recording tree's state; operations that
            # are not applicable on this tree (cancel of a finished future, advance without a deadline) are skipped
            if e["a"].startswith("cancel_") and e["args"][0] not in real.pending(e["a"][7]):
                continue
            if e["a"] == "advance" and not real.timed_pending():
                continue
            ev.append({"a": e["a"], "args": e["args"], "obs": real.step(e["a"], e["args"])})
    finally:
        real.close()
    return {"id": t["id"], "cfg": t["cfg"], "ev": ev}


def _trace_sig(t, bad, l):
    obs = (bad or {}).get("obs", {}) if bad else {}
    return {"kind_": t["cfg"]["kind"], "maxsize": t["cfg"]["maxsize"], "obs_err": obs.get("err", "none")}


GEN_FAMILIES = [
    # (name, overrides, L quick, L thorough): every sequence over the family's alphabet up to L
    ("all", {"Ops": ALL_OPS, "Timeouts": "{0, 1, 999}", "MaxSizes": "{0, 1, 2}", "Prios": "{1, 2}", "MaxAdvance": 2}, 3, 3),     # L = 4 is 3.7e5 behaviours x 4 placements: > 75 min
    ("core", {"Ops": '{"put", "put_nowait", "get", "get_nowait", "cancel_put", "cancel_get"}', "Timeouts": "{999}",
              "MaxSizes": "{1, 2}", "Prios": "{1, 2}", "NJ": 1}, 5, 6),
    ("timed", {"Ops": '{"put", "get", "advance", "cancel_put", "cancel_get"}', "Timeouts": "{1, 2}", "MaxSizes": "{1}",
               "Prios": "{1}", "MaxAdvance": 2, "NJ": 1}, 5, 5),
    ("join", {"Ops": '{"put_nowait", "get_nowait", "task_done", "join", "advance", "cancel_join"}', "Timeouts": "{1, 999}",
              "MaxSizes": "{0}", "Kinds": '{"fifo"}', "MaxAdvance": 1, "NJ": 3}, 6, 7),
    ("acct", {"Ops": '{"put", "get", "task_done", "join"}', "Timeouts": "{999}", "MaxSizes": "{1}", "Prios": "{1}",
              "NJ": 2}, 6, 7),
]

TRACE_IDS = 100


def c2s(ctx, n):
    jobs = []
    for i in range(n):
        profile = ("mixed", "bounded", "consumers", "mixed")[i % 4]
        jobs.append((i + 1, ctx.seed * 1000003 + i, TRACE_IDS, ctx.pick(150, 300), profile))
    traces = framework.pool_map(random_trace, jobs)
    ctx.validate("sync", "Trace_Queue", "Trace_Queue.cfg", traces,
                 shards=max(1, min(int(os.environ.get("VERIF_WORKERS", "16")), len(traces) // 24)),
                 overrides={"NP": TRACE_IDS, "NG": TRACE_IDS, "NJ": max(4, TRACE_IDS // 3)}, sig_fn=_trace_sig,
                 timeout=ctx.pick(900, 3000))


def selftest(ctx):
    """non-vacuity of both binding directions on a fixed short run (machinery failure if it does not fire)"""
    script = [("put", [1, 1, NOTO]), ("put", [2, 1, 1]), ("get", [1, NOTO]), ("join", [1, 2]), ("advance", [1]),
              ("task_done", []), ("get_nowait", [2]), ("task_done", []), ("task_done", [])]
    cfg = {"kind": "lifo", "maxsize": 1, "style": 0}
    real = QueueReal(cfg, NP_GEN, NG_GEN, NJ_GEN, style=0)
    try:
        ev = [{"a": a, "args": args, "obs": real.step(a, args)} for a, args in script]
    finally:
        real.close()

    def corrupt(obs):
        obs = dict(obs)
        obs["qsize"] = obs["qsize"] + 1
        return obs
    sync_paths.binding_selftest(ctx, "Trace_Queue", "Trace_Queue.cfg", {"NP": NP_GEN, "NG": NG_GEN, "NJ": NJ_GEN},
                                {"id": 1, "cfg": cfg, "ev": ev}, corrupt,
                                lambda e, p: _replay({"cfg": {"kind": "lifo", "maxsize": 1}}, p, _dims(p), 0, fused=False))


def _timed(ctx, name, t0):
    import time
    ctx.cov.setdefault("phases_s", {})[name] = round(time.time() - t0, 1)
    return time.time()


def run(ctx):
    import time
    t0 = time.time()
    selftest(ctx)
    t0 = _timed(ctx, "selftest", t0)
    # 1. model checking of the specification
    req = ["Put", "PutNowait", "Get", "GetNowait", "TaskDone", "Join", "Advance", "CancelPut", "CancelGet", "CancelJoin"]
    if ctx.quick:
        ctx.mc("sync", "Queue", "MC_Queue.cfg", required_actions=req, timeout=900)
    else:
        ctx.mc("sync", "Queue", "MC_Queue.cfg", overrides={"NP": 4, "NG": 3, "NJ": 1, "MaxSizes": "{1, 2}"},
               required_actions=req, timeout=3000)
        ctx.mc("sync", "Queue", "MC_Queue.cfg", overrides={"NP": 3, "NG": 3, "NJ": 2, "MaxSizes": "{0, 1, 2, 3}"},
               required_actions=req, timeout=3000)
    t0 = _timed(ctx, "mc", t0)
    # 2. spec -> code: all paths up to L over five alphabets
    rule = []
    fams = []
    for name, ov, lq, lt in GEN_FAMILIES:
        L = ctx.pick(lq, lt)
        if not L:
            continue
        o = dict(ov)
        o["L"] = L
        fams.append(("s2c-" + name, o))
        rule.append("%s: all sequences <= %d over %s" % (name, L, ", ".join("%s=%s" % kv for kv in sorted(ov.items()))))
    sync_paths.stream_replay_many(ctx, "Gen_Queue", "Gen_Queue.cfg", fams, replayer, parallel=ctx.pick(3, 2),
                                  nontrivial=lambda e, p: len(p) >= 2 and any(s["act"] != "advance" for s in p))
    ctx.cov["exhaustive"] = True
    t0 = _timed(ctx, "s2c-enum", t0)
    # long seeded walks through larger constants
    sync_paths.sim_replay(ctx, "Gen_Queue", "Sim_Queue.cfg", num=ctx.pick(60, 1000), depth=ctx.pick(30, 40),
                          overrides={"NP": 14, "NG": 14, "NJ": 6, "MaxSizes": "{0, 1, 2, 3}", "Prios": "{1, 2, 3}",
                                     "Timeouts": "{0, 1, 2, 3, 999}", "MaxAdvance": 3},
                          replayer=replayer)
    t0 = _timed(ctx, "s2c-sim", t0)
    # 3. code -> spec: random recorded runs validated by TLC
    c2s(ctx, ctx.pick(96, 2000))
    t0 = _timed(ctx, "c2s", t0)
    ctx.cov["rule"] = ("paths: " + "; ".join(rule) + "; per queue class; plus seeded TLC simulation walks (depth 40) and "
                       "random recorded runs; distinct = distinct (config, operation sequence); non-trivial = length >= 2 "
                       "with a non-advance op")


def replay(ctx, rec):
    d = rec["detail"]
    if "path" in d:
        r = replayer(d["extra"], d["path"])
        print("replay:", "diverges " + framework.jdump(r) if r else "follows the specification")
        return 1 if r else 0
    if "trace" in d:
        again = random_replay(d["trace"])
        o = again["ev"][0]["obs"]
        v = ctx.validate("sync", "Trace_Queue", "Trace_Queue.cfg", [again],
                         overrides={"NP": len(o["pst"]), "NG": len(o["gst"]), "NJ": len(o["jst"])}, sig_fn=_trace_sig)
        bad = v[again["id"]]
        print("replay:", "re-recorded trace rejected at event %d: %s" % (bad["at"], framework.jdump(bad["event"])) if bad
              else "re-recorded trace accepted by the specification")
        return 1 if bad else 0
    print("nothing to replay in this record")
    return 2
