"""C07 - Application data cannot inject header lines or split a response.

MC : specs/httpw/HeaderInject.tla over every (API path, string) pair of the class alphabet: the
     specification's own writer never puts CR/LF/NUL into a header block for an input that need not
     be rejected and the strict reader gets the intended line back (WriterSafe); every input that
     must be rejected would damage the block if written naively (RejectionJustified).
S2C/C2S: every enumerated (API path, string) is executed in a real handler (set_header name/value
     str+bytes, add_header name/value, set_status reason, set_cookie name/value/domain/path/samesite,
     redirect).  The raw response and the raw baseline response (same call, benign string) are handed
     to TLC (Trace_HeaderInject): must-raise inputs raised, benign inputs accepted, a rejected call
     leaves no header line the baseline lacks, an accepted call yields exactly the baseline block
     with the intended line (RespReader refuses any control byte in the block).  Random longer
     strings (and a flush before finish) are validated the same way.

Binding demonstrated during development (scratch worktree, notes/httpw.md): widening
_VALID_HEADER_CHARS to admit \\x0b, removing ';' from the cookie attribute check, and dropping the
CR_OR_LF_RE loop in write_headers - each reported as VIOLATION.
"""
import random

from harness import framework
from harness import httpw_driver as drv

FAM = "httpw"
APIS = ["set_header_str", "set_header_bytes", "add_header_value", "set_header_name", "add_header_name",
        "status_reason", "cookie_name", "cookie_value", "cookie_domain", "cookie_path", "cookie_samesite", "redirect",
        "conn_reason", "wsgi_reason"]
ALPHA_Q = "{0, 1, 9, 10, 13, 32, 34, 44, 58, 59, 60, 61, 92, 97, 127, 133, 233}"


def _job(args):
    tid, api, x, flush_first = args
    if api == "set_header_bytes" and any(c > 255 for c in x):
        return None
    return drv.inj_trace(tid, api, x, flush_first)


def classes(x):
    out = set()
    for c in x:
        out.add("NUL" if c == 0 else "LF" if c == 10 else "CR" if c == 13 else "HT" if c == 9 else
                "CTL" if c < 32 or c == 127 else "SP" if c == 32 else "colon" if c == 58 else "semi" if c == 59 else
                "sep" if c in (34, 44, 61, 92, 60) else "wide" if c > 255 else "hi" if c > 127 else "vchar")
    return sorted(out)


def sig_of(t, bad, l):
    ob = t["ev"][0]["obs"]
    return {"api": t["cfg"]["api"], "raised": ob["raised"], "err": ob["err"], "x_has": classes(t["cfg"]["x"]),
            "at": bad["a"] if bad else None, "empty": len(t["cfg"]["x"]) == 0,
            "has_wide": any(c > 255 for c in t["cfg"]["x"]), "has_crlf": any(c in (10, 13) for c in t["cfg"]["x"]),
            "wire_empty": len(t["ev"][1]["obs"]["out"]) == 0, "eof": t["ev"][1]["obs"]["eof"]}


def run(ctx):
    ctx.mc(FAM, "HeaderInject", "MC_HeaderInject.cfg",
           overrides=ctx.pick({}, {"MaxLen": 3, "Alphabet": "{0, 9, 10, 13, 32, 58, 59, 61, 97, 127, 233}"}),
           required_actions=["Call"], timeout=ctx.pick(300, 1200))
    paths = ctx.gen_paths(FAM, "Gen_HeaderInject", "Gen_HeaderInject.cfg",
                          overrides=ctx.pick({}, {"MaxLen": 3, "Alphabet": "{0, 9, 10, 13, 32, 58, 59, 61, 97, 127, 233}"}))
    cases = [(extra["cfg"]["api"], extra["cfg"]["x"]) for extra, path in paths if len(path) == 1]
    jobs = [(i + 1, api, x, False) for i, (api, x) in enumerate(cases)]
    ctx.cov["exhaustive"] = True
    # random longer strings, also with a flush before finish
    n = ctx.pick(2500, 30000)
    base = len(jobs)
    specials = [0, 1, 9, 10, 11, 12, 13, 27, 32, 34, 44, 58, 59, 60, 61, 92, 127, 128, 133, 160, 233, 255, 256, 266, 269, 0x2028, 0x2029, 0x85]
    rjobs = []
    for i in range(n):
        rng = random.Random(ctx.seed * 1000003 + i)
        api = rng.choice(APIS)
        ln = rng.choice([1, 2, 3, 5, 8, 20, 60])
        p = rng.choice([0.0, 0.05, 0.2, 0.5])
        x = [rng.choice(specials) if rng.random() < p else rng.choice(b"abcXYZ019-_./") for _ in range(ln)]
        if rng.random() < 0.2:      # a classic payload somewhere inside
            pay = rng.choice(["\r\nSet-Cookie: a=b", "\r\n\r\nHTTP/1.1 200 OK\r\nContent-Length: 0\r\n\r\n", "\nX: y", "\rX: y",
                              "; Domain=evil", "\x00", "Ċ", " X: y"])
            k = rng.randrange(len(x) + 1)
            x = x[:k] + [ord(ch) for ch in pay] + x[k:]
        if api == "set_header_bytes":
            x = [c for c in x if c < 256]
        rjobs.append((base + i + 1, api, x, api not in ("redirect", "conn_reason", "wsgi_reason") and rng.random() < 0.3))
    traces = [t for t in framework.pool_map(_job, jobs + rjobs) if t]
    ctx.validate(FAM, "Trace_HeaderInject", "Trace_HeaderInject.cfg", traces, label="s2c+c2s", sig_fn=drv.with_kind(sig_of, base + 1), timeout=900)
    ctx.cov["rule"] = ("cases: 14 API paths (incl. reason phrase through a direct write_headers call and through WSGIContainer) x every string of length <= %d over the class alphabet (NUL, C0, HTAB, LF, CR, SP, "
                       "separators, VCHAR, DEL, C1, latin-1) plus one special code point (incl. U+010A, U+010D, U+2028) at the "
                       "start/middle/end of a benign string; plus seeded random strings up to 60 code points with classic "
                       "injection payloads, with and without a flush before finish" % ctx.pick(2, 3))
    ctx.cov["trusted_base"] += ["harness/httpw_driver.py (makes the calls, records bytes)", "specs/httpw/RespReader.tla (strict reader, TLA+)"]


def replay(ctx, rec):
    t = rec["detail"].get("trace")
    if not t:
        print("specification-level violation; rerun ./check C07")
        return 1
    t2 = drv.inj_trace(t["id"], t["cfg"]["api"], t["cfg"]["x"], t["cfg"].get("flush_first", False))
    v = ctx.validate(FAM, "Trace_HeaderInject", "Trace_HeaderInject.cfg", [t2], label="replay", sig_fn=sig_of, shards=1, timeout=900)
    bad = v[t2["id"]]
    ob = t2["ev"][1]["obs"]
    print("replay: api=%s x=%r raised=%s" % (t["cfg"]["api"], "".join(map(chr, t["cfg"]["x"])), t2["ev"][0]["obs"]))
    print("replay: wire=%r eof=%s" % (bytes(ob["out"])[:700], ob["eof"]))
    print("replay:", "REJECTED by the specification" if bad else "accepted by the specification")
    ctx.violations.clear()
    return 1 if bad else 0
