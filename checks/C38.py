"""C38 - IOLoop callbacks and timeouts run once, in order, and survive errors.

MC : specs/loop/IOLoopSched.tla (ready queue, timers, clock, explicit loop iterations, callback
     scripts that schedule / remove / raise / return failing futures), RunSync.tla, CrossThread.tla.
S2C: every program of scheduling calls up to length L enumerated by TLC is run on a real IOLoop
     (one asyncio iteration per Iterate); the observation sequence must be one of those the
     specification allows for that program (equal-deadline order and the iteration in which a
     returned future's exception is logged are left open by the contract).
C2S: seeded random programs and real multi-threaded add_callback runs, recorded and validated
     by TLC against the Trace_* specifications.

Binding demonstrated during development (scratch worktree, see notes/loop.md): call_at converting
with the asyncio clock instead of IOLoop.time(); timedelta.seconds for total_seconds(); CancelledError
logged; returned futures not observed; add_future running done futures inline; run_sync not removing
its timeout / stopping without waiting for the cancellation; add_callback dropping kwargs;
remove_timeout ignoring due timers - each reported as VIOLATION by the S2C replay; a swapped pair in a
recorded execution log / a swapped pair of runs of one thread is rejected by the trace specs.  add_callback taking the
non-thread-safe path whenever ANY loop runs in the calling thread (lost wake-up of an idle target
loop) is reported through the `stuck` event of the threaded runs (CrossThread.NoLostWakeup).
"""
import random

from harness import framework
from harness.framework import canon, jdump
from harness import loop_driver as D


def _inputs(s):
    """The controllable part of a step: iterate's / run_sync's last argument names the choice the
    specification made, not an input."""
    if s["act"] == "iterate":
        return [s["act"], []]
    if s["act"] == "run_sync":
        return [s["act"], s["args"][:3]]
    return [s["act"], s["args"]]


def group_by_program(paths):
    """Paths with the same configuration and the same sequence of (act, args) are the allowed
    alternatives of ONE program; returns [(extra + {'alts': [[exp...]...]}, path)]."""
    groups = {}
    for extra, path in paths:
        key = jdump([extra, [_inputs(s) for s in path]])
        groups.setdefault(key, []).append(path)
    out = []
    for key in sorted(groups):
        ps = groups[key]
        alts = []
        for p in ps:
            e = [s["exp"] for s in p]
            if e not in alts:
                alts.append(e)
        extra = dict(framework.json.loads(key)[0])
        extra["alts"] = alts
        out.append((extra, ps[0]))
    return out


def match_alts(alts, obs_seq):
    """None if obs_seq is one of alts; else index of the first step at which no alternative
    agreeing so far agrees any more, with the candidates' expectations at that step."""
    live = list(alts)
    for i, o in enumerate(obs_seq):
        nxt = [a for a in live if a[i] == o]
        if not nxt:
            return i, [a[i] for a in live][:3]
        live = nxt
    return None


def sched_replay_one(extra, path, variant):
    real = D.SchedReal(extra["cfg"], variant=variant)
    try:
        obs = [canon(real.step(s["act"], s["args"])) for s in path]
    finally:
        real.close()
    alts = extra.get("alts") or [[s["exp"] for s in path]]
    bad = match_alts(alts, obs)
    if bad is None:
        return None
    i, exps = bad
    s = path[i]
    o, e = obs[i], exps[0]
    return {"step": i, "act": s["act"], "args": s["args"], "exp": exps, "obs": o, "variant": variant,
            "sig": {"spec": "IOLoopSched", "act": s["act"],
                    "kinds": sorted({x["args"][-2] for x in path[:i + 1] if x["act"] in ("add_callback", "add_timeout", "add_future")}),
                    "ran_differs": o.get("ran") != e.get("ran"), "errs_differ": o.get("errs") != e.get("errs"),
                    "ferrs_differ": o.get("ferrs") != e.get("ferrs"),
                    "raised": o.get("raised"), "unexpected_log": bool(o.get("unexpected_log"))}}


def sched_replayer(extra, path):
    for v in range(_NVAR):
        r = sched_replay_one(extra, path, v)
        if r is not None:
            return r
    return None


_NVAR = 2


def runsync_replayer(extra, path):
    for v in range(2):
        real = D.RunSyncReal(extra.get("cfg"), variant=v)
        try:
            obs = [canon(real.step(s["act"], s["args"])) for s in path]
        finally:
            real.close()
        bad = match_alts(extra["alts"], obs)
        if bad is not None:
            i, exps = bad
            s = path[i]
            return {"step": i, "act": s["act"], "args": s["args"][:3], "exp": exps, "obs": obs[i], "variant": v,
                    "sig": {"spec": "RunSync", "kind_": s["args"][0], "timeout": s["args"][2] != 999,
                            "call_no": i + 1, "obs_out": obs[i]["out"], "exp_out": exps[0]["out"],
                            "elapsed_differs": obs[i]["elapsed"] != exps[0]["elapsed"], "seen_differs": obs[i]["seen"] != exps[0]["seen"],
                            "unexpected_log": bool(obs[i].get("unexpected_log"))}}
    return None


CB_KINDS = ["noop", "noop", "retval", "raise", "cancel", "failfut", "failcoro", "okcoro", "addcb", "addfut", "addto", "rm", "resolve"]
NTOP_TRACE = 12


def random_sched_trace(args):
    """A seeded random program on a real IOLoop, recorded as one event per specification action."""
    tid, seed, length = args
    rng = random.Random(seed)
    cfg = {"off": rng.choice([0, 0, 500, 1700000000])}
    real = D.SchedReal(cfg, variant=rng.randrange(4))
    ev = []
    kinds = {}          # top-level id -> how
    timers, waiting = [], []
    try:
        for _ in range(length):
            acts = ["iterate"] * 4 + ["advance"] * 2
            if real.n < NTOP_TRACE:
                acts += ["add_callback"] * 3 + ["add_timeout"] * 3 + ["add_future"]
            if timers:
                acts += ["remove"]
            if waiting:
                acts += ["resolve"]
            a = rng.choice(acts)
            if a in ("add_callback", "add_timeout", "add_future"):
                k = rng.choice(CB_KINDS if a != "add_future" else ["noop", "raise", "addcb", "failfut"])
                arg = 0
                if k == "addcb":
                    arg = rng.choice([0, 1])
                elif k == "addto":
                    arg = rng.choice([0, 1, 2, 3])
                elif k == "rm":
                    if not timers:
                        k = "noop"
                    else:
                        arg = rng.choice(timers)
                elif k == "resolve":
                    if not waiting:
                        k = "noop"
                    else:
                        arg = rng.choice(waiting)
                i = real.n + 1
                if a == "add_callback":
                    args_ = [rng.choice(D.CB_FORMS), k, arg]
                elif a == "add_timeout":
                    args_ = [rng.choice(D.TO_FORMS), rng.choice([0, 0, 1, 2, 3, 5]), k, arg]
                    timers.append(i)
                else:
                    done = rng.choice([0, 1])
                    args_ = [done, k, arg]
                    if not done:
                        waiting.append(i)
                if k == "addto":
                    timers.append(i + 100)
            elif a == "remove":
                args_ = [rng.choice(timers)]
                if args_[0] > 100 and args_[0] not in real.handles:
                    continue                      # the child timer does not exist yet
            elif a == "resolve":
                args_ = [rng.choice(waiting)]
                if real.futs[args_[0]].done():
                    waiting.remove(args_[0])
                    continue
                waiting.remove(args_[0])
            elif a == "advance":
                args_ = [rng.choice([1, 1, 2, 3])]
            else:
                args_ = []
            obs = real.step(a, args_)
            ev.append({"a": a, "args": args_, "obs": obs})
        return {"id": tid, "cfg": cfg, "ev": ev}
    finally:
        real.close()


def run(ctx):
    global _NVAR
    _NVAR = ctx.pick(2, 4)
    RICH_CB = '{"noop", "retval", "raise", "cancel", "failfut", "failcoro", "okcoro", "addcb", "addfut", "addto", "rm", "resolve"}'
    RICH_TO = '{"noop", "raise", "failfut", "addcb", "addto", "rm", "resolve"}'
    RICH_FUT = '{"noop", "raise", "addcb"}'
    ctx.mc("loop", "IOLoopSched", "MC_IOLoopSched.cfg",
           overrides=ctx.pick({}, {"KindsCb": RICH_CB, "KindsTo": RICH_TO, "KindsFut": RICH_FUT, "Delays": "{0, 1, 2}",
                                   "MaxNow": 2, "MaxIter": 4}),
           required_actions=["AddCallback", "AddTimeout", "AddFuture", "Resolve", "RemoveTimeout", "Advance", "Iterate"])
    runs = ctx.pick([{}],
                    [{"KindsCb": RICH_CB, "KindsTo": RICH_TO, "KindsFut": RICH_FUT},
                     {"NTop": 3, "KindsCb": '{"noop", "addcb"}', "KindsTo": '{"noop", "rm"}', "KindsFut": '{"noop"}'}])
    nprog = 0
    for ov in runs:
        paths = ctx.gen_paths("loop", "Gen_IOLoopSched", "Gen_IOLoopSched.cfg", overrides=ov)
        progs = group_by_program(paths)
        nprog += len(progs)
        ctx.replay(progs, sched_replayer, label="s2c-sched",
                   nontrivial=lambda e, p: any(s["act"] == "iterate" for s in p))
    ctx.note("sched_programs", nprog)
    # run_sync: every sequence of calls (function kind x duration x timeout) up to the bound
    ctx.mc("loop", "RunSync", "MC_RunSync.cfg", required_actions=["Call"])
    rs = group_by_program(ctx.gen_paths("loop", "Gen_RunSync", "Gen_RunSync.cfg",
                                        overrides=ctx.pick({}, {"Durations": "{0, 1, 2, 3}", "Timeouts": "{0, 1, 2, 999}",
                                                                "SecondKinds": '{"none", "raise", "value", "coro", "cororaise", "gencoro", "future", "swallow", "stop"}'})))
    ctx.note("runsync_programs", len(rs))
    ctx.replay(rs, runsync_replayer, label="s2c-runsync", nontrivial=lambda e, p: len(p) >= 1)
    # code -> spec: random programs (up to 12 own items, all script kinds and API forms) validated by TLC
    n = ctx.pick(150, 8000)
    traces = framework.pool_map(random_sched_trace, [(i + 1, ctx.seed * 1000003 + i, ctx.pick(40, 60)) for i in range(n)])
    ctx.validate("loop", "Trace_IOLoopSched", "Trace_IOLoopSched.cfg", traces, label="c2s-sched")
    # code -> spec, real threads: plain threads, threads inside their own running asyncio loop (calling from a
    # coroutine / from a callback of that loop) and threads running their own IOLoop add_callback numbered series
    # on an otherwise idle target loop; a third of the runs use only loop-running producers
    m = ctx.pick(30, 400)
    pure = [["asyncio_coro"], ["asyncio_cb"], ["ioloop"], ["asyncio_coro", "ioloop", "asyncio_cb"]]
    jobs = []
    for i in range(m):
        job = (i + 1, ctx.seed * 7919 + i, 2 + i % 5, ctx.pick(20, 60))
        if i % 3 == 0:
            job += (pure[(i // 3) % len(pure)],)
        jobs.append(job)
    ct = framework.pool_map(D.cross_thread_run, jobs)
    info = {t["id"]: (t.pop("gave_up"), t.pop("stuck"), t["kinds"]) for t in ct}
    ctx.note("cross_thread_runs", {"runs": m, "gave_up": sum(1 for v in info.values() if v[0]),
                                   "stuck": sum(1 for v in info.values() if v[1])})
    # A run that hit the 180 s wall-clock guard (which exists only so that nothing hangs) without the
    # state-based `stuck` condition is INCONCLUSIVE (overloaded machine), never a verdict: such runs are
    # left out of the validation; if too many are inconclusive the check fails as machinery, not as a violation.
    inconclusive = [t["id"] for t in ct if info[t["id"]][0] and not info[t["id"]][1]]
    if len(inconclusive) > max(3, m // 5):
        raise framework.Machinery("%d of %d threaded runs hit the wall-clock guard (machine overloaded)" % (len(inconclusive), m))
    ct = [t for t in ct if t["id"] not in set(inconclusive)]
    ctx.mc("loop", "CrossThread", "MC_CrossThread.cfg", required_actions=["Begin", "Added", "Run", "Sleep", "WakeUp", "Drain"])
    ctx.validate("loop", "Trace_CrossThread", "Trace_CrossThread.cfg", ct, label="c2s-threads",
                 sig_fn=lambda t, bad, l: {"spec": "CrossThread", "nt": t["cfg"]["nt"], "event": bad.get("a") if bad else None,
                                           "producer_kinds": sorted(set(info[t["id"]][2])), "gave_up": info[t["id"]][0]})
    ctx.cov["exhaustive"] = True
    ctx.cov["rule"] = ("programs: every sequence of add_callback/spawn_callback, add_timeout (absolute, timedelta) / call_later / "
                       "call_at, add_future, resolve, remove_timeout, clock advance and single loop iteration up to the Gen "
                       "bound, with callback scripts (noop, raise, failing coroutine, add_callback, add_timeout, remove_timeout, "
                       "resolve) - grouped by program; distinct = distinct program; non-trivial = contains an iteration")


def replay(ctx, rec):
    d = rec["detail"]
    if "path" in d:
        fn = runsync_replayer if d["path"] and d["path"][0]["act"] == "run_sync" else sched_replayer
        r = fn(d["extra"], d["path"])
        print("replay:", "diverges " + jdump(r) if r else "follows the specification")
        return 1 if r else 0
    print("trace replays are validated with: ./check C38 (trace stored in the replay file)")
    return 0
