"""C09 - HTTP client completes each fetch once, honours max_clients, redirects safely.

Admission (specs/httpm/ClientAdmission.tla)
  MC : all interleavings of fetch(connect/request timeout pair) / connection end (ok, failure) /
       clock advance for 4-5 fetches, max_clients 1..3; invariants: at most max_clients active, no
       idle slot while something waits, starts in submission order, each fetch delivered exactly
       once, a fetch that timed out in the queue is never started; liveness: all complete.
  S2C: every schedule up to length L replayed on a real SimpleAsyncHTTPClient whose
       _connection_class is a scripted stub (virtual time); fetch futures, start order and
       completion-delivery counts compared after every step.
  C2S: random schedules over 30 fetches, max_clients 1..5, validated by TLC.
Redirects (specs/httpm/Redirects.tla)
  MC : all chains of server answers (status x Location shape, connection drop, request timeout)
       for 4 methods x 11 header/credential sets x max_redirects 0..3 x follow on/off; invariants:
       bounded redirects, cross-origin requests carry no Authorization / Cookie / URL credentials,
       GET/HEAD bodiless; action properties: 303 / 301-302-POST rewriting, method kept otherwise,
       stripped stays stripped, completion final.
  S2C: every chain of up to 2 (3 thorough) answers replayed end to end: real _HTTPConnection over an
       in-memory TCP client (harness.memstream.MemStream); the fake server parses the request bytes
       of every hop (target host/port/TLS, method, path, Host, Authorization and Cookie values,
       body, Content-Length/Type) and the final status delivered to the caller is compared.
  C2S: random chains (max_redirects up to 8, all methods) validated by TLC.

Binding demonstrated during development (scratch worktree, see notes/httpm.md): `>=` -> `>` in
fetch_impl's capacity test, popping the queue from the right, dropping _remove_timeout in
_process_queue, dropping `and self.request.method != "HEAD"` / treating 307 like 302, skipping the
Cookie deletion, and `max_redirects - 1` -> `max_redirects` were each reported as VIOLATION.
"""
import random

from harness import framework
from harness.framework import canon
from harness.httpm_driver import AdmReal, RedirReal

NF_GEN = 4


def adm_replayer(extra, path):
    cfg = extra["cfg"]
    real = AdmReal(cfg, NF_GEN)
    try:
        for i, s in enumerate(path):
            obs = canon(real.step(s["act"], s["args"]))
            if obs != s["exp"]:
                return {"step": i, "act": s["act"], "args": s["args"], "exp": s["exp"], "obs": obs,
                        "sig": {"part": "admission", "act": s["act"], "maxc": cfg["maxc"],
                                "st_differs": obs["st"] != s["exp"]["st"], "starts_differ": obs["starts"] != s["exp"]["starts"],
                                "ncb_differs": obs["ncb"] != s["exp"]["ncb"], "err": obs.get("err"), "uncaught": obs.get("uncaught", 0)}}
        return None
    finally:
        real.close()


def adm_random_trace(args):
    tid, seed = args
    rng = random.Random(seed)
    nf = 30
    cfg = {"maxc": rng.choice([1, 2, 3, 5])}
    real = AdmReal(cfg, nf)
    ev = []
    nxt = 1
    try:
        for _ in range(rng.choice([20, 40, 70])):
            p = real.proj()
            active = [i + 1 for i, s in enumerate(p["st"]) if s == "active"]
            timed = [i for i in real.qto if p["st"][i - 1] == "queued"]
            ch = []
            if nxt <= nf:
                ch += ["fetch"] * 4
            if active:
                ch += ["finish"] * 3
            if timed:
                ch += ["advance"] * 2
            if not ch:
                break
            a = rng.choice(ch)
            if a == "fetch":
                t = rng.choice([0, 0, 1, 2, 3, 10, 20, 30, 12, 21, 33, 13, 31])
                a_ = [nxt, t]
                c, r = t // 10, t % 10
                if (c or r) and len(active) >= cfg["maxc"]:
                    real.qto.add(nxt)
                nxt += 1
            elif a == "finish":
                a_ = [rng.choice(active), rng.choice([1, 1, 0])]
            else:
                a_ = [rng.choice([1, 1, 2, 3])]
            obs = real.step(a, a_)
            ev.append({"a": a, "args": a_, "obs": obs})
        return {"id": tid, "cfg": cfg, "ev": ev}
    finally:
        real.close()


# ---------------------------------------------------------------------------------- redirects

def _red_sig(cfg, s, exp, obs):
    er, orq = exp["req"], obs.get("req", {})
    diff = sorted(k for k in er if orq.get(k) != er[k])
    for k in ("done", "hops"):
        if obs.get(k) != exp[k]:
            diff.append(k)
    leak = sorted(k for k in ("authz", "cookies") if er[k] == [] and orq.get(k))
    return {"part": "redirect", "act": s["act"], "code": s["args"][0] if s["args"] else 0,
            "loc": s["args"][1] if len(s["args"]) > 1 else 0, "method": cfg["method"],
            "diff": diff, "leak": leak, "only_leak": bool(leak) and diff == leak,
            "leak_multi_valued": bool(leak) and all(len(orq[k]) >= 2 for k in leak),
            "pending_after_failure": s["act"] in ("drop", "timeout") and obs.get("done") == 0,
            "after_redirect": exp["hops"] >= 1}


def red_replayer(extra, path):
    # every path is replayed with the redirect limit given on the request and, when it follows redirects,
    # again with the limit coming from the client's defaults (same expected behaviour)
    for via in ((0, 1) if extra["cfg"]["follow"] else (0,)):
        cfg = dict(extra["cfg"], via=via)
        real = RedirReal(cfg)
        try:
            for i, s in enumerate(path):
                obs = canon(real.step(s["act"], s["args"]))
                if obs != s["exp"]:
                    sig = _red_sig(cfg, s, s["exp"], obs)
                    return {"step": i, "act": s["act"], "args": s["args"], "exp": s["exp"], "obs": obs, "via": via, "sig": sig}
        finally:
            real.close()
    return None


def red_random_trace(args):
    tid, seed = args
    rng = random.Random(seed)
    na, nc = rng.choice([0, 0, 1, 1, 2]), rng.choice([0, 1, 1, 2])
    cfg = {"method": rng.choice(["GET", "GET", "HEAD", "POST", "POST", "PUT", "PATCH", "DELETE", "OPTIONS"]),
           "maxr": rng.choice([0, 1, 2, 3, 5, 5, 8]), "hdr": 100 * na + 10 * nc + rng.choice([0, 0, 1, 2]),
           "follow": rng.random() < 0.9}
    cfg["via"] = tid % 2
    real = RedirReal(cfg)
    ev = [{"a": "fetch", "args": [], "obs": real.proj()}]
    url_creds = cfg["hdr"] % 10 == 1
    try:
        for _ in range(12):
            r = rng.random()
            if r < 0.04:
                a, a_ = "drop", []
            elif r < 0.08:
                a, a_ = "timeout", []
            else:
                code = rng.choice([301, 302, 302, 303, 307, 308] * 3 + [200, 404, 300, 304, 500])
                loc = rng.choice([1, 1, 2, 3, 4, 5, 6, 7, 8, 0] if not url_creds else [1, 1, 8, 3, 4, 5, 6, 7, 0])
                a, a_ = "respond", [code, loc]
                if loc not in (1, 8):
                    url_creds = False
            obs = real.step(a, a_)
            ev.append({"a": a, "args": a_, "obs": obs})
            if obs["done"] != 0:
                break
        return {"id": tid, "cfg": cfg, "ev": ev}
    finally:
        real.close()


def _red_c2s_sig(t, bad, l):
    if not bad:
        return {"part": "redirect"}
    prev = None
    for e in t["ev"][:l - 1]:
        prev = e
    orq = bad["obs"].get("req", {})
    multi = [k for k in ("authz", "cookies") if len(orq.get(k, [])) >= 2]
    cross = (orq.get("host"), orq.get("port"), orq.get("ssl")) != ("a.test", 80, False)
    return {"part": "redirect", "code": bad["args"][0] if bad["args"] else 0, "loc": bad["args"][1] if len(bad["args"]) > 1 else 0,
            "method": t["cfg"]["method"],
            "cross_origin_request_carries_multi_valued": ",".join(sorted(multi)) if cross and bad["obs"]["done"] == 0 else "",
            "pending_after_failure": bad["a"] in ("drop", "timeout") and bad["obs"]["done"] == 0,
            "after_redirect": bad["obs"]["hops"] >= 1}


def run(ctx):
    # ---- admission
    ctx.mc("httpm", "ClientAdmission", "MC_ClientAdmission.cfg", timeout=ctx.pick(900, 3000), liveness=True,
           overrides=ctx.pick({}, {"NF": 5, "MaxClients": "{1, 2, 3}", "Timeouts": "{0, 1, 2, 12, 20, 21}"}),
           required_actions=["Fetch", "Finish", "Advance"])
    L = ctx.pick(5, 7)
    paths = ctx.gen_paths("httpm", "Gen_ClientAdmission", "Gen_ClientAdmission.cfg", timeout=ctx.pick(900, 3000), overrides={"L": L})
    ctx.replay(paths, adm_replayer, label="s2c-adm")
    n = ctx.pick(300, 5000)
    traces = framework.pool_map(adm_random_trace, [(i + 1, ctx.seed * 1000003 + i) for i in range(n)])
    ctx.validate("httpm", "Trace_ClientAdmission", "Trace_ClientAdmission.cfg", traces, timeout=ctx.pick(900, 3000), label="c2s-adm")
    # ---- redirects
    ctx.mc("httpm", "Redirects", "MC_Redirects.cfg", timeout=ctx.pick(900, 3000), required_actions=["Respond", "Drop", "Timeout"])
    # (method x status x Location) with multi-valued headers / URL credentials, chains of 2 responses
    pa = ctx.gen_paths("httpm", "Gen_Redirects", "Gen_Redirects.cfg", timeout=ctx.pick(900, 3000),
                       overrides=ctx.pick({"L": 2}, {"L": 3, "Methods": '{"GET", "POST"}', "MaxRs": "{2, 3}", "Codes": "{200, 302, 303, 307}"}))
    ctx.replay(pa, red_replayer, label="s2c-red")
    # (header set x Location) for two methods and two statuses
    pb = ctx.gen_paths("httpm", "Gen_Redirects", "Gen_Redirects.cfg", timeout=ctx.pick(900, 3000),
                       overrides={"L": 2, "Methods": '{"GET", "POST"}', "MaxRs": "{2}", "Codes": "{200, 302, 307}",
                                  "HdrSel": "{0, 100, 200, 10, 20, 110, 220, 120, 210, 1, 2, 101, 102, 11, 12, 221, 222, 211}"})
    ctx.replay(pb, red_replayer, label="s2c-red")
    ctx.cov["exhaustive"] = True
    n = ctx.pick(500, 8000)
    traces = framework.pool_map(red_random_trace, [(100000 + i, ctx.seed * 1000003 + 77 + i) for i in range(n)])
    ctx.validate("httpm", "Trace_Redirects", "Trace_Redirects.cfg", traces, timeout=ctx.pick(900, 3000), label="c2s-red", sig_fn=_red_c2s_sig)
    ctx.cov["rule"] = ("admission: every schedule of fetch(timeouts)/connection end (ok, failure)/clock advance up to length %d for "
                       "4 fetches and max_clients 1..2 on a real SimpleAsyncHTTPClient with a scripted connection class, plus random "
                       "recorded schedules (30 fetches); redirects: every chain of up to 2 (3 thorough) server answers "
                       "(status x Location shape, connection drop, timeout) for 4 methods x header/credential sets, end-to-end through real "
                       "_HTTPConnections over an in-memory TCP client with the request bytes of every hop parsed, plus random recorded "
                       "chains (max_redirects up to 8); distinct = distinct (configuration, event sequence)" % L)


def replay(ctx, rec):
    d = rec["detail"]
    if "path" in d:
        fn = adm_replayer if rec["sig"].get("part") == "admission" or rec["sig"].get("kind") == "s2c-adm" else red_replayer
        r = fn(d["extra"], d["path"])
        print("replay:", "diverges " + framework.jdump(r) if r else "follows the specification")
        return 1 if r else 0
    if "trace" in d:
        t = d["trace"]
        # re-execute the recorded inputs on the real client, then let TLC judge the new recording
        if "maxc" in t["cfg"]:
            real = AdmReal(t["cfg"], 30)
            try:
                t = {"id": t["id"], "cfg": t["cfg"], "ev": [{"a": e["a"], "args": e["args"], "obs": real.step(e["a"], e["args"])} for e in t["ev"]]}
            finally:
                real.close()
        else:
            real = RedirReal(t["cfg"])
            try:
                ev = [{"a": "fetch", "args": [], "obs": real.proj()}]
                ev += [{"a": e["a"], "args": e["args"], "obs": real.step(e["a"], e["args"])} for e in t["ev"][1:]]
                t = {"id": t["id"], "cfg": t["cfg"], "ev": ev}
            finally:
                real.close()
        if "maxc" in t["cfg"]:
            v = ctx.validate("httpm", "Trace_ClientAdmission", "Trace_ClientAdmission.cfg", [t], label="c2s-adm")
        else:
            v = ctx.validate("httpm", "Trace_Redirects", "Trace_Redirects.cfg", [t], label="c2s-red", sig_fn=_red_c2s_sig)
        bad = v[t["id"]]
        print("replay:", "rejected at event %d: %s" % (bad["at"], framework.jdump(bad["event"])) if bad else "accepted by the specification")
        return 1 if bad else 0
    print("replay: specification-level counterexample (re-run ./check C09)")
    return 1
