"""C47 - The WSGI container presents requests and responses faithfully.

MC : specs/httpm/Wsgi.tla - Environ(request) per the CGI conventions (percent-decoding of the
     path defined over code points, SERVER_NAME / SERVER_PORT from Host incl. bracketed IPv6, empty
     and absent port, scheme default, CONTENT_* vs HTTP_* variables, multi-line headers joined by
     ",") and the response relation (status, reason, per-name value sequences and body unchanged;
     only Content-Length / Content-Type / Server may be added, and only when absent); invariants:
     port is a number, name carries no port, name/port recombine to Host, content headers are not
     HTTP_ variables, every other header is one, decoding sane, response faithful; PerRequest.
S2C: every (request, application) pair of the tables (one request per connection, in 3 wire
     variants) and every sequence of 2-3 keep-alive requests over the reduced tables is served by a
     real WSGIContainer behind a real HTTPServer over the in-memory stream; the environ captured by
     the application must equal the specification's, the response must satisfy the relation.
C2S: random requests (random escapes, hosts, header sets, bodies) x random applications recorded from
     the real container and validated by TLC against Trace_Wsgi.

Binding demonstrated during development (scratch worktree, see notes/httpm.md): plus=True in
url_unescape, not popping Content-Type, appending the default Content-Type unconditionally, and
dropping the last body chunk were each reported as VIOLATION.
"""
import random

from harness import framework
from harness.framework import canon
from harness.httpm_driver import WsgiReal, t2s, s2t


def _host_kind(r):
    if not r["hasHost"]:
        return "absent"
    h = s2t(r["host"])
    k = "ipv6" if h.startswith("[") else "name"
    if h.endswith(":"):
        return k + "-empty-port"
    if k == "ipv6":
        return k + ("-port" if "]:" in h else "")
    return k + ("-port" if ":" in h else "")


def _rec(g):
    """records inside TLA+ sets arrive as lists of [field, value] pairs"""
    return dict((k, v) for k, v in g) if isinstance(g, list) else g


def _resp_ok(exp, obs):
    """the response relation of Wsgi.tla (Response / mayAdd) evaluated on the observed message"""
    exp = dict(exp)
    exp["groups"] = [_rec(g) for g in exp["groups"]]
    if obs.get("code") != exp["code"] or obs.get("reason") != exp["reason"] or obs.get("body") != exp["body"]:
        return False
    og = obs.get("groups", [])
    for g in exp["groups"]:
        if g not in og:
            return False
    for g in og:
        if g in exp["groups"]:
            continue
        if g["n"] not in exp["mayAdd"]:
            return False
        if s2t(g["n"]) == "content-length" and g["vs"] != [t2s(str(len(exp["body"])))]:
            return False
    return True


def _diff_keys(exp, obs):
    if not isinstance(obs, dict) or obs.get("raised"):
        return ["raised"]
    return sorted(k for k in set(exp) | set(obs) if exp.get(k) != obs.get(k))


def _replay_one(extra, path, variant):
    real = WsgiReal(extra["cfg"], variant)
    try:
        for i, s in enumerate(path):
            obs = canon(real.step(s["act"], s["args"]))
            exp = s["exp"]
            env_ok = obs["env"] == exp["env"]
            resp_ok = _resp_ok(exp["resp"], obs["resp"])
            if not (env_ok and resp_ok and obs["n"] == exp["n"] and not obs.get("uncaught")):
                r = s["args"][0]
                return {"step": i, "act": s["act"], "args": s["args"], "exp": exp, "obs": obs,
                        "sig": {"env_diff": _diff_keys(exp["env"], obs["env"]), "resp_ok": resp_ok, "host": _host_kind(r),
                                "uncaught": bool(obs.get("uncaught")), "first_request": i == 0,
                                "path_non_ascii": any(x > 127 for x in r["path"])}}
        return None
    finally:
        real.close()


def replayer(extra, path):
    for variant in (0, 15, 6):
        r = _replay_one(extra, path, variant)
        if r is not None:
            r["sig"]["variant"] = variant
            return r
    return None


# ------------------------------------------------------------------ random recorded runs (C2S)

SEGS = ["a", "b", "%20", "%41", "%2F", "%2f", "%zz", "%4", "%", "+", "%e9", "%C3%A9", "%00", "%25", "x.y", "~", "%7e", ";p=1", ","]
HOSTS = ["example.com", "example.com:8080", "example.com:", "1.2.3.4", "1.2.3.4:81", "[::1]", "[::1]:8443", "[2001:db8::2]:",
         "EXAMPLE.com:80", "a-b.test:65535", "localhost:0", "[fe80::1]:1"]
HNAMES = ["X-Foo", "x-foo-bar", "Accept", "accept", "Cookie", "X_Under", "User-Agent", "Referer", "X-A", "x-a", "If-None-Match"]
HVALS = ["bar", "1", "text/a", "text/b;q=0.5", "k=v; j=w", "caf\xe9", "a b\tc", "", "W/\"x\"", "a,b"]
RHN = ["X-A", "x-a", "B", "Set-Cookie", "Cache-Control", "Content-Type", "Content-Length", "Server", "ETag",
       "content-type", "CONTENT-TYPE", "server", "SERVER", "Content-type"]


def random_trace(args):
    tid, seed = args
    rng = random.Random(seed)
    cfg = {"proto": rng.choice(["http", "http", "https"]), "variant": rng.randrange(16)}
    real = WsgiReal(cfg, variant=cfg["variant"])
    ev = []
    try:
        for _ in range(rng.choice([1, 2, 3, 5])):
            body = bytes(rng.randrange(256) for _b in range(rng.choice([0, 0, 0, 1, 3, 20])))
            hdrs = []
            for _h in range(rng.choice([0, 1, 2, 3, 5])):
                hdrs.append([t2s(rng.choice(HNAMES)), t2s(rng.choice(HVALS))])
            if rng.random() < 0.3:
                hdrs.insert(rng.randrange(len(hdrs) + 1), [t2s("Content-Type"), t2s(rng.choice(["text/plain", "application/json; charset=utf-8"]))])
            if body:
                hdrs.insert(rng.randrange(len(hdrs) + 1), [t2s("Content-Length"), t2s(str(len(body)))])
            r = {"method": "POST" if body else rng.choice(["GET", "GET", "DELETE", "OPTIONS"]),
                 "path": t2s("/" + "/".join("".join(rng.choice(SEGS) for _s in range(rng.choice([0, 1, 2, 3]))) for _p in range(rng.choice([1, 1, 2, 3])))),
                 "query": t2s(rng.choice(["", "", "x=1", "x=%20&y=a+b", "%zz", "a=b&a=c"])),
                 "hasHost": True, "host": t2s(rng.choice(HOSTS)), "ver": "HTTP/1.1", "hdrs": hdrs, "body": list(body)}
            code = rng.choice([200, 200, 200, 201, 404, 500, 304])
            ah = []
            if code != 304:
                for _h in range(rng.choice([0, 1, 2, 4])):
                    nme = rng.choice(RHN)
                    if nme.lower() == "content-length":
                        continue
                    ah.append([t2s(nme), t2s(rng.choice(["1", "a=b; Path=/", "no-cache", "text/plain", "mine", "\"v\""]))])
            chunks = [] if code == 304 else [list(bytes(rng.randrange(256) for _b in range(rng.choice([0, 1, 2, 9])))) for _c in range(rng.choice([0, 1, 2, 3]))]
            if code != 304 and rng.random() < 0.2:
                ah.append([t2s(rng.choice(["Content-Length", "content-length", "CONTENT-LENGTH"])), t2s(str(sum(len(c) for c in chunks)))])
            a = {"code": code, "reason": t2s(rng.choice(["OK", "Created", "Not Found", "Oops", "Very Custom Reason"]) if code != 304 else "Not Modified"),
                 "hdrs": ah, "chunks": chunks, "viaWrite": rng.random() < 0.3}
            obs = canon(real.step("serve", [r, a]))
            ev.append({"a": "serve", "args": [r, a], "obs": obs})
            if obs["env"].get("raised") or obs["resp"].get("code") == 0:
                break
        return {"id": tid, "cfg": cfg, "ev": ev}
    finally:
        real.close()


def _c2s_sig(t, bad, l):
    if not bad:
        return {}
    r = bad["args"][0]
    return {"host": _host_kind(r), "raised": bool(bad["obs"]["env"].get("raised")), "first_request": l == 1,
            "resp_code": bad["obs"]["resp"].get("code"), "path_non_ascii": any(x > 127 for x in r["path"])}


def run(ctx):
    ctx.mc("httpm", "Wsgi", "MC_Wsgi.cfg", timeout=ctx.pick(900, 3000), required_actions=["Serve"])
    p1 = ctx.gen_paths("httpm", "Gen_Wsgi", "Gen_Wsgi.cfg", timeout=ctx.pick(900, 3000), overrides={"ReqSel": 1, "AppSel": ctx.pick(2, 1), "MaxReq": 1, "L": 1})
    ctx.replay(p1, replayer, label="s2c", nontrivial=lambda e, p: True)
    p1b = ctx.gen_paths("httpm", "Gen_Wsgi", "Gen_Wsgi.cfg", timeout=ctx.pick(900, 3000), overrides={"ReqSel": 2, "AppSel": 1, "MaxReq": 1, "L": 1})
    ctx.replay(p1b, replayer, label="s2c", nontrivial=lambda e, p: True)
    k = ctx.pick(2, 3)
    p2 = ctx.gen_paths("httpm", "Gen_Wsgi", "Gen_Wsgi.cfg", timeout=ctx.pick(900, 3000), overrides={"ReqSel": 2, "AppSel": 2, "MaxReq": k, "L": k, "Protos": '{"http"}'})
    ctx.replay(p2, replayer, label="s2c")
    ctx.cov["exhaustive"] = True
    n = ctx.pick(500, 10000)
    traces = framework.pool_map(random_trace, [(i + 1, ctx.seed * 1000003 + i) for i in range(n)])
    ctx.validate("httpm", "Trace_Wsgi", "Trace_Wsgi.cfg", traces, timeout=ctx.pick(900, 3000), sig_fn=_c2s_sig)
    ctx.cov["rule"] = ("paths: every request of the table (9 paths x 2 queries x 2 methods, 9 Host shapes x 2 versions, absent Host, "
                       "6 header sets, bodies with/without Content-Type) x application table x {http, https}, one per connection in 3 "
                       "wire variants, and every sequence of %d keep-alive requests over reduced tables; plus random recorded "
                       "connections; distinct = distinct (configuration, request/application sequence)" % k)


def replay(ctx, rec):
    d = rec["detail"]
    if "path" in d:
        r = replayer(d["extra"], d["path"])
        print("replay:", "diverges " + framework.jdump(r) if r else "follows the specification")
        return 1 if r else 0
    if "trace" in d:
        t = d["trace"]
        real = WsgiReal(t["cfg"], variant=t["cfg"].get("variant", 0))    # re-execute the recorded inputs
        try:
            t = {"id": t["id"], "cfg": t["cfg"], "ev": [{"a": e["a"], "args": e["args"], "obs": canon(real.step(e["a"], e["args"]))} for e in t["ev"]]}
        finally:
            real.close()
        v = ctx.validate("httpm", "Trace_Wsgi", "Trace_Wsgi.cfg", [t], sig_fn=_c2s_sig)
        bad = v[t["id"]]
        print("replay:", "rejected at event %d: %s" % (bad["at"], framework.jdump(bad["event"])) if bad else "accepted by the specification")
        return 1 if bad else 0
    print("replay: specification-level counterexample (re-run ./check C47)")
    return 1
