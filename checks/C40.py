"""C40 - Selector-thread loop never deadlocks, loses events or hangs on close.

MC  : specs/selthread/SelectorThread.tla (PlusCal: event-loop thread, selector thread, environment).
      Safety (MC_SelectorThread.cfg): exactly one select token (at most one select outstanding, the
      assertion of _start_select), mutex discipline, no lost notify, callbacks only in event-loop
      steps, no stale sleep (no lost registration), close joins a stopped thread, deadlock freedom
      (ENABLED-based invariant + TLC's deadlock check with the two resting states stuttering).
      Liveness (MCL_SelectorThread.cfg, weak fairness of the selector thread and of the obligatory
      event-loop steps): a registered fd that stays ready is dispatched again and again; close /
      atexit terminates with the selector thread stopped.
C2S : the REAL SelectorThread (real threads, real socketpairs) runs seeded random scenarios under
      the tracing shims of harness/selthread_driver.py; the totally ordered event log of every run
      is validated by TLC against Trace_SelectorThread (one event = one label step, no silent
      steps, all invariants evaluated at every step).  A run that does not finish within the
      watchdog, an exception escaping Tornado code on either thread, or a rejected log is a
      violation.  Timing never decides the order of events (harness lock), only "hang".
S2C : not done (the design lists it as a stretch); see notes/selthread.md.

Binding demonstrated during development (scratch worktree, see notes/selthread.md): dropping
_wake_selector() from add_writer / remove_reader, dropping notify() in close(), running
_handle_select directly on the selector thread, not clearing _select_args, skipping join() -
each is reported as a VIOLATION by the trace validation (and the hanging ones by the watchdog).
"""
import hashlib
import json

from harness import framework
from harness.framework import canon

SPEC = "selthread"


def _sig_of(t, bad, l):
    sig = {"thread": bad.get("t") if bad else None}
    if bad is None:
        sig["end"] = "incomplete"
    return sig


def record_runs(ctx, n, nf, nops, nenv, base):
    from harness import selthread_driver as drv
    jobs = [(i + 1, base + i, nf, nops, nenv) for i in range(n)]
    return framework.pool_map(drv.record_run, jobs)


def check_runs(ctx, runs, nf, label="c2s"):
    """Errors / hangs seen by the harness are violations by themselves; every log goes to TLC."""
    for r in runs:
        if r["hang"] or r["errors"]:
            first = (r["errors"] or ["hang"])[0]
            kind = "hang" if r["hang"] else "exception"
            ctx.violation({"kind": label + "-" + kind, "what": first.strip().splitlines()[-1][:160]},
                          {"trace": {"id": r["id"], "cfg": r["cfg"], "ev": r["ev"][-400:]}, "errors": r["errors"]})
    traces = [{"id": r["id"], "cfg": r["cfg"], "ev": r["ev"]} for r in runs if not r["hang"]]
    if traces:
        ctx.validate(SPEC, "Trace_SelectorThread", "Trace_SelectorThread.cfg", traces,
                     overrides={"NF": nf}, label=label, sig_fn=_sig_of,
                     shards=max(1, min(8, len(traces) // 10)))
    return traces


def run(ctx):
    # 1. model checking: safety + deadlock freedom, then liveness under weak fairness
    acts = ["m_init", "m_top", "m_run", "m_wk", "m_ss_acq", "m_ss_body", "m_ss_rel", "m_cl_body", "m_cl_rel",
            "m_cl_wk", "m_cl_join", "m_cl_rm", "m_cl_end", "s_acq", "s_cs", "s_woke", "s_sel_begin",
            "s_sel_end", "s_post", "e_loop"]
    ctx.mc(SPEC, "SelectorThread", "MC_SelectorThread.cfg",
           overrides=ctx.pick({"MaxChg": 2, "MaxEnv": 1}, {"MaxChg": 3, "MaxEnv": 2}),
           required_actions=acts)
    ctx.mc(SPEC, "SelectorThread", "MCL_SelectorThread.cfg",
           overrides=ctx.pick({"MaxChg": 1, "MaxEnv": 1}, {"MaxChg": 2, "MaxEnv": 2}),
           required_actions=acts)
    # 2. code -> spec: recorded runs of the real SelectorThread validated by TLC
    nf = 3
    n = ctx.pick(60, 2000)
    runs = record_runs(ctx, n, nf, nops=12, nenv=8, base=ctx.seed * 1000003 + 17)
    traces = check_runs(ctx, runs, nf)
    evs = sum(len(t["ev"]) for t in traces)
    ctx.note("recorded_events", evs)
    ctx.cov["trusted_base"] = ["TLC/SANY 1.8.0", "PlusCal translator (pcal.trans 1.12)",
                               "harness/selthread_driver.py tracing shims (ordering argument in notes/selthread.md)",
                               "Linux select()/socketpair readiness semantics"]
    ctx.assumptions.append("real OS schedules are sampled (seeded random delays at shim points), not enumerated; "
                           "the model is exhaustive within its constants")
    ctx.cov["rule"] = ("MC: all interleavings of the three processes for 2 fds, bounded registration changes and "
                       "readiness events, both shutdown paths; C2S: %d recorded runs of the real SelectorThread "
                       "(3 fds, real threads) each validated event by event by TLC; distinct = distinct event logs" % n)


def replay(ctx, rec):
    d = rec["detail"]
    if "trace" in d and d["trace"].get("ev"):
        t = d["trace"]
        v = ctx.validate(SPEC, "Trace_SelectorThread", "Trace_SelectorThread.cfg", [t],
                         overrides={"NF": t["cfg"].get("nf", 3)}, sig_fn=_sig_of, shards=1)
        bad = v.get(t["id"])
        if d.get("errors"):
            print("recorded run had errors:", d["errors"][0][:300])
        print("replay:", ("log rejected at event %s: %s" % (bad["at"], json.dumps(bad["event"]))) if bad
              else "log is accepted by the specification")
        return 1 if bad or d.get("errors") else 0
    print(json.dumps(d)[:2000])
    return 1
