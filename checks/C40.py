"""C40 - Selector-thread loop never deadlocks, loses events or hangs on close.

MC  : specs/selthread/SelectorThread.tla (PlusCal: event-loop thread, selector thread, environment).
      Safety (MC_SelectorThread.cfg): exactly one select token (at most one select outstanding, the
      assertion of _start_select), mutex discipline, no lost notify, callbacks only in event-loop
      steps, no stale sleep (no lost registration), close joins a stopped thread, the EBADF fallback
      always finds the waker readable (the selector thread never dies), deadlock freedom
      (ENABLED-based invariant + TLC's deadlock check with the two resting states stuttering).
      Quick runs safety + liveness in one TLC invocation (MCQ_SelectorThread.cfg).
      Liveness (MCL_SelectorThread.cfg, weak fairness of the selector thread and of the obligatory
      event-loop steps): a registered fd that stays ready is dispatched again and again; close /
      atexit terminates with the selector thread stopped.
C2S : the REAL SelectorThread (real threads, real socketpairs) runs seeded random scenarios under
      the tracing shims of harness/selthread_driver.py; the totally ordered event log of every run
      is validated by TLC against Trace_SelectorThread (one event = one label step, no silent
      steps, all invariants evaluated at every step).  A run that does not finish within the
      watchdog, an exception escaping Tornado code on either thread, or a rejected log is a
      violation.  Timing never decides the order of events (harness lock), only "hang".
S2C : TLC `-simulate` behaviours of the same specification (full states; with and without
      shutdown steps) are FORCED on the real threads (harness/selthread_s2c.py): every thread parks
      at its shim point before each event, the controller releases the thread whose step is next,
      and the logged event (name, thread, arguments, `_select_args` snapshot, select result, ...)
      is compared with the one the specification step implies.  Environment choices (readiness,
      legal select results and their order, when the loop delivers `_handle_select`, what callbacks
      do) are resolved by the behaviour.  The complete logs (forced prefix + free-mode epilogue)
      also go through the TLC trace validation.

Binding demonstrated during development (scratch worktree /tmp/wt-selthread, notes/selthread.md): dropping
_wake_selector() from add_writer, dropping notify() in close(), calling _start_select() before the
dispatch loop, skipping join(), testing _closing_selector only before waiting, inverting the EBADF
fallback, and skipping the wake-up while _select_args is still set - each is reported as a VIOLATION
(trace rejection and/or forcing divergence; the hanging ones also by the watchdog, the crashing ones
as exceptions on the selector thread).  Spec-level mutations (no wake after a registration change,
no notify, no wake in close) are found by TLC (NoStaleSleep / NoLostNotify / NoDeadlock + liveness).
"""
import hashlib
import json

from harness import framework
from harness.framework import canon

SPEC = "selthread"


def _sig_of(t, bad, l):
    sig = {"thread": bad.get("t") if bad else None}
    if bad is None:
        sig["end"] = "incomplete"
    return sig


def record_runs(ctx, n, nf, nops, nenv, base):
    from harness import selthread_driver as drv
    jobs = [(i + 1, base + i, nf, nops, nenv) for i in range(n)]
    return framework.pool_map(drv.record_run, jobs)


def check_runs(ctx, runs, nf, label="c2s"):
    """Errors / hangs seen by the harness are violations by themselves; every log goes to TLC."""
    for r in runs:
        if r["hang"] or r["errors"]:
            first = (r["errors"] or ["hang"])[0]
            kind = "hang" if r["hang"] else "exception"
            ctx.violation({"kind": label + "-" + kind, "what": first.strip().splitlines()[-1][:160]},
                          {"trace": {"id": r["id"], "cfg": r["cfg"], "ev": r["ev"][-400:]}, "errors": r["errors"]})
    traces = [{"id": r["id"], "cfg": r["cfg"], "ev": r["ev"]} for r in runs if not r["hang"]]
    if traces:
        ctx.validate(SPEC, "Trace_SelectorThread", "Trace_SelectorThread.cfg", traces,
                     overrides={"NF": nf}, label=label, sig_fn=_sig_of,
                     shards=max(1, min(8, len(traces) // 200)))   # JVM start dominates small shards
    return traces


def sim_behaviours(ctx, num, depth, seed):
    """TLC -simulate walks of SelectorThread.tla as lists of (action, state, next state)."""
    import os
    import shutil
    from harness import tlc
    spec_dir = os.path.join(framework.VERIF, "specs", SPEC)
    cfgp = os.path.join(spec_dir, "Sim_SelectorThread.cfg")
    d = os.path.join(ctx.scratch, "sim_%d" % seed)
    os.makedirs(d)
    r = tlc.run(spec_dir, "SelectorThread", cfgp, workers=1, timeout=ctx.pick(300, 900),
                simulate={"num": num, "file": os.path.join(d, "tr")}, depth=depth, seed=seed)
    if not r.ok:
        raise framework.Machinery("simulation reported %s" % r.violation)
    out = []
    for fn in sorted(os.listdir(d)):
        beh = tlc.read_sim_file(os.path.join(d, fn))
        steps = []
        for i in range(1, len(beh)):
            st = dict(beh[i - 1][1])
            st["_nf"] = 2
            steps.append((beh[i][0], st, beh[i][1]))
        if steps:
            out.append(steps)
    shutil.rmtree(d, ignore_errors=True)
    ctx.cov["checker_cmd"].append("tlc -simulate num=%d -depth %d -config Sim_SelectorThread.cfg SelectorThread"
                                  % (num, depth))
    return out


def force_behaviours(ctx, behs, base_id):
    """spec -> code: force each behaviour on the real threads; returns the recorded runs."""
    from harness import selthread_s2c as s2c
    jobs = [(base_id + i, 2, steps) for i, steps in enumerate(behs)]
    results = framework.pool_map(s2c.force, jobs)
    keys = []
    for (tid, nf, steps), r in zip(jobs, results):
        keys.append(hashlib.sha1(json.dumps([a for a, _, _ in steps]).encode()).hexdigest())
        dv = r.get("divergence")
        if dv:
            exp = dv.get("exp")
            ctx.violation({"kind": "s2c", "div": dv["kind"], "act": dv["act"],
                           "exp": exp.get("a") if isinstance(exp, dict) else exp},
                          {"divergence": dv, "steps": [[a, s, t] for a, s, t in steps[:dv["step"] + 1]],
                           "log_tail": r["ev"][max(0, r["forced_events"] - 12):r["forced_events"] + 2]})
    ctx.cov["traces_validated_against_impl"] += len(jobs)
    ctx.add_eval(len(jobs), distinct_keys=keys,
                 samples=[{"kind": "s2c", "actions": [a for a, _, _ in behs[0]][:40], "log": results[0]["ev"][:12]}]
                 if behs else ())
    ctx.note("forced_steps", ctx.cov.get("forced_steps", 0) + sum(len(b) for b in behs))
    return results


def run(ctx):
    import time
    t0 = time.time()
    # 1. model checking: safety + deadlock freedom, then liveness under weak fairness
    acts = ["m_init", "m_top", "m_run", "m_wk", "m_ss_acq", "m_ss_body", "m_ss_rel", "m_cl_body", "m_cl_rel",
            "m_cl_wk", "m_cl_join", "m_cl_rm", "m_cl_end", "s_acq", "s_cs", "s_woke", "s_sel_begin",
            "s_sel_end", "s_poll_begin", "s_poll_end", "s_post", "e_loop"]
    if ctx.quick:
        # one TLC run: invariants (NoDeadlock covers terminal states too) + liveness on FairSpec
        ctx.mc(SPEC, "SelectorThread", "MCQ_SelectorThread.cfg", required_actions=acts)
    else:
        ctx.mc(SPEC, "SelectorThread", "MC_SelectorThread.cfg", overrides={"MaxChg": 3, "MaxEnv": 2, "MaxClose": 1},
               required_actions=acts)
        noclose = [a for a in acts if not a.startswith("s_poll")]
        ctx.mc(SPEC, "SelectorThread", "MC_SelectorThread.cfg", overrides={"MaxChg": 4, "MaxEnv": 3, "MaxClose": 0},
               required_actions=noclose)
        ctx.mc(SPEC, "SelectorThread", "MC_SelectorThread.cfg",
               overrides={"NF": 3, "MaxChg": 3, "MaxEnv": 2, "MaxClose": 0}, required_actions=noclose)
        ctx.mc(SPEC, "SelectorThread", "MC_SelectorThread.cfg",
               overrides={"MaxChg": 3, "MaxEnv": 2, "MaxW": 3, "WFull": 3, "RecvMax": 2, "MaxClose": 0},
               required_actions=noclose)
        ctx.mc(SPEC, "SelectorThread", "MCL_SelectorThread.cfg", overrides={"MaxChg": 3, "MaxEnv": 2, "MaxClose": 0},
               required_actions=noclose)
        ctx.mc(SPEC, "SelectorThread", "MCL_SelectorThread.cfg", overrides={"MaxChg": 2, "MaxEnv": 1, "MaxClose": 1},
               required_actions=acts)
    ctx._phase("mc", t0)
    t0 = time.time()
    # 2. code -> spec: recorded runs of the real SelectorThread validated by TLC
    nf = 3
    n = ctx.pick(50, 1000)
    runs = record_runs(ctx, n, nf, nops=12, nenv=8, base=ctx.seed * 1000003 + 17)
    ctx._phase("record", t0)
    t0 = time.time()
    # 3. spec -> code: TLC behaviours forced on the real threads
    k = ctx.pick(200, 2000)
    depth = ctx.pick(100, 160)
    # HowSets = {{}, {"close", "atexit"}}: about half of the walks never shut down (long, closed by the
    # free-mode epilogue), the others shut down at a random point
    behs = sim_behaviours(ctx, k, depth, ctx.seed + 11)
    ctx._phase("simulate", t0)
    t0 = time.time()
    forced = force_behaviours(ctx, behs, 100000)
    ctx._phase("force", t0)
    t0 = time.time()
    traces = check_runs(ctx, runs + forced, nf)
    ctx.cov["traces_validated_against_impl"] -= len(forced)      # forced runs were already counted once
    ctx._phase("validate", t0)
    evs = sum(len(t["ev"]) for t in traces)
    ctx.note("recorded_events", evs)
    ctx.cov["trusted_base"] = ["TLC/SANY 1.8.0", "PlusCal translator (pcal.trans 1.12)",
                               "harness/selthread_driver.py tracing shims (ordering argument in notes/selthread.md)",
                               "Linux select()/socketpair readiness semantics"]
    ctx.assumptions.append("real OS schedules are sampled (seeded random delays at shim points), not enumerated; "
                           "the model is exhaustive within its constants")
    ctx.cov["rule"] = ("MC: all interleavings of the three processes for 2 fds, bounded registration changes and "
                       "readiness events, both shutdown paths; C2S: %d recorded runs of the real SelectorThread "
                       "(3 fds, real threads) each validated event by event by TLC; S2C: %d TLC simulation "
                       "behaviours (depth <= %d, 2 fds) forced step by step on the real threads; distinct = distinct "
                       "event logs / action sequences" % (n, len(behs), depth))


def replay(ctx, rec):
    d = rec["detail"]
    if "steps" in d:
        from harness import selthread_s2c as s2c
        steps = [(a, dict(s_, _nf=2), t) for a, s_, t in d["steps"]]
        r = s2c.force((1, 2, steps))
        print("replay:", ("diverges " + json.dumps(canon(r["divergence"]))[:1500]) if r["divergence"]
              else "the real threads follow the behaviour")
        return 1 if r["divergence"] or r["errors"] else 0
    if "trace" in d and d["trace"].get("ev"):
        t = d["trace"]
        v = ctx.validate(SPEC, "Trace_SelectorThread", "Trace_SelectorThread.cfg", [t],
                         overrides={"NF": t["cfg"].get("nf", 3)}, sig_fn=_sig_of, shards=1)
        bad = v.get(t["id"])
        if d.get("errors"):
            print("recorded run had errors:", d["errors"][0][:300])
        print("replay:", ("log rejected at event %s: %s" % (bad["at"], json.dumps(bad["event"]))) if bad
              else "log is accepted by the specification")
        return 1 if bad or d.get("errors") else 0
    print(json.dumps(d)[:2000])
    return 1
