"""C45 - Log formatting never fails and cannot forge log entries.

MC : specs/text/LogFormat.tla - record shapes (str/bytes message x %-argument kinds x exception
     kinds x colour) x messages built from the token table; the relation LogOk is shown
     satisfiable by the indentation model (T_IndentSuffices).
S2C: every enumerated record goes through the real tornado.log.LogFormatter.format; TLC judges
     every recorded output with LogOk (returned a str; every LF followed by four spaces).
C2S: seeded random messages (arbitrary Unicode, arbitrary bytes, random directive soup) with
     random shapes, validated by TLC the same way.

Binding demonstrated during development (scratch worktree, notes/text.md): indentation of three
spaces instead of four; `except Exception` narrowed to UnicodeError, and (independent seeded change)
to (TypeError, ValueError) around getMessage - a `%(k)s` message with a dict lacking the key
(KeyError) or an argument whose __str__ raises RuntimeError then escapes format(); each reported.
"""
import random

from harness import text_driver as td

MODULE = "LogFormat"
ARGS = ["none", "str", "two", "bytes", "nl", "dict", "raises"]
EXCS = ["none", "simple", "multiline", "bytes", "pretext"]


def random_items(seed, n):
    rng = random.Random(seed)
    items = []
    for _ in range(n):
        cfg = {"form": rng.choice(["str", "bytes"]), "args": rng.choice(ARGS), "exc": rng.choice(EXCS),
               "color": rng.random() < 0.3}
        if cfg["form"] == "bytes":
            x = list(td.rand_bytes(rng, [b"a", b"\n", b"\r\n", b"%s", b"%d", b"%", b"\xe9", b"\xff", b"%(x)s", b"%(k)s", b"\n\n",
                                         b" ", b"%5.2f", b"%%"], 30, 0.2))
        else:
            x = td.cps(td.rand_text(rng, ["a", "\n", "\r\n", "%s", "%d", "%", "é", "%(x)s", "%(k)s", "%r", "\n\n", " ", "%5.2f", "%%",
                                          "\n[E 250101 00:00:00 web:1] forged", "\x1b[0m", " "], 30, 0.2))
        items.append((cfg, [("format", x)]))
    return items


def run(ctx):
    ctx.mc("text", MODULE, "MC_LogFormat.cfg", timeout=ctx.pick(900, 1500), overrides={"MaxTok": ctx.pick(1, 2)}, required_actions=["Extend"])
    ntok = ctx.pick(2, 3)
    ov = {"MaxTok": ntok}
    if ctx.quick:       # all message types and argument kinds; three of the five exception kinds
        ov["ExcKinds"] = '{"none", "multiline", "bytes"}'
        ov["Colors"] = "{FALSE}"            # colour on is exercised by the random records
    states = ctx.gen_states("text", MODULE, "Gen_LogFormat.cfg", timeout=ctx.pick(900, 1500), overrides=ov)
    paths, rel_items = td.paths_from_states(states)
    assert not paths
    rel_traces = td.record(MODULE, rel_items)
    ctx.cov["exhaustive"] = True
    items = random_items(ctx.seed * 7919 + 45, ctx.pick(600, 20000))
    traces = td.record(MODULE, items)
    td.validate_both(ctx, MODULE, "Trace_LogFormat", "Trace_LogFormat.cfg", rel_traces, traces)
    ctx.cov["rule"] = ("records: 2 message types x 6 argument kinds x 5 exception kinds x colour on/off x every message of "
                       "<= %d tokens of the token table (LF, CR LF, %%s, %%d, %%, non-ASCII, 0xFF, forged prefix); plus seeded "
                       "random messages <= 30 symbols with arbitrary Unicode / bytes; every output judged by TLC" % ntok)
    ctx.cov["trusted_base"] += ["harness/text_driver.py adapters (LogRecord construction; colour enabled through module-level "
                                "_stderr_supports_color / curses shims)", "stdlib logging.Formatter (opaque)"]


def replay(ctx, rec):
    return td.replay_record(ctx, MODULE, "Trace_LogFormat", "Trace_LogFormat.cfg", rec)
