"""C25 - Outgoing cookies are emitted exactly as set.

MC : specs/websec/Cookies.tla.  The machine keeps the jar of successful settings; Flush renders
     every entry with the documented quoting transducer and attribute rendering.  TLC checks, for
     all names / values / domain / path / samesite strings up to a bound over a class alphabet
     (separators ; , = " \\, SP, LF, DEL, a latin-1 letter, a code point above 0xFF, a digit),
     all flag combinations and all call sequences up to a bound, that the request-side parser
     reads every rendered pair back as exactly {name |-> value}, that a client sees exactly the
     requested attributes, and that there is one line per name (last setting wins).
S2C: every program (calls + flush) enumerated by TLC runs on a real RequestHandler over the
     in-memory server; the raised flags, the Set-Cookie values on the wire, the real
     parse_cookie() of each emitted pair and the cookies a real following request exposes are
     recorded and judged by TLC (Trace_Cookies: Faithful / Acceptable, whatever quoting the code
     chose; a call may raise at will).
C2S: seeded random programs (set_cookie, clear_cookie, set_signed_cookie; long values with
     controls, latin-1 and astral code points; random attributes) judged the same way.

Binding demonstrated during development (notes/websec.md): removing `del self._new_cookie[name]`
bookkeeping so that both settings are emitted, dropping ';' from the attribute check, and an
off-by-one in _unquote_cookie's quote stripping were each reported as VIOLATION.
"""
import time

from harness import framework
from harness import websec_cookies as C


def _sig(t, bad, l):
    if not bad:
        return {}
    if bad["a"] == "flush":
        o = bad["obs"]
        sets = [e for e in t["ev"][:l - 1] if e["a"] == "set" and not e["obs"]["raised"]]
        wide = any(c > 255 for e in sets for c in (e["args"][1] + e["args"][2]["domain"] + e["args"][2]["path"] + e["args"][2]["samesite"]))
        return {"what": "flush", "source": "tlc-program" if t["id"] < 100000 else "random-program", "status": o["status"], "nlines": min(len(o["lines"]), 3), "njar_le_lines": len(sets) <= len(o["lines"]),
                "non_latin1_setting": wide, "apis": sorted({e["obs"]["api"] for e in sets})}
    return {"what": "set"}


def run(ctx):
    ctx.mc("websec", "Cookies", "MC_Cookies.cfg", required_actions=["SetValue", "SetAttrs", "Flush"],
           overrides=None)
    if not ctx.quick:
        ctx.mc("websec", "Cookies", "MC_Cookies_2.cfg", required_actions=["SetValue", "SetAttrs", "Flush"])
        from harness import websec_driver as W
        import os
        ctx.mc(W.SPEC_DIR, "Cookies", os.path.relpath(W.cfg_with(ctx, "MC_Cookies.cfg", {"ValueSet": "Values3"}), W.SPEC_DIR),
               required_actions=["SetValue", "Flush"])
    import os
    from harness import websec_driver as W
    gcfg = W.cfg_with(ctx, "Gen_Cookies.cfg", ctx.pick({"NameSet": "NamesQ"}, {"ValueSet": "Values3"}))
    paths = ctx.gen_paths(W.SPEC_DIR, "Gen_Cookies", os.path.relpath(gcfg, W.SPEC_DIR), timeout=ctx.pick(900, 1500))
    paths += ctx.gen_paths("websec", "Gen_Cookies", "Gen_Cookies_2.cfg", timeout=ctx.pick(900, 1500))
    progs = [p for e, p in paths if p and p[-1]["act"] == "flush"]
    t0 = time.time()
    traces = framework.pool_map(C.trace_of_path, [(i + 1, p) for i, p in enumerate(progs)])
    ctx._phase("run-programs", t0)
    ctx.cov["exhaustive"] = True
    n = ctx.pick(300, 4000)
    t0 = time.time()
    rnd = framework.pool_map(C.random_program, [(100000 + i, ctx.seed * 1000003 + i, 1 + i % 4) for i in range(n)])
    ctx._phase("run-random", t0)
    t0 = time.time()
    # one validation batch for the TLC-enumerated programs (ids < 100000) and the random ones
    ctx.validate("websec", "Trace_Cookies", "Trace_Cookies.cfg", traces + rnd, label="trace", sig_fn=_sig,
                 shards=ctx.pick(6, None))
    ctx._phase("validate", t0)
    ctx.cov["rule"] = ("program = sequence of set_cookie calls + flush enumerated by TLC (all names x values / attribute "
                       "strings up to length 2-3 over the class alphabet; all pairs of calls over a small set), plus seeded "
                       "random programs over three APIs; distinct = distinct call sequences")
    ctx.cov["trusted_base"] += ["harness/httpsim.py request/response plumbing", "Set-Cookie header extraction (split on first ';')"]
    ctx.assumptions += ["expires values are opaque (presence only; expires_days in {unset, 0, 1, 30} must yield an expires attribute); max_age=0 may yield Max-Age=0 or nothing (disputed); deprecated **kwargs are not generated",
                        "a client strips only SP / HTAB around attribute names and values"]


def replay(ctx, rec):
    d = rec["detail"]
    t = d.get("trace")
    if t:
        ops = [(e["obs"].get("api", "set_cookie"), e["args"][0], e["args"][1], e["args"][2]) for e in t["ev"] if e["a"] == "set"]
        ev = C.run_program([o for o in ops if o[0] == "set_cookie"]) if all(o[0] == "set_cookie" for o in ops) else t["ev"]
        print(framework.jdump(ev)[:3000])
        return 1
    return 0
