"""C33 - Locks and semaphores never over-grant, lose wakeups or skip the queue.

MC : specs/sync/Semaphore.tla, all interleavings of acquire/release/advance/cancel over 4 waiters.
S2C: every operation sequence up to length L (TLC path enumeration) replayed on the real
     Semaphore / BoundedSemaphore / Lock on the virtual loop; projection compared after every step.
C2S: seeded random runs (8+ waiters, long histories crossing the garbage-collect threshold)
     recorded from the real objects and validated by TLC against Trace_Semaphore.
"""
import random

from harness import framework
from harness.framework import canon
from harness.sync_driver import SemReal, NOTO
from harness.sync_modes import SemRealModes

NW_GEN = 4


def _replay_one(extra, path, variant=0):
    cfg = extra["cfg"]
    real = SemReal(cfg, NW_GEN, absolute=bool(variant & 1))
    try:
        for i, s in enumerate(path):
            obs = canon(real.step(s["act"], s["args"]))
            if obs != s["exp"]:
                return {"step": i, "act": s["act"], "args": s["args"], "exp": s["exp"], "obs": obs,
                        "sig": {"act": s["act"], "kind_": cfg["kind"], "exp_err": s["exp"]["err"], "obs_err": obs["err"],
                                "st_differs": obs["st"] != s["exp"]["st"], "grants_differ": obs["grants"] != s["exp"]["grants"]}}
        return None
    finally:
        real.close()


def _replay_mode(extra, path, mode):
    cfg = extra["cfg"]
    cancelled = [s["args"][0] for s in path if s["act"] == "cancel"]
    real = SemRealModes(cfg, NW_GEN, mode, cancelled_waiters=cancelled)
    try:
        for i, s in enumerate(path):
            obs = canon(real.step(s["act"], s["args"]))
            if obs != s["exp"]:
                return {"step": i, "act": s["act"], "args": s["args"], "exp": s["exp"], "obs": obs, "mode": mode,
                        "sig": {"act": s["act"], "kind_": cfg["kind"], "mode": mode, "exp_err": s["exp"]["err"], "obs_err": obs["err"],
                                "st_differs": obs["st"] != s["exp"]["st"], "grants_differ": obs["grants"] != s["exp"]["grants"]}}
        return None
    finally:
        real.close()


def replayer(extra, path):
    """plain calls, timedelta timeouts and absolute deadlines"""
    r = _replay_one(extra, path, 0)
    if r is None:
        r = _replay_one(extra, path, 1)
    return r


def replayer_modes(extra, path):
    """the same behaviours through `async with` and the legacy `with (yield acquire())` form"""
    r = _replay_mode(extra, path, "async_with")
    if r is None:
        r = _replay_mode(extra, path, "legacy")
    return r


def timeout_heavy_trace(args):
    """More than 100 timed-out acquires while live waiters are queued: crosses the lazy clean-up of
    _TimeoutGarbageCollector (every 100 timeouts), then releases - grants must still be oldest-first."""
    tid, seed, nw, length = args
    rng = random.Random(seed)
    kind = rng.choice(["sem", "bounded", "lock"])
    cfg = {"kind": kind, "init": 1}
    real = SemReal(cfg, nw, absolute=rng.random() < 0.5)
    ev = []
    nxt = 1

    def do(a, args_):
        ev.append({"a": a, "args": args_, "obs": real.step(a, args_)})
    try:
        do("acquire", [nxt, NOTO]); nxt += 1                     # takes the permit
        live = rng.choice([2, 3, 4])
        n_to = rng.choice([101, 103, 110])
        placed = 0
        for k in range(n_to):
            if placed < live and rng.random() < 0.5 * (placed + 1) / (k + 1) + (0.6 if k in (0, 50, 100) else 0):
                do("acquire", [nxt, NOTO]); nxt += 1; placed += 1
            do("acquire", [nxt, 1]); nxt += 1
            do("advance", [1])
        while placed < live:
            do("acquire", [nxt, NOTO]); nxt += 1; placed += 1
        for _ in range(live + 2):
            do("release", [])
        return {"id": tid, "cfg": cfg, "ev": ev}
    finally:
        real.close()


def random_trace(args):
    tid, seed, nw, length = args
    if tid % 12 == 0:
        return timeout_heavy_trace(args)
    rng = random.Random(seed)
    kind = rng.choice(["sem", "sem", "bounded", "lock"])
    init = 1 if kind == "lock" else rng.choice([0, 1, 2, 3])
    cfg = {"kind": kind, "init": init}
    real = SemReal(cfg, nw, absolute=rng.random() < 0.5)
    ev = []
    nxt = 1
    try:
        for _ in range(length):
            pend = [w for w, f in real.futs.items() if not f.done()]
            choices = ["release"] * 3
            if nxt <= nw:
                choices += ["acquire"] * 4
            if pend:
                choices += ["cancel"]
            if any(real.dl.get(w) is not None for w in pend):
                choices += ["advance"] * 2
            a = rng.choice(choices)
            if a == "acquire":
                to = rng.choice([NOTO, NOTO, 0, 1, 2, 3, 5])
                args_ = [nxt, to]
                nxt += 1
            elif a == "release":
                args_ = []
            elif a == "cancel":
                args_ = [rng.choice(pend)]
            else:
                d = rng.choice([1, 1, 2, 3])
                args_ = [d]
            obs = real.step(a, args_)
            ev.append({"a": a, "args": args_, "obs": obs})
        return {"id": tid, "cfg": cfg, "ev": ev}
    finally:
        real.close()


def run(ctx):
    # 1. model checking of the specification
    ctx.mc("sync", "Semaphore", "MC_Semaphore.cfg",
           overrides=ctx.pick({}, {"NW": 5, "Timeouts": "{0, 1, 2, 3, 999}", "MaxAdvance": 3}),
           required_actions=["Acquire", "Release", "Advance", "Cancel"])
    # 2. spec -> code: all paths up to L
    L = ctx.pick(5, 6)
    paths = ctx.gen_paths("sync", "Gen_Semaphore", "Gen_Semaphore.cfg", overrides={"L": L})
    ctx.replay(paths, replayer, nontrivial=lambda e, p: len(p) >= 2 and any(s["act"] != "advance" for s in p))
    ctx.cov["exhaustive"] = True
    paths_m = ctx.gen_paths("sync", "Gen_Semaphore", "Gen_Semaphore.cfg", overrides={"L": L - 1})
    ctx.replay(paths_m, replayer_modes, label="s2c-modes")
    # long seeded walks through larger constants
    sims = ctx.sim_paths("sync", "Gen_Semaphore", "Gen_Semaphore.cfg", num=ctx.pick(200, 1500), depth=40,
                         overrides={"L": 40, "NW": 4, "MaxValue": 6})
    ctx.replay(sims, replayer, label="s2c-sim")
    ctx.replay(sims, replayer_modes, label="s2c-sim-modes")
    # 3. code -> spec: random recorded runs validated by TLC
    n = ctx.pick(300, 3000)
    nw = 120
    jobs = [(i + 1, ctx.seed * 1000003 + i, nw, ctx.pick(120, 220)) for i in range(n)]
    traces = framework.pool_map(random_trace, jobs)
    ctx.validate("sync", "Trace_Semaphore", "Trace_Semaphore.cfg", traces, overrides={"NW": nw})
    ctx.cov["rule"] = ("paths: every sequence of acquire(timeout in {0,1,none})/release/advance(1..2)/cancel up to length %d "
                       "per kind/initial value, plus seeded TLC simulation walks (depth 40) and random recorded runs; "
                       "distinct = distinct (config, operation sequence); non-trivial = length >= 2 with a non-advance op" % L)


def replay(ctx, rec):
    d = rec["detail"]
    if "path" in d:
        r = replayer(d["extra"], d["path"]) or replayer_modes(d["extra"], d["path"])
        print("replay:", "diverges " + framework.jdump(r) if r else "follows the specification")
        return 1 if r else 0
    print("trace replays are validated with: ./check C33 (trace stored in the replay file)")
    return 0
