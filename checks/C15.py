"""C15 - WebSocket peers that violate the protocol are cut off without bad data.

MC : specs/ws/WsReceiver.tla (reference RFC 6455 / RFC 7692 receiver over the WsFrameCodec header
     codec, with max_message_size) - the peer's own bookkeeping (messages it completed before
     its first violation, which violation it committed) is related to the receiver machine:
     ViolationAborts, OnlyViolationAborts, DeliveredAreCompleted, SizeAnnounced, NothingAfterEnd.
S2C: every frame sequence up to length L that TLC enumerates (valid frames of catalogue messages
     around the limit - limit / limit+1, plain and compressed, invalid UTF-8 - cut into pieces,
     pings / pongs / close in every gap, and one violation of every kind at every position:
     RSV1/2/3, reserved opcodes, fragmented / oversized control frames, continuation without
     start, data frame inside a fragmented message) is fed as real bytes (header bytes from the
     TLA+ codec) into the real WebSocketProtocol13 in the server role (web.Application +
     WebSocketHandler over ServerConn) and in the client role (websocket_connect over a MemStream)
     under varying deflate parameters and TCP segmentations; deliveries, stream closed, 1009
     close frame and pongs are compared with the specification after every frame.
C2S: seeded random frame sequences (longer, bigger catalogue) recorded from the real receiver
     and validated by TLC against Trace_WsReceiver.
"""
import hashlib
import os
import random
import time

from harness import framework
from harness.framework import canon, jdump
from harness import ws_driver as W

LIMIT = 130
_CAT = None


def cat():
    global _CAT
    if _CAT is None:
        _CAT = W.catalog_limits(LIMIT)
    return _CAT


def expand(paths, seed, nvar=2):
    """One replay item per (path, variant): role alternates, the rest is derived from a hash."""
    out = []
    for extra, path in paths:
        h = int(hashlib.sha1(jdump([extra, [s["args"] for s in path], seed]).encode()).hexdigest()[:8], 16)
        for k in range(nvar):
            v = {"role": ("server", "client")[k % 2], "mode": ("cb", "read")[(h >> 3) & 1], "grid": (h >> 4) % 7 + k,
                 "chunk": (h + k) % 4, "seed": h % 100000 + k}
            e = dict(extra)
            e["variant"] = v
            out.append((e, path))
    return out


def _len_class(n):
    return "0" if n == 0 else ("<=125" if n <= 125 else ">125")


def make_sig(cfg, v, path, i, exp, obs):
    f = path[i]["args"][0]
    in_frag = frag_comp = ctl_in_frag = False
    for p in path[:i]:
        g = p["args"][0]
        if p["exp"]["closed"]:
            break
        if g["op"] in (1, 2):
            in_frag, frag_comp, ctl_in_frag = g["fin"] == 0, g["rsv"] >= 4, False
        elif g["op"] == 0 and g["fin"] == 1:
            in_frag = frag_comp = ctl_in_frag = False
        elif g["op"] >= 8 and in_frag:
            ctl_in_frag = True
    return {"role": v["role"], "deflate": cfg["deflate"],
            "frame": {"op": f["op"], "rsv": f["rsv"], "fin": f["fin"], "len_class": _len_class(f["len"]), "mid": f["mid"]},
            "in_frag": in_frag, "frag_comp": frag_comp, "ctl_in_frag": ctl_in_frag,
            "differs": sorted(k for k in exp if exp[k] != obs.get(k)),
            "exp_closed": exp["closed"], "obs_closed": obs["closed"],
            "exp_1009": exp["sent1009"], "obs_1009": obs["sent1009"]}


def replayer(extra, path):
    from harness.httpsim import LogCapture
    cfg, v = extra["cfg"], extra["variant"]
    c = cat()
    with LogCapture():
        real = W.ReceiverReal(cfg, c, role=v["role"], mode=v["mode"], grid=v["grid"], chunk_mode=v["chunk"], seed=v["seed"])
        try:
            for i, s in enumerate(path):
                obs = canon(real.step(s["act"], s["args"]))
                exp = dict(s["exp"])
                exp["delivered"] = c.canon_delivered(exp["delivered"])
                if obs != exp:
                    return {"step": i, "act": s["act"], "args": s["args"], "exp": exp, "obs": obs,
                            "sig": make_sig(cfg, v, path, i, exp, obs)}
            return None
        finally:
            real.close()


def coverage_names(out):
    """Per-action totals from TLC's -coverage output (also the entries carrying a sub-location
    suffix, which harness.tlc's pattern skips)."""
    import re
    cov = {}
    for m in re.finditer(r"^<(\w+) line \d+, col \d+ to line \d+, col \d+ of module \w+(?: \([\d ]+\))?>: (\d+):(\d+)", out, re.M):
        cov[m.group(1)] = cov.get(m.group(1), 0) + int(m.group(3))
    return cov


def run(ctx):
    c = cat()
    os.environ["WS_CATALOG"] = c.write(os.path.join(ctx.scratch, "catalog.ndjson"))
    t0 = time.time()
    r = ctx.mc("ws", "MC_WsReceiver", "MC_WsReceiver.cfg", env={"WS_CATALOG": os.environ["WS_CATALOG"]},
               overrides=ctx.pick({}, {"MaxDelivered": 3, "PieceKinds": '{"zero", "one", "half"}'}),
               required_actions=["SendData", "SendClose", "SendAfter"])
    cov = coverage_names(r.out)
    for a in ("SendPing", "SendPong", "SendViolation"):
        if not cov.get(a):
            raise framework.Machinery("vacuity: action %s of WsReceiver never taken" % a)
        ctx.cov["coverage_by_action"]["MC_WsReceiver." + a] = cov[a]
    ctx._phase("mc", t0)
    t0 = time.time()
    paths = ctx.gen_paths("ws", "Gen_WsReceiver", "Gen_WsReceiver.cfg",
                          overrides=ctx.pick({"L": 3}, {"L": 4, "BadOps": "{3, 4, 5, 6, 7, 11, 12, 13, 14, 15}"}))
    ctx._phase("gen", t0)
    t0 = time.time()
    ctx.replay(expand(paths, ctx.seed), replayer)
    ctx._phase("s2c", t0)
    ctx.cov["exhaustive"] = True
    ctx.cov["trusted_base"] += ["harness/ws_driver.py frame plumbing (build_frame / split_frames / xor_mask)",
                                "zlib as the opaque permessage-deflate codec (catalogue wire lengths)"]
    ctx.cov["rule"] = ("paths: every frame sequence of length <= %d over the catalogue around max_message_size=%d "
                       "(valid pieces, pings/pongs/close, one violation of each kind), each replayed in the server and the "
                       "client role under hashed deflate-parameter / segmentation variants; distinct = distinct "
                       "(config, variant, frame sequence)" % (ctx.pick(3, 4), LIMIT))


def replay(ctx, rec):
    d = rec["detail"]
    if "path" in d:
        r = replayer(d["extra"], d["path"])
        print("replay:", "diverges " + framework.jdump(r) if r else "follows the specification")
        return 1 if r else 0
    return 0
