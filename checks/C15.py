"""C15 - WebSocket peers that violate the protocol are cut off without bad data.

MC : specs/ws/WsReceiver.tla (reference RFC 6455 / RFC 7692 receiver over the WsFrameCodec header
     codec, with max_message_size) - the peer's own bookkeeping (messages it completed before
     its first violation, which violation it committed) is related to the receiver machine:
     ViolationAborts, OnlyViolationAborts, DeliveredAreCompleted, SizeAnnounced, NothingAfterEnd.
S2C: every frame sequence up to length L that TLC enumerates (valid frames of catalogue messages
     around the limit - limit / limit+1, plain and compressed, invalid UTF-8 - cut into pieces,
     pings / pongs / close in every gap, and one violation of every kind at every position:
     RSV1/2/3, reserved opcodes, fragmented / oversized control frames, continuation without
     start, data frame inside a fragmented message) is fed as real bytes (header bytes from the
     TLA+ codec) into the real WebSocketProtocol13 in the server role (web.Application +
     WebSocketHandler over ServerConn) and in the client role (websocket_connect over a MemStream)
     under varying deflate parameters and TCP segmentations; deliveries, stream closed, 1009
     close frame and pongs are compared with the specification after every frame.
C2S: seeded random frame sequences (longer, bigger catalogue) recorded from the real receiver
     and validated by TLC against Trace_WsReceiver.

Binding demonstrated in a scratch worktree (notes/ws.md): control-length check `>= 126` -> `> 126`,
the "data frame inside a fragmented message" abort removed, UTF-8 decoding with "replace", and
`new_len > max` -> `>=` are each reported; an incomplete version of the F07 fix was rejected too.
"""
import hashlib
import os
import random
import time

from harness import framework
from harness.framework import canon, jdump
from harness import ws_driver as W

LIMIT = 130
_CAT = None


def cat():
    global _CAT
    if _CAT is None:
        _CAT = W.catalog_limits(LIMIT)
    return _CAT


def expand(paths, seed, nvar=2):
    """One replay item per (path, variant): role alternates (nvar=1: role chosen by the hash), the
    rest is derived from a hash."""
    out = []
    for extra, path in paths:
        h = int(hashlib.sha1(jdump([extra, [s["args"] for s in path], seed]).encode()).hexdigest()[:8], 16)
        for k in range(nvar):
            v = {"role": ("server", "client")[(k + (h >> 11 if nvar == 1 else 0)) % 2], "mode": ("cb", "read")[(h >> 3) & 1], "grid": (h >> 4) % 7 + k,
                 "chunk": (h + k) % 4, "seed": h % 100000 + k}
            e = dict(extra)
            e["variant"] = v
            out.append((e, path))
    return out


def _op_class(op):
    if op == 0:
        return "continuation"
    if op in (1, 2):
        return "data"
    if op in (8, 9, 10):
        return "control"
    return "reserved-data" if op < 8 else "reserved-control"


def _len_class(n):
    return "0" if n == 0 else ("<=125" if n <= 125 else ">125")


def make_sig(cfg, v, path, i, exp, obs):
    f = path[i]["args"][0]
    in_frag = frag_comp = ctl_in_frag = False
    for p in path[:i]:
        g = p["args"][0]
        if p["exp"]["closed"]:
            break
        if g["op"] in (1, 2):
            in_frag, frag_comp, ctl_in_frag = g["fin"] == 0, g["rsv"] >= 4, False
        elif g["op"] == 0 and g["fin"] == 1:
            in_frag = frag_comp = ctl_in_frag = False
        elif g["op"] >= 8 and in_frag:
            ctl_in_frag = True
    return {"role": v["role"], "deflate": cfg["deflate"],
            "frame": {"op": f["op"], "rsv": f["rsv"], "fin": f["fin"], "len_class": _len_class(f["len"]), "mid": f["mid"]},
            "op_class": _op_class(f["op"]), "in_frag": in_frag, "frag_comp": frag_comp, "ctl_in_frag": ctl_in_frag,
            "differs": sorted(k for k in exp if exp[k] != obs.get(k)),
            "exp_closed": exp["closed"], "obs_closed": obs["closed"],
            "exp_1009": exp["sent1009"], "obs_1009": obs["sent1009"]}


def replayer(extra, path):
    from harness.httpsim import LogCapture
    cfg, v = extra["cfg"], extra["variant"]
    c = cat()
    with LogCapture():
        try:
            real = W.ReceiverReal(cfg, c, role=v["role"], mode=v["mode"], grid=v["grid"], chunk_mode=v["chunk"], seed=v["seed"])
        except W.HandshakeFailed as e:     # an observation about the code under test, not a harness failure
            return {"step": 0, "act": "handshake", "args": [], "exp": "opening handshake completes", "obs": str(e)[:400],
                    "sig": {"act": "handshake", "where": e.where, "role": v["role"], "deflate": cfg["deflate"], "variant_grid": v["grid"]}}
        try:
            for i, s in enumerate(path):
                obs = canon(real.step(s["act"], s["args"]))
                exp = dict(s["exp"])
                exp["delivered"] = c.canon_delivered(exp["delivered"])
                if not exp["sent1009"] and exp["closed"] and obs["closed"]:
                    obs["sent1009"] = False     # 1009 is demanded for size violations only; other aborts may carry any close frame
                if obs != exp:
                    return {"step": i, "act": s["act"], "args": s["args"], "exp": exp, "obs": obs,
                            "sig": make_sig(cfg, v, path, i, exp, obs)}
            return None
        finally:
            real.close()


def random_trace(job):
    """One seeded random frame sequence against the real receiver, recorded for TLC."""
    from harness.httpsim import LogCapture
    tid, seed = job
    rng = random.Random(seed)
    c = cat()
    cfg = {"deflate": rng.random() < 0.6, "maxMsg": LIMIT}
    role = rng.choice(["server", "client"])
    masked = 1 if role == "server" else 0
    usable = [e for e in c.by_id.values() if cfg["deflate"] or not e["comp"]]
    good = [e for e in usable if len(e["wire"]) <= LIMIT and len(e["data"]) <= LIMIT and (e["kind"] == "binary" or e["utf8ok"])]
    ev = []
    with LogCapture():
        try:
            real = W.ReceiverReal(cfg, c, role=role, mode=rng.choice(["cb", "read"]), grid=rng.randrange(7),
                                  chunk_mode=rng.randrange(4), seed=seed)
        except W.HandshakeFailed as e:      # no specification action is called "error:...": TLC rejects the trace
            return {"id": tid, "cfg": cfg, "role": role, "ev": [{"a": "error:handshake", "args": [e.where, e.detail], "obs": {}}]}
        try:
            cur = None            # [entry, offset]
            over_left = None
            for _ in range(rng.randint(5, 40)):
                x = rng.random()
                f = None
                if x < 0.05:      # one violation
                    k = rng.choice(["rsv", "rsv", "badop", "fragctl", "bigctl", "contnostart", "datainfrag"])
                    small = c.by_id[1]
                    if k == "rsv":
                        if cur is not None and rng.random() < 0.5:
                            rem = len(cur[0]["wire"]) - cur[1]
                            f = {"fin": 1, "rsv": rng.choice([1, 2, 3, 4, 5, 6, 7]), "op": 0, "len": rem, "mid": cur[0]["id"], "lo": cur[1]}
                        elif rng.random() < 0.5:
                            f = {"fin": 1, "rsv": rng.choice([1, 2, 3, 4, 5, 6, 7]), "op": rng.choice([9, 10]), "len": rng.choice([0, 3, 125]), "mid": 0, "lo": 0}
                        elif cur is None:
                            f = {"fin": 1, "rsv": rng.choice([1, 2, 3, 5, 6, 7] + ([] if cfg["deflate"] else [4])), "op": 1, "len": 3, "mid": 1, "lo": 0}
                    elif k == "badop":
                        op = rng.choice([3, 4, 5, 6, 7, 11, 12, 13, 14, 15])
                        if op >= 8:
                            f = {"fin": 1, "rsv": 0, "op": op, "len": rng.choice([0, 2]), "mid": 0, "lo": 0}
                        elif cur is None:
                            f = {"fin": rng.choice([0, 1]), "rsv": 0, "op": op, "len": 3, "mid": 1, "lo": 0}
                    elif k == "fragctl":
                        f = {"fin": 0, "rsv": 0, "op": rng.choice([8, 9, 10]), "len": rng.choice([0, 2]), "mid": 0, "lo": 0}
                    elif k == "bigctl":
                        f = {"fin": 1, "rsv": 0, "op": rng.choice([9, 10]), "len": rng.choice([126, 127, 300]), "mid": 0, "lo": 0}
                    elif k == "contnostart" and cur is None:
                        f = {"fin": rng.choice([0, 1]), "rsv": 0, "op": 0, "len": 3, "mid": 1, "lo": 0}
                    elif k == "datainfrag" and cur is not None:
                        f = {"fin": 1, "rsv": 0, "op": 1, "len": 3, "mid": 1, "lo": 0}
                if f is None and x < 0.28:
                    if rng.random() < 0.05:
                        f = {"fin": 1, "rsv": 0, "op": 8, "len": 2, "mid": 0, "lo": 0}
                    else:
                        f = {"fin": 1, "rsv": 0, "op": rng.choice([9, 9, 10]), "len": rng.choice([0, 1, 5, 64, 125]), "mid": 0, "lo": 0}
                if f is None:
                    if cur is None:
                        e = rng.choice(good if rng.random() < 0.85 else usable)
                        n = len(e["wire"])
                        k = n if rng.random() < 0.45 else rng.randint(0, n)
                        f = {"fin": 1 if k == n else 0, "rsv": 4 if e["comp"] else 0, "op": 1 if e["kind"] == "text" else 2,
                             "len": k, "mid": e["id"], "lo": 0}
                    else:
                        e, off = cur
                        rem = len(e["wire"]) - off
                        k = rem if rng.random() < 0.5 else rng.randint(0, rem)
                        f = {"fin": 1 if k == rem else 0, "rsv": 0, "op": 0, "len": k, "mid": e["id"], "lo": off}
                # peer-side bookkeeping of the message in progress (valid data frames only)
                if f["op"] in (1, 2) and f["rsv"] in (0, 4) and cur is None and f["mid"] and f["op"] == (1 if c.by_id[f["mid"]]["kind"] == "text" else 2):
                    cur = None if f["fin"] else [c.by_id[f["mid"]], f["len"]]
                elif f["op"] == 0 and f["rsv"] == 0 and cur is not None:
                    cur = None if f["fin"] else [cur[0], cur[1] + f["len"]]
                hdr = W.encode_header(f["fin"], f["rsv"], f["op"], masked, f["len"])
                g = dict(f)
                g["hm"] = g["hu"] = list(hdr)
                obs = real.step("recv", [g])
                ev.append({"a": "recv", "args": [f], "hdr": list(hdr), "masked": masked, "obs": obs})
                if obs["closed"]:
                    over_left = (over_left if over_left is not None else rng.randint(0, 2)) - 1
                    if over_left < 0:
                        break
                    cur = None
            return {"id": tid, "cfg": cfg, "role": role, "ev": ev}
        finally:
            real.close()


def trace_sig(t, bad, l):
    if not bad:
        return {}
    if bad.get("a") != "recv":
        return {"role": t.get("role"), "deflate": t["cfg"]["deflate"], "where": bad["args"][0] if bad.get("args") else None}
    f = bad["args"][0]
    return {"role": t.get("role"), "deflate": t["cfg"]["deflate"],
            "frame": {"op": f["op"], "rsv": f["rsv"], "fin": f["fin"], "len_class": _len_class(f["len"])},
            "op_class": _op_class(f["op"]), "obs_closed": bad["obs"]["closed"], "obs_1009": bad["obs"]["sent1009"]}


def _mc(ctx, *a, **kw):
    """ctx.mc, skippable with WS_DEV_SKIP_MC=1 (development only: seeded-edit runs, where the
    specification-level model checking is unaffected by the edit)."""
    if os.environ.get("WS_DEV_SKIP_MC") == "1":
        return None
    return ctx.mc(*a, **kw)


def run(ctx):
    c = cat()
    os.environ["WS_CATALOG"] = c.write(os.path.join(ctx.scratch, "catalog.ndjson"))
    t0 = time.time()
    r = _mc(ctx, "ws", "MC_WsReceiver", "MC_WsReceiver.cfg", env={"WS_CATALOG": os.environ["WS_CATALOG"]},
               overrides=ctx.pick({}, {"PieceKinds": '{"zero", "one", "half"}'}),
               required_actions=["SendData", "SendPing", "SendPong", "SendClose", "SendViolation", "SendAfter"])
    ctx._phase("mc", t0)
    t0 = time.time()
    paths = ctx.gen_paths("ws", "Gen_WsReceiver", "Gen_WsReceiver.cfg",
                          overrides=ctx.pick({"L": 3}, {"L": 3, "BadOps": "{3, 4, 5, 6, 7, 11, 12, 13, 14, 15}", "CtlLens": "{0, 5, 125}",
                                                      "PieceKinds": '{"one", "half", "rest1"}'}))
    ctx._phase("gen", t0)
    t0 = time.time()
    ctx.replay(expand(paths, ctx.seed, ctx.pick(1, 2)), replayer)
    ctx._phase("s2c", t0)
    ctx.cov["exhaustive"] = True
    # longer seeded TLC walks with every cut kind
    t0 = time.time()
    sims = ctx.sim_paths("ws", "Gen_WsReceiver", "Gen_WsReceiver.cfg", num=ctx.pick(80, 3000), depth=12,
                         overrides={"L": 12, "PieceKinds": '{"zero", "one", "half", "rest1"}', "CtlLens": "{0, 5, 125}"})
    ctx.replay(expand(sims, ctx.seed), replayer, label="s2c")
    ctx._phase("s2c-sim", t0)
    # code -> spec: seeded random frame sequences recorded from the real receiver, judged by TLC
    t0 = time.time()
    n = ctx.pick(150, 5000)
    traces = framework.pool_map(random_trace, [(i + 1, ctx.seed * 1000003 + i) for i in range(n)])
    ctx.validate("ws", "Trace_WsReceiver", "Trace_WsReceiver.cfg", traces, sig_fn=trace_sig,
                 env={"WS_CATALOG": os.environ["WS_CATALOG"]})
    ctx._phase("c2s", t0)
    ctx.cov["trusted_base"] += ["harness/ws_driver.py frame plumbing (build_frame / split_frames / xor_mask)",
                                "zlib as the opaque permessage-deflate codec (catalogue wire lengths)"]
    ctx.cov["rule"] = ("paths: every frame sequence of length <= %d over the catalogue around max_message_size=%d "
                       "(valid pieces, pings/pongs/close, one violation of each kind), each replayed in the server or the "
                       "client role (thorough: both) under hashed deflate-parameter / segmentation variants; distinct = distinct "
                       "(config, variant, frame sequence)" % (3, LIMIT))


def replay(ctx, rec):
    d = rec["detail"]
    if "path" in d:
        r = replayer(d["extra"], d["path"])
        print("replay:", "diverges " + framework.jdump(r) if r else "follows the specification")
        return 1 if r else 0
    t = d["trace"]
    os.environ["WS_CATALOG"] = cat().write(os.path.join(ctx.scratch, "catalog.ndjson"))
    v = ctx.validate("ws", "Trace_WsReceiver", "Trace_WsReceiver.cfg", [t], sig_fn=trace_sig,
                     env={"WS_CATALOG": os.environ["WS_CATALOG"]})
    bad = v[t["id"]]
    print("replay:", "trace rejected at event %s" % bad["at"] if bad else "trace accepted by the specification")
    return 1 if bad else 0
