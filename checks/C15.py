"""C15 - WebSocket peers that violate the protocol are cut off without bad data.
"""
import hashlib
import os
import time

from harness import framework
from harness.framework import canon, jdump
from harness import ws_driver as W

LIMIT = 130
_CAT = None


def cat():
    global _CAT
    if _CAT is None:
        _CAT = W.catalog_limits(LIMIT)
    return _CAT


def _variants(extra, path, seed, n):
    h = int(hashlib.sha1(jdump([extra, [s["args"] for s in path], seed]).encode()).hexdigest()[:8], 16)
    out = []
    for k in range(n):
        role = ("server", "client")[k % 2]
        out.append({"role": role, "mode": ("cb", "read")[(h >> 3) & 1], "grid": (h >> 4) % 7 + k,
                    "chunk": (h + k) % 4, "seed": h + k})
    return out


def viol_kind(f, cfg):
    return {"op": f["op"], "rsv": f["rsv"], "fin": f["fin"], "len_class": "0" if f["len"] == 0 else ("<=125" if f["len"] <= 125 else ">125"),
            "mid": f["mid"]}


def _replay_variant(extra, path, v):
    from harness.httpsim import LogCapture
    cfg = extra["cfg"]
    c = cat()
    with LogCapture():
        real = W.ReceiverReal(cfg, c, role=v["role"], mode=v["mode"], grid=v["grid"], chunk_mode=v["chunk"], seed=v["seed"])
        try:
            for i, s in enumerate(path):
                obs = canon(real.step(s["act"], s["args"]))
                exp = dict(s["exp"])
                exp["delivered"] = c.canon_delivered(exp["delivered"])
                if obs != exp:
                    f = s["args"][0]
                    return {"step": i, "act": s["act"], "args": s["args"], "exp": exp, "obs": obs, "variant": v,
                            "sig": {"role": v["role"], "deflate": cfg["deflate"], "frame": viol_kind(f, cfg),
                                    "history": [[p["args"][0]["op"], p["args"][0]["fin"], p["args"][0]["rsv"]] for p in path[:i]],
                                    "differs": sorted(k for k in exp if exp[k] != obs.get(k)),
                                    "exp_closed": exp["closed"], "obs_closed": obs["closed"]}}
            return None
        finally:
            real.close()


def replayer(extra, path):
    for v in _variants(extra, path, 0, 2):
        r = _replay_variant(extra, path, v)
        if r is not None:
            return r
    return None


def run(ctx):
    c = cat()
    os.environ["WS_CATALOG"] = c.write(os.path.join(ctx.scratch, "catalog.ndjson"))
    t0 = time.time()
    r = ctx.mc("ws", "MC_WsReceiver", "MC_WsReceiver.cfg", env={"WS_CATALOG": os.environ["WS_CATALOG"]},
               required_actions=["SendData", "SendClose", "SendAfter"])
    ctx._phase("mc", t0)
    t0 = time.time()
    paths = ctx.gen_paths("ws", "Gen_WsReceiver", "Gen_WsReceiver.cfg", overrides={"L": ctx.pick(3, 4)})
    ctx._phase("gen", t0)
    t0 = time.time()
    ctx.replay(paths, replayer)
    ctx._phase("s2c", t0)
    ctx.cov["exhaustive"] = True


def replay(ctx, rec):
    d = rec["detail"]
    if "path" in d:
        v = d["divergence"].get("variant")
        r = _replay_variant(d["extra"], d["path"], v) if v else replayer(d["extra"], d["path"])
        print("replay:", "diverges " + framework.jdump(r) if r else "follows the specification")
        return 1 if r else 0
    return 0
