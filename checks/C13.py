"""C13 - Closing an IOStream settles every pending operation exactly once.

MC : the full IOStreamContract.tla: reads, deliveries, writes, grants, connect pending /
     established / refused, with close(), close(exc_info), peer EOF, connection reset and other
     OSError on the read side, reset / OSError on the write side enabled at every point:
     ClosedSettlesAll, OutcomesFinal (exactly once), NothingAfterClose, CallbackLast, plus the
     read / write invariants.
S2C: every path of length <= L through the TLC state graph replayed on a real stream (a real
     IOStream.connect / _handle_connect over a socket shim when the behaviour starts unconnected);
     outcome of every read / write / connect future (class and real_error class), stream.error,
     close-callback count and "callback after the futures" compared after every step.
C2S: seeded random programs with a random close cause at a random point, validated by TLC.

Cancel: specs/net/StreamCancel.tla - the application cancels read / write / connect futures it was handed
     and the stream closes afterwards (close, close(exc), EOF, reset): every path of the model replayed on a
     real stream; the close must leave cancelled futures alone, fail the others once, run the callback once
     after them and raise nothing.

Binding demonstrated during development (notes/net.md): `_signal_closed` skipping the connect
future, StreamClosedError without real_error, close callback scheduled before the futures are
failed, close() not completing a pending read_until_close - all reported as VIOLATION.
"""
from harness import net_common, net_cancel, net_driver as nd


def run(ctx):
    ctx.mc("net", "IOStreamContract", "MC_IOStreamClose.cfg", overrides=ctx.pick({}, {"MaxStream": 3, "Ccs": "{0, 1}"}),
           required_actions=["Read", "Deliver", "Cond", "CloseLocal", "Write", "Grant", "WCond", "ConnOk", "ConnFail"], timeout=ctx.pick(900, 3000))
    L = 4
    variants = ctx.pick(nd.VARIANTS[:1], nd.VARIANTS[:2])
    net_common.s2c_stream(ctx, "GenG_IOStreamClose.cfg",
                          ctx.pick({"L": L}, {"L": L, "MaxChunk": 2, "Ccs": "{0, 1}"}), variants,
                          nontrivial=lambda e, p: len(p) >= 2 and any(s["exp"]["st"] == "closed" for s in p))
    # extension: futures cancelled by the application before the stream closes (specs/net/StreamCancel.tla)
    ctx.mc("net", "StreamCancel", "MC_StreamCancel.cfg",
           required_actions=["Read", "Write", "Deliver", "ConnOk", "CancelRd", "CancelWr", "CancelCo", "Close"], timeout=300)
    cp = ctx.gen_paths("net", "Gen_StreamCancel", "Gen_StreamCancel.cfg", overrides=ctx.pick({}, {"L": 8}))
    ctx.replay(cp, net_cancel.replay_cancel, label="s2c-stream-cancel",
               nontrivial=lambda e, p: p[-1]["exp"]["st"] == "closed" and any(s["act"].startswith("cancel") for s in p))
    ctx.cov["exhaustive"] = True
    net_common.c2s_stream(ctx, "close", n=ctx.pick(80, 800))
    ctx.cov["rule"] = ("paths: every sequence of read/deliver/write/grant/connect-ok/connect-refused/close/close(exc)/"
                       "eof/reset/read-error/write-reset/write-error of length <= %d (close callback on/off, connected / "
                       "connecting) under %d transport variants; plus seeded random recorded programs with a random "
                       "close cause validated by TLC; non-trivial = length >= 2 reaching the closed state" % (L, len(variants)))


def replay(ctx, rec):
    return net_common.replay_file(ctx, rec)
