"""C48 - OAuth request signatures match the OAuth 1.0 specification (RFC 5849).

MC : specs/text/OAuth1.tla - key and signature base string for every request shape (version,
     method case, URL table with mixed-case scheme/host and explicit ports, secrets with reserved
     and non-ASCII characters, with/without token) x every parameter list of <= MaxPairs pairs
     over the name/value tables; separator-unambiguity theorems.
S2C: the real tornado.auth._oauth_signature / _oauth10a_signature are called with hmac.new
     intercepted at the tornado.auth module boundary; the captured key and text must equal the
     TLC-computed ones and the returned value must be base64(HMAC-SHA1(key, text)) recomputed
     with the stdlib; both dict insertion orders must agree.
C2S: seeded random parameter sets (<= 6 pairs, random Unicode names and values), secrets and
     URL shapes, validated by TLC (Trace_OAuth1 recomputes key and text).

Binding demonstrated during development (scratch worktree, notes/text.md): method not upper-cased
in the base string, token secret dropped from the key - each reported as VIOLATION.
"""
import random

from harness import text_driver as td

MODULE = "OAuth1"
FNS = ["oauth_key", "oauth_text", "oauth_mac"]


def random_items(seed, n):
    rng = random.Random(seed)
    alpha = ["a", "B", "~", " ", "&", "=", "+", "%", "é", "z", "{", "/", "-", "_", ".", "0", "€", "*", "!", "'"]
    hosts = ["Example.COM", "api.example.com", "LOCALHOST", "a-b.Example.org"]
    paths = ["/", "/Req/Path", "/a%20b/~c", "/x;y/z", ""]
    items = []
    for _ in range(n):
        scheme = rng.choice(["http", "HTTP", "https", "HttpS"])
        port = rng.choice([0, 0, 0, 8080, 80, 443, 8443])
        cfg = {"ver": rng.choice(["1.0", "1.0a"]), "method": td.cps(rng.choice(["GET", "post", "Put", "delete"])),
               "url": {"scheme": td.cps(scheme), "host": td.cps(rng.choice(hosts)), "port": port, "path": td.cps(rng.choice(paths))},
               "csec": td.cps(td.rand_text(rng, alpha, 10, 0.1)),
               "tok": {"has": rng.random() < 0.6, "s": td.cps(td.rand_text(rng, alpha, 10, 0.1))}}
        if not cfg["tok"]["has"]:
            cfg["tok"]["s"] = []
        names = set()
        x = []
        for _ in range(rng.randint(0, 6)):
            k = td.rand_text(rng, alpha, 4, 0.15) or "k"
            if k in names:
                continue
            names.add(k)
            x.append({"k": td.cps(k), "v": td.cps(td.rand_text(rng, alpha, 6, 0.15))})
        items.append((cfg, [(fn, x) for fn in FNS]))
    return items


def run(ctx):
    ctx.mc("text", MODULE, "MC_OAuth1.cfg", timeout=ctx.pick(900, 1500), overrides={"MaxPairs": ctx.pick(1, 2), "UrlIdx": "{1, 2, 3, 4, 5}"},
           required_actions=["AddPair"])
    ov = ctx.pick({"MaxPairs": 2, "Level": 1, "UrlIdx": "{1, 3, 4}", "SecIdx": "{2}", "TokIdx": "{0, 2}"},
                  {"MaxPairs": 2, "Level": 1, "UrlIdx": "{1, 2, 3, 4, 5}", "SecIdx": "{1, 2, 3}", "TokIdx": "{0, 1, 2}"})
    states = ctx.gen_states("text", MODULE, "Gen_OAuth1.cfg", timeout=ctx.pick(900, 1500), overrides=ov)
    if not ctx.quick:       # the larger name / value tables on a few request shapes
        states += ctx.gen_states("text", MODULE, "Gen_OAuth1.cfg", timeout=1500,
                                 overrides={"MaxPairs": 2, "Level": 2, "UrlIdx": "{1}", "SecIdx": "{2}", "TokIdx": "{2}"})
    paths, rel_items = td.paths_from_states(states)
    ctx.replay(paths, td.make_replayer(MODULE), nontrivial=lambda e, p: len(p[0]["args"][0]) >= 1)
    ctx.cov["exhaustive"] = True
    items = random_items(ctx.seed * 7919 + 48, ctx.pick(400, 10000))
    traces = td.record(MODULE, items)
    td.validate_calls(ctx, MODULE, "Trace_OAuth1", "Trace_OAuth1.cfg", traces)
    ctx.cov["rule"] = ("request shapes (version x method case x URL table x secrets x token) x every parameter list of <= 2 "
                       "pairs over the name table (unreserved, reserved, non-ASCII, two-character names) and value table; plus "
                       "seeded random parameter sets <= 6 pairs with random Unicode; key, text and MAC compared per call")
    ctx.cov["trusted_base"] += ["stdlib hmac / hashlib / base64 (opaque MAC recomputation)",
                                "harness/text_driver.py adapters (hmac.new interception at tornado.auth.hmac)"]


def replay(ctx, rec):
    return td.replay_record(ctx, MODULE, "Trace_OAuth1", "Trace_OAuth1.cfg", rec)
