"""C12 - IOStream writes deliver every byte once, in order, and resolve in order.

MC : IOStreamContract.tla restricted to the write side (Write / Grant / close / transport write
     errors; max_write_buffer_size 0 and 6): Conservation (sent o queued = concatenation of the
     accepted writes), SentIsPrefix, WriteBookkeeping, ResolveInOrder, RefusedNoEffect,
     OutcomesFinal, NothingAfterClose; and StreamBuffer.tla (append / peek / advance FIFO).
S2C: every path of length <= L through the TLC state graphs replayed on (a) a real BaseIOStream
     over a credit-driven in-memory transport (per-call partial sends 1/2/3, bytes / memoryview /
     non-byte memoryview payloads, _large_buf_threshold 4 / 2 / default so that 1-6 byte writes
     cross the coalescing threshold) and (b) the real _StreamBuffer with threshold 4 and
     bytes / bytearray / memoryview pieces.
C2S: seeded random write/grant programs with sizes around the real 2 KiB threshold, recorded
     from the real stream and validated by TLC (Trace_IOStreamContract: bytes handed to the
     transport are compared step by step with the specification's `sent`).

Binding demonstrated during development (notes/net.md): `_StreamBuffer.advance` off by one,
write futures resolved with `index >= done` reversed, max_write_buffer_size check dropped - all
reported as VIOLATION.
"""
from harness import net_common, net_driver as nd


def run(ctx):
    ctx.mc("net", "IOStreamContract", "MC_IOStreamWrite.cfg",
           overrides=ctx.pick({}, {"MaxWrites": 5, "MaxCredit": 12}),
           required_actions=["Write", "Grant", "WCond", "CloseLocal"], timeout=ctx.pick(900, 3000))
    ctx.mc("net", "StreamBuffer", "MC_StreamBuffer.cfg", required_actions=["DoAppend", "Peek", "Advance"], timeout=ctx.pick(900, 3000))
    L = ctx.pick(4, 5)
    variants = ctx.pick(nd.VARIANTS[:3], nd.VARIANTS)
    net_common.s2c_stream(ctx, "GenG_IOStreamWrite.cfg", {"L": L}, variants, spread=ctx.quick,
                          nontrivial=lambda e, p: len(p) >= 2 and any(s["act"] == "write" for s in p))
    net_common.s2c_buffer(ctx, ctx.pick({"L": 4}, {"L": 5, "PieceLens": "{0, 1, 4, 5, 9}"}))
    ctx.cov["exhaustive"] = True
    net_common.c2s_stream(ctx, "write", n=ctx.pick(100, 2000))
    ctx.cov["rule"] = ("paths: every sequence of write(0/1/3/5 bytes)/grant(1/2/6)/close/write-error of length <= %d "
                       "(max_write_buffer_size none / 6) under %d transport variants, every append/peek/advance "
                       "sequence of length <= %d on _StreamBuffer(threshold 4); plus seeded random recorded write "
                       "programs (sizes around 2 KiB) validated by TLC; non-trivial = length >= 2 with a write"
                       % (L, len(variants), ctx.pick(4, 5)))


def replay(ctx, rec):
    return net_common.replay_file(ctx, rec)
