"""C37 - Decorated generator coroutines behave like native coroutines.

MC : specs/futures/CoroLang.tla - small-step semantics (frame stack, abrupt completions through
     try / except / finally, awaits of futures, lists, dicts, moment, sub-coroutines, a context
     variable) of every program of a bounded grammar, under every interleaving of the call and
     of the completions (result / exception / cancellation) of the futures it can await.
     Invariants: every action runs to a suspension point (Quiescent), the result settles exactly
     when the body ends, a suspended coroutine is never left waiting on finished futures, the
     log and outcome do not depend on the completion order (OrderIndependent), LogGrows,
     DoneFrozen.
S2C: for every TLC-enumerated (program, schedule) the harness emits BOTH a @gen.coroutine
     generator and an `async def` (run as a task) from the program, runs both on one virtual loop
     under the scheduled completions and compares the side-effect log and the outcome of EACH
     form with the specification's after every step (so the two forms are compared with each
     other through the specification); variants: `yield None` for moment, @gen.coroutine
     sub-coroutines; the caller's context variable must be unchanged afterwards.
C2S: seeded random programs from a larger grammar (nesting depth 3, longer blocks) with random
     schedules are run in both forms; the recorded observations are validated by TLC against
     Trace_CoroLang.

Binding demonstrated during development (scratch worktree, details in notes/futures.md), each
reported by the S2C replay: the decorator's first-iteration path dropping the returned value;
`convert_yielded` no longer accepting dicts; `ctx_run` replaced by `_fake_ctx_run` (caller context
leak); the moment continuation scheduled without `ctx_run` (a value set after `moment` is lost
after the next await).  The trace validation is exercised on every run by
futures_gen.binding_demo.  On the pinned commit the check found F23 (a decorated coroutine awaiting
a cancelled future never settles) and re-found F01 through `yield [..]`; both are fixed in /repo.
"""
import random
import time

from harness import framework, futures_gen
from harness.futures_driver import CoroReal, emit_program


def _ops(block, acc):
    for s in block:
        acc.add(s["op"])
        if s["op"] == "try":
            _ops(s["B"], acc), _ops(s["H"], acc), _ops(s["F"], acc)
    return acc


def _used(block, subs, acc):
    for s in block:
        if s["op"] == "await":
            acc.add(s["a"])
        elif s["op"] in ("list", "dict"):
            acc.update((s["a"], s["b"]))
        elif s["op"] == "sub":
            _used(subs[s["a"] - 1], subs, acc)
        elif s["op"] == "try":
            _used(s["B"], subs, acc), _used(s["H"], subs, acc), _used(s["F"], subs, acc)
    return acc


def _cancel_kind(cfg, steps):
    """Where the cancelled futures are awaited: 'single' (await F / inside a sub-coroutine),
    'multi' (inside a list / dict), 'both', or 'none'."""
    canc = {s["args"][0] for s in steps if s.get("act", s.get("a")) == "complete" and s["args"][1] == "cancel"}
    single, multi = set(), set()

    def walk(block):
        for s in block:
            if s["op"] == "await":
                single.add(s["a"])
            elif s["op"] in ("list", "dict"):
                multi.update((s["a"], s["b"]))
            elif s["op"] == "sub":
                walk(cfg["subs"][s["a"] - 1])
            elif s["op"] == "try":
                walk(s["B"]), walk(s["H"]), walk(s["F"])
    walk(cfg["prog"])
    a, b = bool(canc & single), bool(canc & multi)
    return "both" if a and b else "single" if a else "multi" if b else "none"


def _variants(cfg):
    ops = _ops(cfg["prog"], set())
    v = [{}]
    if "moment" in ops:
        v.append({"moment_none": True})
    if "sub" in ops:
        v.append({"sub_dec": True})
    return v, ops


def _replay_one(cfg, path, opts, ops):
    real = CoroReal(cfg, opts)
    try:
        cancelled = False
        for i, s in enumerate(path):
            if s["act"] == "complete" and s["args"][1] == "cancel":
                cancelled = True
            obs = real.step(s["act"], s["args"])
            bad = [f for f in real.FORMS if obs[f] != s["exp"]]
            ctx_leak = real.caller_ctx not in (None, 1)
            if bad or ctx_leak:
                form = "ctx" if not bad else "+".join(bad)
                fields = sorted({k for f in bad for k in ("log", "out") if obs[f][k] != s["exp"][k]})
                return {"step": i, "act": s["act"], "args": s["args"], "exp": s["exp"], "obs": obs,
                        "opts": opts, "caller_ctx": real.caller_ctx, "uncaught": real.uncaught(),
                        "source": {f: real.src[f] for f in real.FORMS},
                        "sig": {"form": form, "act": s["act"], "cancelled_input": cancelled, "fields": fields,
                                "cancel_kind": _cancel_kind(cfg, path[:i + 1]), "sub_dec": bool(opts.get("sub_dec")),
                                "exp_out": s["exp"]["out"]["s"],
                                "obs_out": {f: obs[f]["out"]["s"] for f in bad}}}
        return None
    finally:
        real.close()


def replayer(extra, path):
    cfg = extra["cfg"]
    variants, ops = _variants(cfg)
    for opts in variants:
        r = _replay_one(cfg, path, opts, ops)
        if r is not None:
            return r
    return None


# ---------------------------------------------------------------------- code -> spec
SUBS = None     # sub-coroutine bodies: taken from the specification (first generated path)


def _S(op, a=0, b=0):
    return {"op": op, "a": a, "b": b, "B": [], "H": [], "F": []}


def _rand_block(rng, depth, region, maxlen, allow_cancel_sensitive=True):
    n = rng.randint(1, maxlen)
    out = []
    for i in range(n):
        last = i == n - 1
        r = rng.random()
        if depth > 0 and r < 0.25:
            B = _rand_block(rng, depth - 1, 2, 3)
            H = _rand_block(rng, depth - 1, 3, 2) if rng.random() < 0.75 else []
            F = _rand_block(rng, depth - 1, 4, 2) if (rng.random() < 0.6 or not H) else []
            out.append({"op": "try", "a": 0, "b": 0, "B": B, "H": H, "F": F})
            continue
        choices = ["eff", "eff", "await1", "await2", "list", "dict", "moment", "sub1", "sub2", "sub3", "rdctx", "setctx", "listdup"]
        if last:
            choices += ["ret", "raise", "ret"]
        c = rng.choice(choices)
        out.append({"eff": _S("eff", region), "await1": _S("await", 1), "await2": _S("await", 2),
                    "list": _S("list", rng.choice([1, 2]), rng.choice([1, 2, 3])), "listdup": _S("list", 1, 1),
                    "dict": _S("dict", rng.choice([1, 2, 3]), rng.choice([1, 2])), "moment": _S("moment"),
                    "sub1": _S("sub", 1), "sub2": _S("sub", 2), "sub3": _S("sub", 3),
                    "ret": _S("ret", rng.choice([7, 8])), "raise": _S("raise"), "rdctx": _S("rdctx"),
                    "setctx": _S("setctx", 2)}[c])
    return out


def random_trace(job):
    tid, seed, subs, with_cancel = job
    rng = random.Random(seed)
    prog = _rand_block(rng, 3, 1, 4)
    cfg = {"prog": prog, "subs": subs}
    opts = {}
    if rng.random() < 0.3:
        opts["moment_none"] = True
    if rng.random() < 0.3:
        opts["sub_dec"] = True
    real = CoroReal(cfg, opts)
    ev = []
    try:
        used = _used(prog, subs, set())
        todo = ["start"] + [("complete", f) for f in sorted(used)]
        rng.shuffle(todo)
        outcomes = ["ok", "ok", "exc"] + (["cancel"] if with_cancel else [])
        for t in todo:
            if t == "start":
                a, args = "start", []
            else:
                a, args = "complete", [t[1], rng.choice(outcomes)]
            obs = real.step(a, args)
            ev.append({"a": a, "args": args, "obs": obs})
        return {"id": tid, "cfg": cfg, "ev": ev, "opts": opts, "caller_ctx": real.caller_ctx}
    finally:
        real.close()


def _trace_sig(t, bad, l):
    form = "?"
    if bad:
        d = [f for f in ("dec", "nat") if bad["obs"][f] != bad["obs"]["dec" if f == "nat" else "nat"]]
        form = "dec+nat" if not d else "differ"
    return {"cancelled_input": any(e["a"] == "complete" and e["args"][1] == "cancel" for e in t["ev"][:l]),
            "cancel_kind": _cancel_kind(t["cfg"], t["ev"][:l]), "forms": form,
            "sub_dec": bool(t.get("opts", {}).get("sub_dec"))}


MC_THOROUGH = {"MaxBody": 2, "MaxTop": 1, "TopOps": '{"eff", "await1", "moment", "ret", "setctx"}'}    # MaxTop 2 with two-statement bodies exceeds TLC's 10^6 set limit

ALL_HF = '{"none", "eff", "await2", "ret", "raise"}'
ALL_OUT = '{"ok", "exc", "cancel"}'
GEN_QUICK = [
    {"TopOps": '{"eff", "ret"}', "MaxTop": 2, "MaxBody": 1, "Outcomes": ALL_OUT,
     "HOps": '{"none", "eff", "await2", "raise"}', "FOps": '{"none", "eff", "await2", "ret"}'},
]
GEN_CTX = {"TopOps": '{"moment", "setctx", "rdctx", "await1"}', "MaxTop": 4, "Outcomes": '{"ok", "exc", "cancel"}', "MaxTry": 0, "MaxBody": 1,
           "BodyOps": '{"eff"}', "HOps": '{"none"}', "FOps": '{"eff"}'}
GEN_THOROUGH = [
    # every clause content, with cancellation of the awaited futures
    {"TopOps": '{"eff", "await1", "ret"}', "MaxTop": 2, "MaxBody": 1, "HOps": ALL_HF, "FOps": ALL_HF,
     "Outcomes": ALL_OUT},
    # try bodies of two statements
    {"TopOps": "{}", "MaxTop": 1, "MaxBody": 2, "HOps": ALL_HF, "FOps": ALL_HF,
     "BodyOps": '{"eff", "await1", "await2", "list", "dict", "sub2", "sub3", "ret", "raise"}'},
    {"TopOps": "{}", "MaxTop": 1, "MaxBody": 2, "HOps": ALL_HF, "FOps": ALL_HF, "Outcomes": ALL_OUT,
     "BodyOps": '{"eff", "await1", "list", "sub2", "ret", "raise"}'},
    # rich top level around a try statement
    {"TopOps": '{"eff", "await1", "await2", "list", "moment", "sub2", "ret", "raise", "setctx"}', "MaxTop": 2,
     "MaxBody": 1, "HOps": '{"none", "eff", "raise"}', "FOps": '{"none", "eff", "ret"}', "Outcomes": ALL_OUT},
]


def run(ctx):
    global SUBS
    t0 = time.time()
    # 1. model checking of the semantics
    ctx.mc("futures", "CoroLang", "MC_CoroLang.cfg", overrides=ctx.pick({}, MC_THOROUGH),
           required_actions=["Start", "Complete"], timeout=ctx.pick(600, 1800))
    ctx._phase("mc", t0); t0 = time.time()
    # 2. spec -> code: every (program, schedule)
    for ov in ctx.pick(GEN_QUICK, GEN_THOROUGH) + [GEN_CTX]:
        paths = futures_gen.gen_paths(ctx, "futures", "Gen_CoroLang", "Gen_CoroLang.cfg", overrides=ov,
                                      timeout=ctx.pick(600, 1800))
        ctx._phase("gen", t0); t0 = time.time()
        ctx.replay(paths, replayer, nontrivial=lambda e, p: len(p) >= 2)
        ctx._phase("replay", t0); t0 = time.time()
    # nested try statements (flat programs: one nested try)
    nested = futures_gen.gen_paths(ctx, "futures", "Gen_CoroLang", "Gen_CoroLang.cfg",
                                   overrides={"TopOps": "{}", "MaxTop": 1, "MaxBody": 1, "Nest": "TRUE",
                                              "BodyOps": ctx.pick('{"await1", "raise", "ret"}',
                                                                  '{"eff", "await1", "list", "sub2", "sub3", "raise", "ret"}'),
                                              "HOps": ctx.pick('{"none", "eff", "raise"}', '{"none", "eff", "await2", "ret", "raise"}'),
                                              "FOps": ctx.pick('{"none", "eff", "ret"}', '{"none", "eff", "await2", "ret", "raise"}'),
                                              "Outcomes": ALL_OUT},
                                   timeout=ctx.pick(600, 1800))
    nested = [ep for ep in nested if any(s["op"] == "try" and s["B"] and s["B"][0]["op"] == "try" for s in ep[0]["cfg"]["prog"])]
    ctx.replay(nested, replayer, label="s2c-nest")
    ctx.cov["exhaustive"] = True
    ctx._phase("nested", t0); t0 = time.time()
    SUBS = paths[0][0]["cfg"]["subs"]
    # 3. code -> spec
    n = ctx.pick(300, 10000)
    jobs = [(i + 1, ctx.seed * 1000003 + i, SUBS, i % 2 == 0) for i in range(n)]
    traces = framework.pool_map(random_trace, jobs)
    ctx._phase("record", t0); t0 = time.time()
    leaks = [t for t in traces if t["caller_ctx"] != 1]
    for t in leaks[:20]:
        sig = {"kind": "c2s", "act": "start", "caller_ctx_leak": True}
        sig.update(_trace_sig(t, None, len(t["ev"])))
        sig["forms"] = "differ" if any(e["obs"]["dec"] != e["obs"]["nat"] for e in t["ev"]) else "dec+nat"
        ctx.violation(sig, {"trace": t, "caller_ctx": t["caller_ctx"]})
    ctx.validate("futures", "Trace_CoroLang", "Trace_CoroLang.cfg", traces, sig_fn=_trace_sig)

    def corrupt(ev):
        ev["obs"]["dec"]["log"] = ev["obs"]["dec"]["log"] + [{"t": "eff", "v": [77], "e": ""}]
    futures_gen.binding_demo(ctx, "futures", "Trace_CoroLang", "Trace_CoroLang.cfg",
                             [t for t in traces if t["ev"] and t["ev"][-1]["obs"]["nat"]["out"]["s"] != "pending"],
                             corrupt, "start")
    ctx._phase("validate", t0)
    ctx.cov["rule"] = ("paths: every program of the bounded grammar (top-level atoms and try/except/finally statements "
                       "with awaits, lists, dicts, moment, sub-coroutines, return, raise, context variable in every "
                       "clause; one level of nesting) x every interleaving of the call and the completions "
                       "(result/exception, cancellation) of the futures it can await, each replayed in both forms and "
                       "per emission variant; traces: seeded random programs (depth 3, blocks <= 4) with random schedules; "
                       "distinct = distinct (program, schedule); non-trivial = length >= 2")


def replay(ctx, rec):
    d = rec["detail"]
    if "path" in d:
        r = replayer(d["extra"], d["path"])
        print("replay:", "diverges " + framework.jdump(r) if r else "follows the specification")
        return 1 if r else 0
    if "trace" in d:
        v = ctx.validate("futures", "Trace_CoroLang", "Trace_CoroLang.cfg", [d["trace"]], sig_fn=_trace_sig)
        bad = [k for k, x in v.items() if x]
        print("replay:", "trace rejected at event %s" % v[bad[0]]["at"] if bad else "trace accepted by the specification")
        return 1 if bad else 0
    return 2
