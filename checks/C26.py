"""C26 - Static file serving never leaves its root directory.

MC : specs/webstatic/StaticPath.tla - percent-decoding, join, POSIX normalisation, the design's
     string-prefix containment test, default file, stat; invariants: serving / redirecting only
     inside the root on whole segments, only root files served, independence from everything
     outside the root, agreement of the string test with segment containment.
S2C: every path of <= L tokens over the token alphabet ('..', '.', empty, names of the tree and
     of its siblings, %2e%2e, %2F, NUL, absolute paths into and next to the root), GET and HEAD,
     with and without default_filename, requested from the real StaticFileHandler over the
     in-memory server on a real scratch tree - once with and once without the files outside the
     root; kind of response / file identity compared with TLC's expectation and the two trees'
     status codes with each other.
C2S: seeded random paths (longer, per-character escapes, %2F as separator) recorded from the
     real handler and validated by TLC against Trace_StaticPath with all invariants.

Binding demonstrations (scratch worktree /tmp/wt-webstatic): see notes/webstatic.md.  Spec side:
SepCheck = FALSE (naive prefix test) makes TLC report Confined / DesignIsSegmentwise violated
through the sibling r2.
"""
import random
import time

from harness import framework
from harness.framework import canon
from harness import webstatic_driver as W

TREES = []
SPELLS = ["plain", "trailing", "dotted", "dotdot", "relative"]     # how the handler's root is spelled


def _trees():
    if not TREES:
        TREES.append(W.Trees())
    return TREES[0]


def _drop_trees():
    for t in TREES:
        t.remove()
    del TREES[:]


def _sig(method, raw, exp, obs, extra):
    d = [u % 256 for u in raw]
    return {"act": "request", "method": method, "exp_kind": exp["kind"], "obs_kind": obs["kind"],
            "has_dotdot": ".." in "".join(chr(c) for c in d), "absolute": bool(d) and d[0] == 47,
            "has_nul": 0 in d, "spell": extra["cfg"].get("spell", "plain")}


def observe(dflt, method, raw, spell="plain"):
    """Run one request on both trees; returns (obs_with_outside, code, obs_without, code2)."""
    ts = _trees()
    o1, c1 = W.project_static(method, W.static_request(ts.root[True], dflt, method, raw[True], spell=spell))
    o2, c2 = W.project_static(method, W.static_request(ts.root[False], dflt, method, raw[False], spell=spell))
    return o1, c1, o2, c2


def replayer(extra, path):
    cfg = extra["cfg"]
    ts = _trees()
    for i, s in enumerate(path):
        method, raw = s["args"]
        o1, c1, o2, c2 = observe(cfg["dflt"], method, {True: ts.subst(raw, True), False: ts.subst(raw, False)}, cfg.get("spell", "plain"))
        exp = s["exp"]
        for obs, which in ((o1, "with"), (o2, "without")):
            if obs != exp:
                sig = _sig(method, raw, exp, obs, extra)
                sig["tree"] = which
                return {"step": i, "act": s["act"], "args": s["args"], "exp": exp, "obs": obs, "sig": sig}
        if c1 != c2:
            sig = _sig(method, raw, exp, o1, extra)
            sig["reveals"] = True
            return {"step": i, "act": s["act"], "args": s["args"], "exp": {"code": c1}, "obs": {"code": c2}, "sig": sig}
    return None


# ----------------------------------------------------------------------------- random traces
NAMES = ["a", "b", "d", "sub", "index.html", "r", "r2", "rx", "o", "..", ".", "", "...", "tmp", "etc", "zz", "a.", ".a", "..a"]


def _enc(rng, text, p):
    out = []
    for ch in text:
        c = ord(ch)
        if rng.random() < p:
            out.append((256 if rng.random() < 0.5 else 512) + c)
        else:
            out.append(c)
    return out


def random_trace(args):
    tid, seed, length = args
    rng = random.Random(seed)
    ts = _trees()
    outside = rng.random() < 0.5
    dflt = rng.random() < 0.5
    spell = rng.choice(["plain", "trailing", "dotted", "dotdot", "relative"])
    cfg = {"dflt": dflt, "outside": outside, "spell": spell}
    ev = []
    for _ in range(length):
        k = rng.choice([0, 1, 1, 2, 2, 3, 3, 4, 5, 6, 8])
        p_enc = rng.choice([0, 0, 0.1, 0.5, 1])
        segs = []
        for _j in range(k):
            r = rng.random()
            if r < 0.08:
                segs.append([256] if rng.random() < 0.5 else _enc(rng, "a", p_enc) + [256])       # NUL
            elif r < 0.14:
                segs.append("ABS")
            elif r < 0.18:
                segs.append(_enc(rng, "..", p_enc) + [256 + 92])                                     # ..%5C
            else:
                segs.append(_enc(rng, rng.choice(NAMES), p_enc))
        raws = {}
        for which in (True, False):
            out = []
            for j, sg in enumerate(segs):
                if j:
                    out.append(47)
                if sg == "ABS":
                    out.extend(ts.abs_root_units(which))
                else:
                    out.extend(sg)
            raws[which] = out
        method = rng.choice(["GET", "GET", "HEAD"])
        o1, c1, o2, c2 = observe(dflt, method, raws, spell)
        obs, twin = (o1, o2) if outside else (o2, o1)
        code, code2 = (c1, c2) if outside else (c2, c1)
        ev.append({"a": "request", "args": [method, raws[outside]], "obs": obs, "twin": twin, "code": code, "code2": code2})
    return {"id": tid, "cfg": cfg, "ev": ev}


def run(ctx):
    try:
        _trees()
        toks_q = ["a", "sub", "d", "empty", "dot", "dotdot", "r", "r2", "o", "pdotdot", "pslash", "nul", "absroot", "absr2"]
        toks_all = toks_q + ["b", "index", "rx", "mixdotdot", "ddslashdd", "anul", "nula", "bsdd", "dots3"]
        L = ctx.pick(3, 4)
        nt = lambda e, p: len(p[0]["args"][1]) > 0
        t0 = time.time()
        # the core alphabet at full length, the long-tail tokens one token shorter
        paths = W.mc_states(ctx, "webstatic", "StaticPath", "MC_StaticPath.cfg",
                            overrides={"GenToks": set(toks_q), "PathLen": L, "Methods": set(ctx.pick(["GET"], ["GET", "HEAD"]))},
                            required_actions=["request"])
        ctx.replay(paths, replayer, nontrivial=nt)
        if not ctx.quick:
            paths2 = W.mc_states(ctx, "webstatic", "StaticPath", "MC_StaticPath.cfg",
                                 overrides={"GenToks": set(toks_all), "PathLen": 3}, required_actions=["request"])
            ctx.replay(paths2, replayer, nontrivial=nt)
        # all tokens, short paths, every spelling of the configured root (trailing '/', relative, './', 'sub/..')
        paths3 = W.mc_states(ctx, "webstatic", "StaticPath", "MC_StaticPath.cfg",
                             overrides={"GenToks": set(toks_all), "PathLen": 2,
                                        "Spells": set(ctx.pick(["plain", "trailing", "relative"], SPELLS))}, required_actions=["request"])
        ctx.replay(paths3, replayer, nontrivial=nt)
        ctx._phase("mc+s2c", t0)
        ctx.cov["exhaustive"] = True
        n = ctx.pick(200, 4000)
        jobs = [(i + 1, ctx.seed * 1000003 + i, ctx.pick(20, 25)) for i in range(n)]
        t0 = time.time()
        traces = framework.pool_map(random_trace, jobs)
        ctx.validate("webstatic", "Trace_StaticPath", "Trace_StaticPath.cfg", traces, shards=ctx.pick(2, None),
                     overrides={"RootName": W.enc_name(_trees().name), "SideW": W.enc_name("w"), "SideN": W.enc_name("n")},
                     timeout=ctx.pick(900, 1500),
                     sig_fn=lambda t, bad, l: {"spell": t["cfg"]["spell"], "method": bad["args"][0], "obs_kind": bad["obs"]["kind"],
                                               "twin_kind": bad["twin"]["kind"], "codes": [bad["code"], bad["code2"]]} if bad else {})
        ctx._phase("c2s", t0)
        ctx.cov["rule"] = ("requests: every path of <= %d tokens over the 14-token core alphabet (<= %d over all 23 tokens) x default_filename on/off (the shorter paths also x HEAD and x spellings of the configured root: trailing '/', relative, './', 'sub/..'), each "
                           "on the tree with and without files outside the root; random recorded request sequences (20-25 requests "
                           "each, paths of <= 8 segments with per-character escapes); distinct = distinct (config, method, path); "
                           "non-trivial = non-empty path" % (L, ctx.pick(2, 3)))
        ctx.cov["trusted_base"] += ["harness/httpsim.split_responses (transport splitter)", "real file system under /tmp (scratch tree)"]
    finally:
        _drop_trees()


def replay(ctx, rec):
    d = rec["detail"]
    try:
        if "path" in d:
            r = replayer(d["extra"], d["path"])
            print("replay:", "diverges " + framework.jdump(r) if r else "follows the specification")
            return 1 if r else 0
        print("trace replays are validated with: ./check C26 (trace stored in the replay file)")
        return 0
    finally:
        _drop_trees()
