"""C41 - The multi-process supervisor restarts exactly the failed workers.

MC : specs/proc/ForkSupervisor.tla - every history of fork answers (parent with a fresh or reused
     pid / child) and wait reports (live or unknown pid x exit 0 / non-zero / signal / core) for
     1..3 workers (explicit, autodetected, None) and budgets 0..3.
S2C: every history up to length L enumerated by TLC is answered to the real
     tornado.process.fork_processes (os.fork / os.wait / sys.exit / cpu_count replaced from the
     harness, real os.W* on the wait status TLC computed); what the supervisor does next, its
     return value / exit code and task_id() are compared after every answer.
C2S: seeded random responders (up to 6 workers, budgets up to the default 100, arbitrary exit
     codes and signals, pid reuse, foreign pids) drive the real function; TLC validates every
     recorded run against Trace_ForkSupervisor (all invariants at every step).
"""
from harness import framework
from harness.proc_driver import replay_supervisor, gen_paths_fast, random_supervisor_trace


def replayer(extra, path):
    return replay_supervisor(extra["cfg"], path)


def run(ctx):
    ctx.mc("proc", "ForkSupervisor", "MC_ForkSupervisor.cfg",
           required_actions=["ForkParentSym", "ForkChild", "Wait", "WaitUnknownSym"])
    L = ctx.pick(6, 8)
    paths = gen_paths_fast(ctx, "proc", "Gen_ForkSupervisor", "Gen_ForkSupervisor.cfg", overrides={"L": L})
    ctx.replay(paths, replayer, nontrivial=lambda e, p: len(p) >= 3)
    ctx.cov["exhaustive"] = True
    # code -> spec
    n = ctx.pick(200, 5000)
    maxn, maxpid = 6, 60
    jobs = [(i + 1, ctx.seed * 1000003 + i, maxn, maxpid, ctx.pick(60, 120)) for i in range(n)]
    traces = framework.pool_map(random_supervisor_trace, jobs)
    ctx.validate("proc", "Trace_ForkSupervisor", "Trace_ForkSupervisor.cfg", traces,
                 overrides={"MaxN": maxn, "MaxPid": maxpid})
    ctx.cov["rule"] = "every fork/wait history up to length %d" % L


def replay(ctx, rec):
    d = rec["detail"]
    if "path" in d:
        r = replayer(d["extra"], d["path"])
        print("replay:", "diverges " + framework.jdump(r) if r else "follows the specification")
        return 1 if r else 0
    print("trace replays are validated with: ./check C41 (trace stored in the replay file)")
    return 0
