"""C41 - The multi-process supervisor restarts exactly the failed workers.

MC : specs/proc/ForkSupervisor.tla - every history of fork answers (parent with a fresh or
     reused pid / child) and wait reports (live or foreign pid x exit 0 / non-zero / signal /
     core) for 1..3 workers (explicit, <= 0 and None with autodetected cpu counts) and budgets
     0..3 (thorough: 4 workers, budgets 0..4).  Invariants OneWorkerPerId, StartsExact,
     AllStartedBeforeWaiting, BudgetRule, SuccessOnlyAfterAllNormal, ChildSeesOwnId; action
     properties NormalNeverRestarted, RestartSameId, Terminal.
S2C: every history up to length L enumerated by TLC is answered to the real
     tornado.process.fork_processes (os.fork / os.wait / sys.exit / cpu_count replaced from the
     harness; the real os.W* decode the wait status the specification computed); what the
     supervisor does next, its return value / exit code / failure and task_id() are compared
     after every answer.  Plus seeded TLC simulation walks with 4 workers and larger budgets.
C2S: seeded random environments (up to 6 workers, budgets -1..10 and the default 100, arbitrary
     exit codes and signals, pid reuse, foreign pids) drive the real function; TLC validates
     every recorded run against Trace_ForkSupervisor (all invariants at every step).

Binding demonstrated during development (VERIF_REPO=/tmp/wt-proc, see notes/proc.md):
`num_restarts > max_restarts` -> `>=`; restart with a wrong id; unknown-pid check dropped;
exit status 1 treated as normal; signals without core dump treated as normal; `_task_id = pid`;
`children.pop(pid)` -> `children[pid]` - each reported as VIOLATION by replay and trace validation.
"""
import time

from harness import framework
from harness.proc_driver import replay_supervisor, gen_paths_fast, random_supervisor_trace, binding_selftest

ACTIONS = ["ForkParentSym", "ForkChild", "Wait", "WaitUnknownSym"]


def replayer(extra, path):
    return replay_supervisor(extra["cfg"], path)


def _nontrivial(extra, path):
    return len(path) >= 3 and any(s["act"] == "wait" for s in path)


def run(ctx):
    t0 = time.time()
    # 1. model checking of the specification
    ctx.mc("proc", "ForkSupervisor", "MC_ForkSupervisor.cfg",
           overrides=ctx.pick({}, {"Ns": "{0, 1, 2, 3, 4, 99}", "Cpus": "{1, 2, 3, 4}", "Budgets": "{0, 1, 2, 3, 4}",
                                   "MaxN": 4, "MaxPid": 6}),
           required_actions=ACTIONS)
    ctx._phase("mc", t0)
    t0 = time.time()
    # 2. spec -> code: all histories up to L
    L = ctx.pick(6, 8)
    paths = gen_paths_fast(ctx, "proc", "Gen_ForkSupervisor", "Gen_ForkSupervisor.cfg", overrides=ctx.pick({"L": L}, {"L": L, "Budgets": "{0, 1, 2, 3}"}))
    ctx.replay(paths, replayer, nontrivial=_nontrivial)
    ctx.cov["exhaustive"] = True
    ctx._phase("s2c_paths", t0)
    t0 = time.time()
    sims = ctx.sim_paths("proc", "Gen_ForkSupervisor", "Gen_ForkSupervisor.cfg", num=ctx.pick(300, 3000), depth=30,
                         overrides={"L": 30, "Ns": "{0, 1, 2, 3, 4, 99}", "Cpus": "{1, 3, 4}", "Budgets": "{0, 1, 2, 3, 5, 8}",
                                    "Statuses": "{0, 1, 255, 1009, 1015, 2011}", "MaxN": 4, "MaxPid": 7})
    ctx.replay(sims, replayer, nontrivial=_nontrivial, label="s2c-sim")
    ctx._phase("s2c_sim", t0)
    t0 = time.time()
    # 3. code -> spec: recorded runs under random environments
    n = ctx.pick(300, 4000)
    maxn, maxpid = 6, 60
    jobs = [(i + 1, ctx.seed * 1000003 + i, maxn, maxpid, ctx.pick(60, 120)) for i in range(n)]
    traces = framework.pool_map(random_supervisor_trace, jobs)
    verdict = ctx.validate("proc", "Trace_ForkSupervisor", "Trace_ForkSupervisor.cfg", traces,
                           overrides={"MaxN": maxn, "MaxPid": maxpid})
    ctx._phase("c2s", t0)
    t0 = time.time()
    # non-vacuity of both bindings: a corrupted observation / dropped event / corrupted expectation must be noticed
    good = [t for t in traces if verdict[t["id"]] is None]

    def corrupt(o):
        o["pc"] = "wait" if o["pc"] != "wait" else "fork"
    binding_selftest(ctx, "Trace_ForkSupervisor", "Trace_ForkSupervisor.cfg", {"MaxN": maxn, "MaxPid": maxpid},
                     good, paths, replayer, corrupt)
    ctx._phase("selftest", t0)
    ctx.cov["rule"] = ("paths: every history of fork answers (parent with fresh/reused pid, child) and wait reports "
                       "(live or foreign pid x status in {0, 1, signal 9}) up to length %d for num_processes in {0,1,2,3} "
                       "(0 = 2 detected cpus) and max_restarts in %s; seeded TLC simulation walks (4 workers, depth 30); "
                       "random recorded environments (<= 6 workers, default budget 100 included); distinct = distinct "
                       "(config, answer sequence); non-trivial = at least two answers including a wait report"
                       % (L, ctx.pick("{0,1,2}", "{0,1,2,3}")))


def replay(ctx, rec):
    d = rec["detail"]
    if "path" in d:
        r = replayer(d["extra"], d["path"])
        print("replay:", "diverges " + framework.jdump(r) if r else "follows the specification")
        return 1 if r else 0
    if "trace" in d:
        t = d["trace"]
        if "job" in t:          # re-record the same seeded environment from the code under test
            t = random_supervisor_trace(tuple(t["job"]))
        v = ctx.validate("proc", "Trace_ForkSupervisor", "Trace_ForkSupervisor.cfg", [t],
                         overrides={"MaxN": 6, "MaxPid": 60}, shards=1)
        bad = v.get(t["id"])
        print("replay:", "recorded run rejected at event %s" % bad["at"] if bad else "recorded run accepted by the specification")
        return 1 if bad else 0
    return 2
