"""C02 - HTTP responses are well-framed and carry exactly what the handler wrote.

MC : specs/httpw/HttpWriter.tla - the obligation machine (commit at first flush, 304 substitution,
     rejected operations, outcome) over all handler programs within small constants; invariants on
     the obligation plus reader/obligation consistency: every reference serialization (Content-Length,
     chunked, close-delimited) of every reachable obligation is accepted by the strict TLA+ reader
     RespReader.tla and the classic mis-framings (undelimited body on an open connection, a byte
     beyond the message, body with 204/304, short body) are refused.
S2C: every handler program up to length L enumerated by TLC (per method x version x If-None-Match
     configuration) is executed by a real RequestHandler behind the real in-memory HTTPServer; the
     raw bytes received by the client and the EOF flag are recorded next to the program.
C2S: those recordings, and seeded random longer programs with arbitrary byte chunks / header values
     / partial socket writes, are validated by TLC against Trace_HttpWriter: each call raised iff
     the specification rejects it, and the bytes - delimited by RespReader inside TLC, there is no
     python parser - meet the obligation (one message, nothing after it, status, tracked headers,
     body, no body for HEAD/204/304, Content-Length = body length, close-delimited => closed).

Binding demonstrated during development (scratch worktree, see notes/httpw.md): dropping the
`and self._request_start_line.method != "HEAD"` clause, `>=` for `>` in the over-length guard and
removing the 304 body reset in finish() are each reported as VIOLATION.
"""
import random
import time

from harness import framework
from harness import httpw_driver as drv

FAM = "httpw"


def _job(args):
    tid, cfg, ops, kw = args
    return drv.program_trace(tid, cfg, ops, **kw)


def sig_of(t, bad, l):
    """Canonical, low-cardinality description of a rejected trace (for known-finding matching)."""
    ev = t["ev"]
    acts = [e["a"] for e in ev[:l]]
    flushed_before = "flush" in [e["a"] for e in ev[:max(0, l - 1)]]
    statuses = [e["args"][0] for e in ev[:l] if e["a"] == "set_status"]
    sig = {"method": t["cfg"]["method"], "version": t["cfg"]["version"], "inm": t["cfg"].get("inm"),
           "at": bad["a"] if bad else None,
           "err": (bad.get("obs") or {}).get("err") if bad and bad["a"] != "response" else None,
           "flushed_before": flushed_before,
           "status_set": statuses[-1] if statuses else 200,
           "ops": "-".join(a for a in acts if a not in ("end", "response"))[:120]}
    if bad and bad["a"] == "response":
        out = bytes(bad["obs"]["out"])
        sig["eof"] = bad["obs"]["eof"]
        sig["status_line"] = out.split(b"\r\n", 1)[0].decode("latin1")[:40]   # display only
        head = out.split(b"\r\n\r\n", 1)[0]
        sig["has_cl"] = b"\r\nContent-Length:" in head
        sig["has_te"] = b"\r\nTransfer-Encoding:" in head
    return sig


def random_program(rng):
    """Longer programs with arbitrary bytes; returns (cfg, ops, kw)."""
    method = rng.choice(["GET", "GET", "HEAD", "POST"])
    version = rng.choice(["1.0", "1.0ka", "1.1", "1.1"])
    inm = "absent" if method == "POST" else rng.choice(["absent", "absent", "match", "differ", "star"])
    cfg = {"method": method, "version": version, "inm": inm}
    ops = []
    n = rng.randint(1, 9)
    total = 0
    if rng.random() < 0.25:
        # focus: no-body status, explicit Content-Length, data pushed out by flush
        body = [rng.choice(b"abc") for _ in range(rng.choice([0, 1, 5]))]
        pre = [("set_status", [rng.choice([204, 304, 304, 200])]),
               ("set_header", [list(b"Content-Length"), list(str(len(body) + rng.choice([0, 0, 1])).encode())])]
        rng.shuffle(pre)
        ops = pre[:rng.choice([1, 2, 2])] + [("write", [body])] + rng.choice([[("flush", [])], [], [("flush", []), ("flush", [])]])
        if rng.random() < 0.3:
            ops.append(("finish", [[]]))
        return cfg, ops, {}

    def chunk():
        k = rng.choice([0, 1, 2, 5, 17, 60, 200])
        mode = rng.random()
        if mode < 0.3:
            return [rng.randrange(256) for _ in range(k)]
        if mode < 0.5:      # bytes that look like framing
            return list((b"\r\n0\r\n\r\nHTTP/1.1 200 OK\r\nContent-Length: 3\r\n\r\n" * 8)[:k])
        return [rng.choice(b"abcxyz \r\n") for _ in range(k)]

    names = [b"X-A", b"x-a", b"X-B", b"X-Long-Header-Name"]
    for _ in range(n):
        r = rng.random()
        if r < 0.12:
            ops.append(("set_status", [rng.choice([200, 204, 304, 404, 201, 500, 302])]))
        elif r < 0.24:
            v = rng.choice([b"1", b"v w", b" padded ", b"\xe9t\xe9", b"a,b", b""])
            ops.append(("set_header", [list(rng.choice(names)), list(v)]))
        elif r < 0.30:
            ops.append(("add_header", [list(rng.choice(names)), list(rng.choice([b"1", b"2", b"x y"]))]))
        elif r < 0.36:
            ops.append(("clear_header", [list(rng.choice(names))]))
        elif r < 0.42:
            # explicit Content-Length, usually right for what will have been written
            guess = total + rng.choice([0, 0, 0, 1, 5])
            ops.append(("set_header", [list(b"Content-Length"), list(str(guess).encode())]))
        elif r < 0.70:
            c = chunk()
            total += len(c)
            ops.append(("write", [c]))
        elif r < 0.85:
            ops.append(("flush", []))
        else:
            c = chunk() if rng.random() < 0.5 else []
            total += len(c)
            ops.append(("finish", [c]))
    kw = {}
    if rng.random() < 0.3:
        kw["write_plan"] = [rng.choice([1, 2, 7, 50]) for _ in range(40)]
    return cfg, ops, kw


def run(ctx):
    # 1. model checking of the obligation machine + reader consistency
    t0 = time.time()
    ctx.mc(FAM, "HttpWriter", "MC_HttpWriter.cfg",
           overrides=ctx.pick({}, {"Inms": '{"absent", "differ", "match", "star"}', "MaxBody": 4}),
           required_actions=["LSetStatus", "LSetHeader", "LAddHeader", "AClearHeader", "WriteB",
                             "Flush", "FinishB", "End"], timeout=ctx.pick(300, 1200))
    ctx._phase("mc", t0)
    # 2. spec -> code -> spec: every program up to L
    L = 3
    t0 = time.time()
    paths = ctx.gen_paths(FAM, "Gen_HttpWriter", "Gen_HttpWriter.cfg",
                          overrides=ctx.pick({"L": L, "Methods": '{"GET", "HEAD"}'},
                                             {"L": L, "Statuses": "{204, 304, 404}", "ClVals": "{1, 3}",
                                              "InmVersions": '{"1.0", "1.0ka", "1.1"}'}))
    if ctx.quick:       # POST differs from GET only in never being ETag-checked: length 2 in the quick tier
        paths += ctx.gen_paths(FAM, "Gen_HttpWriter", "Gen_HttpWriter.cfg", overrides={"L": 2, "Methods": '{"POST"}'})
    # length 4 on the no-body statuses with an explicit Content-Length (204/304 x Content-Length x write x flush,
    # ETag-substituted 304 with the handler's own Content-Length): GET x 1.1 x If-None-Match absent/match
    paths += ctx.gen_paths(FAM, "Gen_HttpWriter", "Gen_HttpWriter.cfg",
                           overrides={"L": 4, "Methods": '{"GET"}', "Versions": '{"1.1"}', "Inms": '{"absent", "match"}',
                                      "Statuses": "{204, 304}", "HdrVals": "{}", "ClVals": "{1}", "ChunkIds": "{1}"})
    if not ctx.quick:
        # length 4 on the configurations where framing decisions differ most (GET x 1.0+keep-alive / 1.1)
        paths += ctx.gen_paths(FAM, "Gen_HttpWriter", "Gen_HttpWriter.cfg",
                               overrides={"L": 4, "Methods": '{"GET"}', "Versions": '{"1.0ka", "1.1"}', "Inms": '{"absent"}'},
                               timeout=1200)
    ctx._phase("gen", t0)
    jobs = [(i + 1, extra["cfg"], drv.path_ops(path), {}) for i, (extra, path) in enumerate(paths)]
    ctx.cov["exhaustive"] = True
    # 3. code -> spec: random longer programs, arbitrary bytes, partial socket writes
    n = ctx.pick(1500, 20000)
    base = len(jobs)
    rjobs = []
    for i in range(n):
        rng = random.Random(ctx.seed * 1000003 + i)
        cfg, ops, kw = random_program(rng)
        rjobs.append((base + i + 1, cfg, ops, kw))
    with drv.phase(ctx, "execute"):
        traces = framework.pool_map(_job, jobs + rjobs)
    with drv.phase(ctx, "validate"):
        ctx.validate(FAM, "Trace_HttpWriter", "Trace_HttpWriter.cfg", traces, label="s2c+c2s",
                     sig_fn=drv.with_kind(sig_of, base + 1), timeout=900)
    # 4. HEAD vs GET under the gzip output transform (Content-Length of a HEAD = length of the body a GET carries)
    from checks import C29
    with drv.phase(ctx, "head_vs_get"):
        ctx.note("head_vs_get_traces", drv.head_vs_get(ctx, C29.sig_of))
    ctx.cov["rule"] = ("programs: every sequence of set_status/set_header/add_header/clear_header/write/flush/finish "
                       "up to length %d for GET/HEAD/POST x HTTP/1.0, 1.0+keep-alive, 1.1 (If-None-Match matching: GET/HEAD, quick: 1.1 only), "
                       "executed on the real server and judged by TLC (RespReader on the raw bytes); plus seeded random "
                       "programs (<= 9 ops, arbitrary byte chunks, partial socket writes); thorough adds all programs of length 4 for "
                       "GET x {1.0+keep-alive, 1.1}; distinct = distinct (configuration, operation sequence)" % L)
    ctx.cov["trusted_base"] += ["harness/httpw_driver.py (moves bytes only)", "specs/httpw/RespReader.tla (strict reader, TLA+)"]


def replay(ctx, rec):
    d = rec["detail"]
    t = d.get("trace")
    if not t:
        print("specification-level violation; rerun ./check C02")
        return 1
    if "ctype" in t["cfg"]:          # a HEAD-vs-GET trace under the gzip transform: judged by Trace_Gzip
        from checks import C29
        return C29.replay(ctx, rec)
    ops = [(e["a"], e["args"]) for e in t["ev"] if e["a"] not in ("end", "response")]
    # a program that raised stops there; re-execute exactly the recorded calls
    t2 = drv.program_trace(t["id"], t["cfg"], ops)
    same = t2["ev"] == t["ev"] or [e for e in t2["ev"] if e["a"] != "response"] == [e for e in t["ev"] if e["a"] != "response"]
    v = ctx.validate(FAM, "Trace_HttpWriter", "Trace_HttpWriter.cfg", [t2], label="replay", sig_fn=sig_of, shards=1, timeout=900)
    bad = v[t2["id"]]
    out = bytes(t2["ev"][-1]["obs"]["out"])
    print("replay: ops=%s cfg=%s" % (ops, t["cfg"]))
    print("replay: wire=%r eof=%s" % (out[:600], t2["ev"][-1]["obs"]["eof"]))
    print("replay:", ("REJECTED by the specification at event %d (%s)" % (bad["at"], bad["event"]["a"])) if bad else
          "accepted by the specification", "" if same else "(events differ from the recording)")
    ctx.violations.clear()
    return 1 if bad else 0
