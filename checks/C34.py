"""C34 - Conditions and events wake exactly the right waiters.

MC : specs/sync/CondEvent.tla - all interleavings of wait(timeout)/notify(n)/notify_all/advance/cancel
     (Condition) and wait(timeout)/set/clear/advance/cancel (Event) over NW wait calls; invariants and
     action properties state the property (exact wake count in arrival order, False only by the own
     deadline, event wait ok <=> set at/after the call before the deadline, no residue, sticky results).
S2C: every operation sequence up to length L enumerated by TLC (path enumeration) plus seeded
     TLC simulation walks are replayed on the real Condition / Event on the virtual loop; the
     projection (every wait future's state, order of True wake-ups / is_set() and which finished
     wait futures are still reachable, by weak reference) is compared after every step.
     Every behaviour is replayed under four placements of event-loop iterations: settled after every
     call; all calls of a stretch inside one iteration (no callback runs between them) with the calls
     after an advance made from a callback in the iteration in which the timers fire; the same one
     iteration later; and a pseudo-random placement two iterations later (see harness.sync_driver._Fused).
C2S: seeded random runs recorded from the real objects (many more waiters, long histories; one
     profile is timeout-heavy so that Condition's lazy clean-up of >100 timed-out waiters happens
     with live waiters queued) are validated by TLC against Trace_CondEvent with every invariant
     and action property evaluated at every step.

Binding demonstrated during development (scratch worktree, see notes/sync.md): dropping the
`if not waiter.done()` test in Condition.notify, inverting the filter of _garbage_collect,
removing the `fut.cancel()` clean-up in Event.wait, making Event.set skip when already set ... each
reported as VIOLATION by the part named in the notes.
"""
import os
import random
import zlib

from harness import framework, sync_paths
from harness.framework import canon
from harness.sync_driver import CondEventReal, NOTO

NW_GEN = 4


def _style(path):
    return zlib.crc32(framework.jdump([[s["act"], s["args"]] for s in path]).encode()) & 1


def _differs(exp, obs):
    return sorted(k for k in set(exp) | set(obs) if exp.get(k) != obs.get(k))


def _needs_settle(s):
    return s["act"] in ("wait", "ev_wait") and s["args"][1] == 0


# placements of loop iterations tried for every behaviour besides "settle after every call":
# (fuse predicate on the step index, iterations between the timers of an advance and the follow-up calls)
def _placements(h):
    return [(lambda i: True, 0), (lambda i: True, 1), (lambda i: (h >> (i % 16)) & 1 == 1, 2)]


def replayer(extra, path, nw=NW_GEN):
    cfg = extra["cfg"]
    h = zlib.crc32(framework.jdump([[s["act"], s["args"]] for s in path]).encode())
    real = CondEventReal(cfg, nw, style=h & 1)
    try:
        for i, s in enumerate(path):
            obs = canon(real.step(s["act"], s["args"]))
            if obs != s["exp"]:
                return {"step": i, "act": s["act"], "args": s["args"], "exp": s["exp"], "obs": obs,
                        "sig": {"act": s["act"], "kind_": cfg["kind"], "differs": _differs(s["exp"], obs),
                                "obs_err": obs.get("err", "none"), "placement": "settled"}}
    finally:
        real.close()
    if len(path) < 2:
        return None
    for n, (fuse, delay) in enumerate(_placements(h >> 1)):
        real = CondEventReal(cfg, nw, style=(h + n + 1) & 1)
        try:
            d = sync_paths.fused_replay(real, path, _needs_settle, fuse, delay)
        finally:
            real.close()
        if d is not None:
            d["sig"] = {"act": d["act"], "kind_": cfg["kind"], "differs": _differs(d["exp"], d["obs"]),
                        "obs_err": d["obs"].get("err", "none"), "placement": "fused%d" % n}
            return d
    return None


def replayer_sim(extra, path):
    return replayer(extra, path, nw=NW_SIM)


NW_SIM = 20


def random_trace(args):
    """One recorded run of the real object.  profile: 'mixed' | 'timeouts' (mostly short timed waits
    and clock advances, crosses the 100-timeouts clean-up with live waiters present)."""
    tid, seed, nw, length, kind, profile = args
    rng = random.Random(seed)
    cfg = {"kind": kind, "style": rng.randrange(2)}
    real = CondEventReal(cfg, nw, style=cfg["style"])
    ev = []
    nxt = 1
    try:
        for _ in range(length):
            pend = real.pending()
            timed = [w for w in pend if real.dl.get(w) is not None]
            ch = []
            if nxt <= nw:
                ch += ["wait"] * (6 if profile == "timeouts" else 4)
            if kind == "cond":
                ch += ["notify"] * (1 if profile == "timeouts" else 3) + ["notify_all"] * (0 if profile == "timeouts" else 1)
            else:
                ch += ["set"] * (1 if profile == "timeouts" else 2) + ["clear"] * 2
            if pend:
                ch += ["cancel"]
            if timed:
                ch += ["advance"] * (4 if profile == "timeouts" else 2)
            a = rng.choice(ch)
            if a == "wait":
                if profile == "timeouts":
                    to = rng.choice([NOTO, 0, 0, 1, 1, 2, 2])
                else:
                    to = rng.choice([NOTO, NOTO, NOTO, 0, 1, 2, 3, 5])
                args_ = [nxt, to]
                nxt += 1
                a = "wait" if kind == "cond" else "ev_wait"
            elif a == "notify":
                args_ = [rng.choice([0, 1, 1, 1, 2, 2, 3, 5])]
            elif a == "cancel":
                args_ = [rng.choice(pend)]
            elif a == "advance":
                args_ = [rng.choice([1, 1, 2, 3])]
            else:
                args_ = []
            obs = real.step(a, args_)
            ev.append({"a": a, "args": args_, "obs": obs})
        return {"id": tid, "cfg": cfg, "ev": ev}
    finally:
        real.close()


def _trace_sig(t, bad, l):
    return {"kind_": t["cfg"]["kind"], "obs_err": (bad or {}).get("obs", {}).get("err", "none") if bad else "none"}


GEN_FAMILIES = [
    # (name, overrides, L quick, L thorough): every sequence over the family's alphabet up to L
    ("full", {"Timeouts": "{0, 1, 999}", "MaxAdvance": 2, "MaxNotify": 2}, 5, 6),
    # at L = 5 the two sub-alphabets would be (nearly) subsets of `full`: thorough tier only (quick L = 0 = skipped)
    ("untimed", {"Timeouts": "{999}", "MaxAdvance": 1, "MaxNotify": 3}, 0, 6),
    ("timed", {"Timeouts": "{1, 2}", "MaxAdvance": 2, "MaxNotify": 1}, 0, 6),
]


def c2s(ctx, n):
    """1 run in 12 is a timeout-heavy Condition run (crosses the lazy clean-up of > 100 timed-out waiters with
    live waiters queued; Event has no such threshold), the others alternate Condition / Event."""
    jobs = []
    for i in range(n):
        if i % 12 == 0:
            jobs.append((i + 1, ctx.seed * 1000003 + i, 200, ctx.pick(270, 400), "cond", "timeouts"))
        else:
            jobs.append((i + 1, ctx.seed * 1000003 + i, 90, ctx.pick(120, 220), "cond" if i % 2 == 0 else "event", "mixed"))
    workers = int(os.environ.get("VERIF_WORKERS", "16"))
    for nw in (90, 200):
        part = framework.pool_map(random_trace, [j for j in jobs if j[2] == nw])
        if part:
            ctx.validate("sync", "Trace_CondEvent", "Trace_CondEvent.cfg", part, overrides={"NW": nw},
                         shards=max(1, min(workers, len(part) // (24 if nw == 90 else 4))),
                         sig_fn=_trace_sig, label="c2s-nw%d" % nw, timeout=ctx.pick(900, 3000))


def selftest(ctx):
    """non-vacuity of both binding directions on a fixed short run (machinery failure if it does not fire)"""
    script = [("wait", [1, NOTO]), ("wait", [2, 1]), ("notify", [1]), ("wait", [3, NOTO]), ("advance", [1]), ("notify_all", [])]
    cfg = {"kind": "cond", "style": 0}
    real = CondEventReal(cfg, NW_GEN, style=0)
    try:
        ev = [{"a": a, "args": args, "obs": real.step(a, args)} for a, args in script]
    finally:
        real.close()

    def corrupt(obs):
        obs = dict(obs)
        obs["st"] = list(obs["st"])
        obs["st"][0] = "false" if obs["st"][0] != "false" else "true"
        return obs
    sync_paths.binding_selftest(ctx, "Trace_CondEvent", "Trace_CondEvent.cfg", {"NW": NW_GEN}, {"id": 1, "cfg": cfg, "ev": ev},
                                corrupt, lambda e, p: replayer({"cfg": {"kind": "cond"}}, p))


def _timed(ctx, name, t0):
    import time
    ctx.cov.setdefault("phases_s", {})[name] = round(time.time() - t0, 1)
    return time.time()


def run(ctx):
    import time
    t0 = time.time()
    selftest(ctx)
    t0 = _timed(ctx, "selftest", t0)
    # 1. model checking of the specification
    ctx.mc("sync", "CondEvent", "MC_CondEvent.cfg",
           overrides=ctx.pick({}, {"NW": 5, "Timeouts": "{0, 1, 2, 3, 999}", "MaxAdvance": 3, "MaxNotify": 4}),
           required_actions=["Wait", "Notify", "NotifyAll", "EvWait", "Set", "Clear", "Advance", "Cancel"],
           timeout=ctx.pick(900, 3000))
    t0 = _timed(ctx, "mc", t0)
    # 2. spec -> code: all paths up to L over three alphabets
    rule = []
    fams = []
    for name, ov, lq, lt in GEN_FAMILIES:
        L = ctx.pick(lq, lt)
        if not L:
            continue
        o = dict(ov)
        o["L"] = L
        fams.append(("s2c-" + name, o))
        rule.append("%s: all sequences <= %d over %s" % (name, L, ", ".join("%s=%s" % kv for kv in sorted(ov.items()))))
    sync_paths.stream_replay_many(ctx, "Gen_CondEvent", "Gen_CondEvent.cfg", fams, replayer, parallel=ctx.pick(3, 2),
                                  nontrivial=lambda e, p: len(p) >= 2 and any(s["act"] != "advance" for s in p))
    ctx.cov["exhaustive"] = True
    t0 = _timed(ctx, "s2c-enum", t0)
    # long seeded walks through larger constants
    sync_paths.sim_replay(ctx, "Gen_CondEvent", "Sim_CondEvent.cfg", num=ctx.pick(100, 1000), depth=ctx.pick(30, 40),
                          overrides={"NW": NW_SIM, "Timeouts": "{0, 1, 2, 3, 999}", "MaxAdvance": 3, "MaxNotify": 4},
                          replayer=replayer_sim)
    t0 = _timed(ctx, "s2c-sim", t0)
    # 3. code -> spec: random recorded runs validated by TLC
    c2s(ctx, ctx.pick(96, 2000))
    t0 = _timed(ctx, "c2s", t0)
    ctx.cov["rule"] = ("paths: " + "; ".join(rule) + "; per object kind (Condition, Event); plus seeded TLC simulation "
                       "walks (depth 40, 20 waiters) and random recorded runs; distinct = distinct (config, operation "
                       "sequence); non-trivial = length >= 2 with a non-advance op")


def replay(ctx, rec):
    d = rec["detail"]
    if "path" in d:
        nw = max([NW_GEN] + [len(s["exp"]["st"]) for s in d["path"]])
        r = replayer(d["extra"], d["path"], nw=nw)
        print("replay:", "diverges " + framework.jdump(r) if r else "follows the specification")
        return 1 if r else 0
    if "trace" in d:
        t = d["trace"]
        nw = len(t["ev"][0]["obs"]["st"]) if t["ev"] else NW_GEN
        again = random_replay(t, nw)
        v = ctx.validate("sync", "Trace_CondEvent", "Trace_CondEvent.cfg", [again], overrides={"NW": nw}, sig_fn=_trace_sig)
        bad = v[again["id"]]
        print("replay:", "re-recorded trace rejected at event %d: %s" % (bad["at"], framework.jdump(bad["event"])) if bad
              else "re-recorded trace accepted by the specification")
        return 1 if bad else 0
    print("nothing to replay in this record")
    return 2


def random_replay(t, nw):
    """Re-execute the operation sequence of a recorded trace on the current tree."""
    real = CondEventReal(t["cfg"], nw, style=t["cfg"].get("style", 0))
    ev = []
    try:
        for e in t["ev"]:
            # the recorded operation sequence was chosen against the recording tree's state; operations that
            # are not applicable on this tree (cancel of a finished wait, advance without a deadline) are skipped
            if e["a"] == "cancel" and e["args"][0] not in real.pending():
                continue
            if e["a"] == "advance" and not any(real.dl.get(w) is not None for w in real.pending()):
                continue
            ev.append({"a": e["a"], "args": e["args"], "obs": real.step(e["a"], e["args"])})
    finally:
        real.close()
    return {"id": t["id"], "cfg": t["cfg"], "ev": ev}
