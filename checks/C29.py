"""C29 - Gzip output encoding is transparent to the client.

MC : specs/httpw/Gzip.tla (write/flush/finish programs with run lengths around the 1 KiB threshold;
     model invariants).
S2C/C2S: every program up to 3 operations (lengths 0, 1, 1023, 1024) per content type x
     Accept-Encoding configuration is executed on a real Application(compress_response=True) behind
     the in-memory server; the raw bytes are judged by TLC (Trace_Gzip): RespReader delimits the
     body (so a wrong Content-Length or chunk framing is caught there), the body decoded per
     Content-Encoding equals the bytes written (the harness gunzips with the stdlib as exactly one
     complete member and supplies [enc, dec]; TLC checks enc is the body it delimited), encoded =>
     compressible type and Accept-Encoding mentions gzip, Vary includes Accept-Encoding, the handler's
     own Content-Encoding is not encoded again.  Random programs with arbitrary bytes, HTTP/1.0,
     pre-set Vary / Content-Encoding, more content types, partial socket writes.

Binding demonstrated during development (scratch worktree, notes/httpw.md): leaving the stale
Content-Length in place of `headers["Content-Length"] = str(len(chunk))`, `flush()` -> no flush in
transform_chunk (data withheld until close is fine, so instead: dropping the final close()), and
compressing regardless of Accept-Encoding - each reported as VIOLATION.
"""
import random

from harness import framework
from harness import httpw_driver as drv

FAM = "httpw"


def _job(args):
    tid, cfg, ops, kw = args
    return drv.gz_trace(tid, cfg, ops, **kw)


def sig_of(t, bad, l):
    c = t["cfg"]
    sig = {"method": c.get("method", "GET"), "resp": c.get("resp", "200"), "version": c["version"], "ctype": c["ctype"], "ae": c["ae"], "pre": c["pre"], "at": bad["a"] if bad else None,
           "ops": "-".join(e["a"] for e in t["ev"] if e["a"] not in ("end", "response"))[:80]}
    if bad and bad["a"] == "response":
        ob = bad["obs"]
        head = bytes(ob["out"]).split(b"\r\n\r\n", 1)[0]
        sig.update({"gz_used": ob["gz"]["used"], "gz_ok": ob["gz"]["ok"], "eof": ob["eof"],
                    "has_cl": b"\r\nContent-Length:" in head, "has_te": b"\r\nTransfer-Encoding:" in head})
    elif bad:
        sig["err"] = (bad.get("obs") or {}).get("err")
    return sig


CTYPES = ["default", "text/plain", "text/css; charset=utf-8", "application/json", "application/json; charset=utf-8",
          "application/javascript", "image/svg+xml", "image/png", "application/octet-stream", "application/pdf; x=text/",
          "TEXT/PLAIN", "application/jsonx"]
AES = ["absent", "gzip", "deflate, gzip", "gzip, deflate, br", "gzip;q=0.5", "x-gzip", "identity", "deflate", "br", "GZIP", "*"]


def random_case(rng):
    cfg = {"version": rng.choice(["1.1", "1.1", "1.0"]), "ctype": rng.choice(CTYPES), "ae": rng.choice(AES),
           "pre": rng.choice(["none", "none", "none", "vary", "ce"]), "resp": rng.choice(["200", "200", "200", "304", "204"])}
    ops = []
    for _ in range(rng.randint(1, 6)):
        r = rng.random()
        if r < 0.6 and cfg["resp"] == "204":
            continue
        if r < 0.6:
            n = 0 if cfg["resp"] == "204" else rng.choice([0, 1, 7, 100, 511, 1023, 1024, 1025, 2000, 3000])
            mode = rng.random()
            if mode < 0.4:
                data = bytes([rng.choice(b"ab")]) * n
            elif mode < 0.7:
                data = bytes(rng.choice(b"abc \n") for _ in range(min(n, 600)))
            else:
                data = bytes(rng.randrange(256) for _ in range(min(n, 300)))
            ops.append(("write", [drv.rle(data)]))
        elif r < 0.85:
            ops.append(("flush", []))
        else:
            ops.append(("finish", [drv.rle(b"z" * (0 if cfg["resp"] == "204" else rng.choice([0, 0, 1, 1024])))]))
    kw = {}
    if rng.random() < 0.25:
        kw["write_plan"] = [rng.choice([1, 5, 64, 500]) for _ in range(60)]
    return cfg, ops, kw


def run(ctx):
    ctx.mc(FAM, "Gzip", "MC_Gzip.cfg", required_actions=["AWrite", "AFlush", "AFinish", "End"],
           overrides=ctx.pick({}, {"MaxOps": 4, "Lens": "{0, 1, 1023, 1024, 1025}", "Versions": '{"1.0", "1.1"}'}))
    paths = ctx.gen_paths(FAM, "Gen_Gzip", "Gen_Gzip.cfg",
                          overrides=ctx.pick({}, {"Lens": "{0, 1, 1023, 1024, 1025}", "Pres": '{"none", "vary", "ce"}'}))
    # bodyless answers: status 204, and the 304 substituted for a matching If-None-Match ("Vary always ...")
    paths += ctx.gen_paths(FAM, "Gen_Gzip", "Gen_Gzip.cfg",
                           overrides={"Resps": '{"204", "304"}', "Lens": "{0, 1024}", "MaxOps": 2, "L": 3,
                                      "CTypes": '{"default", "image/png"}', "AEs": '{"absent", "gzip"}'})
    jobs = []
    for i, (extra, path) in enumerate(paths):
        ops = [(s["act"], s["args"]) for s in path if s["act"] != "end"]
        jobs.append((i + 1, extra["cfg"], ops, {}))
    ctx.cov["exhaustive"] = True
    n = ctx.pick(1200, 15000)
    base = len(jobs)
    rjobs = []
    for i in range(n):
        rng = random.Random(ctx.seed * 1000003 + i)
        cfg, ops, kw = random_case(rng)
        rjobs.append((base + i + 1, cfg, ops, kw))
    traces = framework.pool_map(_job, jobs + rjobs)
    ctx.validate(FAM, "Trace_Gzip", "Trace_Gzip.cfg", traces, label="s2c+c2s", sig_fn=drv.with_kind(sig_of, base + 1), timeout=900)
    nhead = drv.head_vs_get(ctx, sig_of)
    ctx.note("head_vs_get_traces", nhead)
    enc = sum(1 for t in traces if t["ev"][-1]["obs"]["gz"]["used"])
    ctx.note("responses_gzip_encoded", enc)
    if enc == 0:
        raise framework.Machinery("vacuity: no recorded response was gzip encoded")
    ctx.cov["rule"] = ("programs: every write/flush/finish sequence up to 3 operations with lengths {0,1,1024} (thorough: + 1023, 1025) for "
                       "content types {default text/html, application/json; charset, image/png} x Accept-Encoding {absent, gzip, "
                       "'deflate, gzip', identity}; plus seeded random programs (arbitrary bytes up to 3000, 12 content types, 11 "
                       "Accept-Encoding values, HTTP/1.0, pre-set Vary / Content-Encoding, partial socket writes); %d responses "
                       "were gzip encoded" % enc)
    ctx.cov["trusted_base"] += ["harness/httpw_driver.py (moves bytes; stdlib zlib as the opaque codec)",
                                "harness/httpsim.split_responses (locates the body handed to zlib; TLC re-checks it is the reader's body)",
                                "specs/httpw/RespReader.tla"]


def replay(ctx, rec):
    t = rec["detail"].get("trace")
    if not t:
        print("specification-level violation; rerun ./check C29")
        return 1
    ops = [(e["a"], e["args"]) for e in t["ev"] if e["a"] not in ("end", "response")]
    t2 = drv.gz_trace(t["id"], t["cfg"], ops)
    v = ctx.validate(FAM, "Trace_Gzip", "Trace_Gzip.cfg", [t2], label="replay", sig_fn=sig_of, shards=1, timeout=900)
    bad = v[t2["id"]]
    ob = t2["ev"][-1]["obs"]
    print("replay: cfg=%s ops=%s" % (t["cfg"], str(ops)[:300]))
    print("replay: wire=%r eof=%s gz_used=%s gz_ok=%s" % (bytes(ob["out"])[:500], ob["eof"], ob["gz"]["used"], ob["gz"]["ok"]))
    print("replay:", ("REJECTED by the specification at event %d" % bad["at"]) if bad else "accepted by the specification")
    ctx.violations.clear()
    return 1 if bad else 0
