"""C22 - linkify output is escaped text plus safe links only.

MC : specs/text/Linkify.tla - the relation LinkifyOk over the scanned output (anchors
     <a href="H"P>L</a> vs escaped text) is satisfiable (the plain escaped text is accepted) and
     not trivial (raw text with markup characters is rejected) for every enumerated input.
S2C: TLC enumerates inputs slot by slot (prefix x protocol incl. javascript: / www. / upper-case x
     host or filler of parametric length around the 30 / 45 character shortening thresholds x
     middle with quotes, '&', paths, queries, parentheses x tail) and freely from a token table,
     for every option combination of the tier; each (text, options, output) recorded from the real
     tornado.escape.linkify (str and bytes input) is judged by TLC with LinkifyOk.
C2S: seeded random Unicode mixed with URL fragments, entities, quotes and protocols, random
     options, validated by TLC the same way.

Binding demonstrated during development (scratch worktree, notes/text.md): protocol compared
case-insensitively (`proto.lower() not in permitted_protocols`: an HTTP:// link is emitted, TLC
rejects the href scheme); negative control: max_len 30 -> 35 changes outputs but not the property
and is accepted.
"""
import random

from harness import text_driver as td

MODULE = "Linkify"


def random_items(seed, n):
    rng = random.Random(seed)
    frags = ["http://", "https://", "ftp://", "javascript:", "mailto:", "www.", "HTTP://", "example.com", "a.com", "/", "/path/to",
             "?q=1&r=2", "&", "&amp;", "&quot;", "&lt;", '"', "'", "<", ">", "(", ")", ".", ",", " ", " ", "\n", "x" * 9, "y" * 17,
             "é", "日本", "#frag", "%20", ":", "@", "!", "-", "_", "~", "=", ";", ";v=2", ";jsessionid=1"]
    items = []
    for _ in range(n):
        cfg = {"kind": "free", "shorten": rng.random() < 0.6, "rp": rng.random() < 0.3, "perm": rng.choice([1, 1, 2, 3]),
               "extra": rng.choice([0, 0, 1, 2])}
        x = [td.cps(td.rand_text(rng, frags, 14, 0.05))]
        items.append((cfg, [("linkify", x)]))
    return items


def run(ctx):
    ctx.mc("text", MODULE, "MC_Linkify.cfg", timeout=ctx.pick(900, 1500), overrides=ctx.pick({"MaxFree": 1, "Shortens": "{TRUE}", "RequireProtos": "{FALSE}"}, {"MaxFree": 2}),
           required_actions=["Extend"])
    ov = ctx.pick({"Level": 1, "MaxFree": 2, "Perms": "{1}", "Extras": "{0}", "RequireProtos": "{FALSE}"},   # rp=True: random + thorough
                  {"Level": 2, "MaxFree": 3, "Perms": "{1, 3}", "Extras": "{0, 2}"})
    states = ctx.gen_states("text", MODULE, "Gen_Linkify.cfg", timeout=ctx.pick(900, 1500), overrides=ov)
    paths, rel_items = td.paths_from_states(states)
    rel_traces = td.record(MODULE, rel_items)
    ctx.cov["exhaustive"] = True
    items = random_items(ctx.seed * 7919 + 22, ctx.pick(800, 20000))
    traces = td.record(MODULE, items)
    td.validate_both(ctx, MODULE, "Trace_Linkify", "Trace_Linkify.cfg", rel_traces, traces)
    ctx.cov["rule"] = ("texts: prefix x 7 protocols x 5 hosts/fillers (lengths 17-34) x 9 middles x 5-8 tails, and every text of <= "
                       "%d free tokens, under shorten x require_protocol (quick) x 2 permitted-protocol sets x 2 extra_params forms "
                       "(thorough); plus seeded random texts of <= 14 fragments; every output judged by TLC" % ov["MaxFree"])
    ctx.cov["trusted_base"] += ["harness/text_driver.py adapters (option marshalling)"]


def replay(ctx, rec):
    return td.replay_record(ctx, MODULE, "Trace_Linkify", "Trace_Linkify.cfg", rec)
