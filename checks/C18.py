"""C18 - The native WebSocket masking routine equals the reference definition.

MC : specs/ws/MaskAlgo.tla - PlusCal transcription of speedups.c's loop structure (64-bit words,
     32-bit words, tail bytes; both word sizes, both byte orders) checked against MaskRef: the
     inductive-style invariant `Partial` at every step, `Correct` at termination, termination.
S2C: TLC enumerates (mask, payload) inputs with the reference result (Gen_MaskRef: 4-byte masks,
     wrong-length masks, every length 0..MaxLen); each is run through the compiled function
     (speedups.c of the tree under test, built with gcc in a scratch dir) and through
     tornado.util._websocket_mask_python at all 8 memory alignments and compared with TLC's value.
C2S: vectors (mask, payload at alignment a, result of both functions) for lengths 0..130 plus
     the 255-257 / 1023-1025 / 4095-4096 neighbourhoods (thorough: every length 0..4096) x 8
     alignments, structured and seeded-random masks, wrong-length masks, are validated by TLC
     against MaskRef (Trace_MaskRef).

Binding demonstrated during development (scratch worktree, VERIF_REPO=...): `mask[i]` ->
`mask[3 - i]` in the tail loop of speedups.c (S2C + C2S), `mask_len != 4` -> `mask_len < 4` (S2C:
8-byte mask accepted), the 64-bit mask built with `<< 24` instead of `<< 32` (S2C + C2S), and a
python fallback that is only wrong from byte 64 on (`i % 4` -> `i & 3 if i < 64 else i % 5 % 4`;
beyond the S2C lengths - reported by C2S only) were each reported as VIOLATION.
"""
import random
import time

from harness import framework, ws_mask
from harness.framework import canon


def _sig(impl, mask, data, align, exp, obs):
    n = len(data)
    first_bad = None
    if exp["err"] == obs["err"] == "none" and len(exp["res"]) == len(obs["res"]):
        for i, (a, b) in enumerate(zip(exp["res"], obs["res"])):
            if a != b:
                first_bad = i
                break
    return {"impl": impl, "mask_len": len(mask), "len_mod8": n % 8, "len_ge8": n >= 8, "align": align,
            "exp_err": exp["err"], "obs_err": obs["err"],
            "first_bad_mod4": None if first_bad is None else first_bad % 4,
            "first_bad_in_tail": None if first_bad is None else first_bad >= n - n % 4}


def replayer(extra, path):
    cmod, _ = ws_mask.build_speedups()
    impls = (("c", cmod.websocket_mask), ("py", ws_mask.python_mask()))
    s = path[0]
    mask, data = bytes(s["args"][0]), bytes(s["args"][1])
    exp = s["exp"]
    for align in range(8):
        view, _keep = ws_mask.view_at(data, align)
        for impl, fn in impls:
            obs = canon(ws_mask.call(fn, mask, view))
            if obs != exp:
                return {"step": 0, "act": "mask", "args": s["args"], "exp": exp, "obs": obs,
                        "sig": _sig(impl, mask, data, align, exp, obs)}
    return None


def _lengths(ctx):
    """(length, alignments) pairs.  quick: 0..130 and the 255-257 / 1023-1025 / 4095-4096
    neighbourhoods at all 8 alignments; thorough: every length 0..4096 - all 8 alignments up to
    520 and around 1024 / 2048 / 4096, two alignments (varying with the length) elsewhere."""
    all8 = list(range(8))
    if ctx.quick:
        return [(n, all8) for n in list(range(0, 131)) + [255, 256, 257, 1023, 1024, 1025, 4095, 4096]]
    out = []
    for n in range(0, 4097):
        if n <= 520 or min(abs(n - c) for c in (1024, 2048, 4096)) <= 9:
            out.append((n, all8))
        else:
            out.append((n, [n % 8, (3 * n + 1) % 8]))
    return out


def record_batch(job):
    bid, seed, lens = job
    rng = random.Random(seed)
    cmod, _ = ws_mask.build_speedups()
    cfn, pyfn = cmod.websocket_mask, ws_mask.python_mask()
    structured = [b"\x00\x00\x00\x00", b"\xff\xff\xff\xff", b"\x01\x02\x03\x04", b"\x80\x00\x00\x7f", b"\x00\x00\x00\x01"]
    ev = []
    for n, aligns in lens:
        for align in aligns:
            mask = rng.choice(structured) if rng.random() < 0.3 else bytes(rng.randrange(256) for _ in range(4))
            kind = rng.random()
            if kind < 0.2:
                data = bytes((i * 7 + n) % 256 for i in range(n))
            elif kind < 0.3:
                data = bytes([rng.choice([0, 255, 128])]) * n
            else:
                data = rng.randbytes(n)
            view, _keep = ws_mask.view_at(data, align)
            ev.append({"a": "mask", "args": [list(mask), list(data)], "align": align,
                       "obs": {"c": ws_mask.call(cfn, mask, view), "py": ws_mask.call(pyfn, mask, view)}})
    if bid % 4 == 0:        # masks that are not exactly 4 bytes long
        for ml in (0, 1, 2, 3, 5, 8, 16):
            mask = rng.randbytes(ml)
            data = rng.randbytes(rng.choice([0, 3, 9]))
            ev.append({"a": "mask", "args": [list(mask), list(data)], "align": -1,
                       "obs": {"c": ws_mask.call(cfn, mask, data), "py": ws_mask.call(pyfn, mask, data)}})
    return {"id": bid, "cfg": {}, "ev": ev}


def _trace_sig(t, bad, l):
    if not bad:
        return {}
    mask, data = bad["args"]
    return {"mask_len": len(mask), "len_mod8": len(data) % 8, "len_ge8": len(data) >= 8,
            "c_err": bad["obs"]["c"]["err"], "py_err": bad["obs"]["py"]["err"]}


def run(ctx):
    try:
        ws_mask.build_speedups()        # compile once in the parent; forked workers inherit it
        t0 = time.time()
        # 1. the loop structure of speedups.c equals MaskRef (model checking)
        ctx.mc("ws", "MaskAlgo", "MC_MaskAlgo.cfg",
               overrides=ctx.pick({}, {"MaskBytes": "{0, 1, 90, 128, 255}", "NPat": 3}),
               required_actions=["pre", "w64", "w32", "tail"])
        ctx._phase("mc", t0)
        t0 = time.time()
        # 2. spec -> code: TLC-enumerated inputs with TLC-computed results, all 8 alignments
        states = ctx.gen_states("ws", "Gen_MaskRef", "Gen_MaskRef.cfg",
                                overrides=ctx.pick({}, {"MaskBytes": "{0, 1, 90, 128, 255}", "NPat": 3, "MaxLen": 40}))
        paths = [({}, [{"act": "mask", "args": [s["mask"], s["data"]], "exp": s["res"]}]) for s in states]
        ctx.replay(paths, replayer, nontrivial=lambda e, p: True)
        ctx.cov["exhaustive"] = True
        ctx._phase("s2c", t0)
        t0 = time.time()
        # 3. code -> spec: recorded vectors validated by TLC
        lens = _lengths(ctx)
        per = ctx.pick(6, 12)
        jobs = [(i + 1, ctx.seed * 7919 + i, lens[k:k + per]) for i, k in enumerate(range(0, len(lens), per))]
        traces = framework.pool_map(record_batch, jobs)
        nvec = sum(len(t["ev"]) for t in traces)
        aligns = sorted({e["align"] for t in traces for e in t["ev"]})
        ctx.validate("ws", "Trace_MaskRef", "Trace_MaskRef.cfg", traces, sig_fn=_trace_sig,
                     shards=ctx.pick(None, 16), sample=1)
        ctx._phase("c2s", t0)
        ctx.note("vectors_validated", nvec)
        ctx.note("alignments", aligns)
        ctx.cov["evaluations"] += nvec - len(traces)
        ctx.cov["trusted_base"] += ["gcc -O2 build of speedups.c loaded through importlib",
                                    "ctypes arrays mapped onto a bytearray as aligned payload views"]
        ctx.cov["rule"] = ("MC: masks over the MaskBytes alphabet x lengths 0..24 x patterns x {32,64}-bit x {little,big} endian; "
                           "S2C: every TLC-enumerated (mask, payload) x 8 alignments x {compiled, python}; "
                           "C2S: %d recorded vectors (lengths %d..%d, alignments 0..7 + wrong-length masks) validated by TLC; "
                           "distinct = distinct (mask, payload) inputs / vector batches" % (nvec, lens[0][0], lens[-1][0]))
    finally:
        ws_mask.cleanup()


def replay(ctx, rec):
    d = rec["detail"]
    try:
        if "path" in d:
            r = replayer(d["extra"], d["path"])
            print("replay:", "diverges " + framework.jdump(r) if r else "follows the specification")
            return 1 if r else 0
        t = d["trace"]
        v = ctx.validate("ws", "Trace_MaskRef", "Trace_MaskRef.cfg", [t], sig_fn=_trace_sig)
        bad = v[t["id"]]
        print("replay:", "rejected at event %s" % bad["at"] if bad else "accepted by the specification")
        return 1 if bad else 0
    finally:
        ws_mask.cleanup()
