"""C28 - Framework-generated redirects never point to another site.

MC : specs/webstatic/SlashRedirect.tla - what @removeslash / @addslash / the static directory
     redirect / @authenticated may answer for a request path (leading slashes x1..3, '\\', %2F, %5C,
     host-like and userinfo-like segments, queries); invariants: every Location the reference
     prescribes is a same-host path, the login redirect is the configured login URL plus an
     escaped ?next=, the acceptance relation never admits an off-site Location.
S2C: every TLC-enumerated request is sent to real handlers (catch-all routes r".*", static
     r"/(.*)", r"/+(.*)" and r"(.*)" with default_filename on the scratch tree, three login_url shapes)
     over the in-memory server; status / Location compared with the expectation ('exact'), or
     checked not to be the Location TLC marked unsafe ('safe' / 'ifredirect').
C2S: the same observations plus seeded random requests (longer paths, random escapes) are
     validated by TLC with Accept(expectation, observation) - the verdict on observed Locations
     that the reference does not prescribe is TLC's.

Binding demonstrations: notes/webstatic.md.
"""
import random
import time

from harness import framework
from harness import webstatic_driver as W

TREES = []


def _trees():
    if not TREES:
        TREES.append(W.Trees())
    return TREES[0]


def _drop():
    for t in TREES:
        t.remove()
    del TREES[:]


def observe(cfg, args):
    m, raw, hasq, q = args
    return W.slash_request(cfg["kind"], _trees().root[True], m, raw, hasq, q)


def _lead(loc):
    t = W.text_of(loc[:2])
    if loc and t[0] != "/":
        return "scheme" if ":" in W.text_of(loc).split("/")[0] else "relative"
    return {"//": "slashslash", "/\\": "slashbackslash"}.get(t, "other" if loc else "none")


def _sig(cfg, args, exp, obs):
    return {"act": "request", "kind_": cfg["kind"], "method": args[0], "mode": exp["mode"], "exp_st": exp["st"],
            "obs_st": obs["st"], "loc_lead": _lead(obs["loc"]), "query": bool(args[2] and args[3])}


def judge(exp, obs):
    """What can be decided by comparison with TLC's values alone; the rest is TLC's (C2S)."""
    redirect = 300 <= obs["st"] <= 399
    if exp["mode"] == "exact":
        return obs["st"] == exp["st"] and obs["loc"] == exp["loc"]
    if exp["mode"] == "noredirect":
        return not redirect
    if exp["mode"] == "safe":
        return not (redirect and obs["loc"] == exp["loc"])       # emitted exactly the Location TLC marked unsafe
    if exp["mode"] == "ifredirect" and redirect:
        # TLC says whether path + "/" is a same-host path: then it is the only acceptable Location,
        # otherwise it is the one Location that must not be emitted (other Locations: TLC's verdict, C2S)
        return (obs["loc"] == exp["loc"]) == exp["locsafe"]
    return True


def replayer(extra, path):
    cfg = extra["cfg"]
    for i, s in enumerate(path):
        obs = observe(cfg, s["args"])
        if not judge(s["exp"], obs):
            return {"step": i, "act": s["act"], "args": s["args"], "exp": s["exp"], "obs": obs,
                    "sig": _sig(cfg, s["args"], s["exp"], obs)}
    return None


def record(item):
    (extra, path), tid = item
    cfg = extra["cfg"]
    return {"id": tid, "cfg": cfg, "ev": [{"a": "request", "args": s["args"], "obs": observe(cfg, s["args"])} for s in path]}


SEGS = ["a", "", "evil.com", "\\", "\\evil.com", "%2F", "%5C", "%5cevil.com", "sub", "d", "..", ".", "@evil.com", "http:", "%20", "a&b=c",
        "%2F%2Fevil.com", "x;y", "sub%2F", "~u", "a+b"]
QUERIES = [None, "", "x=1", "//evil.com", "a=b+c&d=%20", "next=http://evil.com/", "?", "a b".replace(" ", "%20")]
KINDS = ["removeslash", "addslash", "static1", "static2", "static3", "auth_rel", "auth_query", "auth_abs"]


def random_trace(a):
    tid, seed, length = a
    rng = random.Random(seed)
    cfg = {"kind": rng.choice(KINDS)}
    ev = []
    for _ in range(length):
        k = rng.choice([0, 1, 1, 2, 2, 3, 4, 6])
        segs = [rng.choice(SEGS) for _i in range(k)]
        if rng.random() < 0.3:
            segs = [""] * rng.choice([1, 2]) + segs
        if rng.random() < 0.4:
            segs.append("")
        prefix = rng.choice(["", "", "", "http://evil.example", "http://example.com", "https://evil.example:8443"])
        raw = W.unwire(prefix + "/" + "/".join(segs))
        if rng.random() < 0.03:
            raw = W.unwire(rng.choice(["*", "evil.example:80"]))
        q = rng.choice(QUERIES)
        args = [rng.choice(["GET", "GET", "HEAD"]), raw, q is not None, W.chars(q or "")]
        ev.append({"a": "request", "args": args, "obs": observe(cfg, args)})
    return {"id": tid, "cfg": cfg, "ev": ev}


def _trace_sig(t, bad, l):
    if not bad:
        return {}
    return {"kind_": t["cfg"]["kind"], "method": bad["args"][0], "obs_st": bad["obs"]["st"], "loc_lead": _lead(bad["obs"]["loc"]),
            "query": bool(bad["args"][2] and bad["args"][3])}


def run(ctx):
    try:
        _trees()
        toks_q = ["a", "empty", "evil", "bsevil", "pslash", "pbs", "sub", "dotdot", "at"]
        toks_t = toks_q + ["bs", "d", "dot", "scheme", "sp", "amp"]
        t0 = time.time()
        paths = W.mc_states(ctx, "webstatic", "SlashRedirect", "MC_SlashRedirect.cfg",
                            overrides=ctx.pick({}, {"SegToks": set(toks_t), "PathLen": 3, "Queries": {"noq", "emptyq", "q1", "qevil", "qsp"}}),
                            required_actions=["request"])
        paths += W.mc_states(ctx, "webstatic", "SlashRedirect", "MC_SlashRedirect.cfg",
                             overrides={"Methods": {"HEAD", "POST"}, "PathLen": 2, "SegToks": set(toks_t),
                                        "Queries": set(ctx.pick(["noq", "q1"], ["noq", "emptyq", "q1", "qevil"]))}, required_actions=["request"])
        # request targets that are not origin-form: absolute-form, "*", authority-form
        paths += W.mc_states(ctx, "webstatic", "SlashRedirect", "MC_SlashRedirect.cfg",
                             overrides={"Forms": {"absolute", "asterisk", "authority"}, "Methods": {"GET", "HEAD"}, "PathLen": ctx.pick(2, 3),
                                        "SegToks": set(ctx.pick(["a", "empty", "sub", "dotdot", "pdotdot", "evil"], toks_q)),
                                        "Queries": {"noq", "q1"}}, required_actions=["request"])
        if not ctx.quick:
            paths += W.mc_states(ctx, "webstatic", "SlashRedirect", "MC_SlashRedirect.cfg",
                                 overrides={"SegToks": set(toks_q), "PathLen": 4, "Queries": {"noq", "q1"}}, required_actions=["request"])
        modes = {}
        for e, p in paths:
            modes[p[0]["exp"]["mode"]] = modes.get(p[0]["exp"]["mode"], 0) + 1
        ctx.note("expectation_modes", modes)
        if not all(modes.get(m) for m in ("exact", "safe", "ifredirect")):
            raise framework.Machinery("vacuity: expectation modes %r" % modes)
        ctx.replay(paths, replayer, nontrivial=lambda e, p: len(p[0]["args"][1]) > 1)
        ctx.cov["exhaustive"] = True
        if not ctx.quick:      # -simulate enumerates every successor per step: ~3 s per walk, thorough tier only
            sims = ctx.sim_paths("webstatic", "Gen_SlashRedirect", "Gen_SlashRedirect.cfg", num=300, depth=7, timeout=1500)
            ctx.replay(sims, replayer, label="s2c-sim")
        ctx._phase("mc+s2c", t0)
        t0 = time.time()
        # code -> spec: observations of the enumerated requests (grouped into traces) and of random requests
        # (the quick tier re-validates only the requests whose expectation the replayer cannot decide
        # completely by comparison: modes "safe" and "ifredirect")
        group = {}
        for e, p in paths:
            if ctx.quick and p[0]["exp"]["mode"] in ("exact", "noredirect"):
                continue
            group.setdefault(e["cfg"]["kind"], []).append(p[0])
        items, tid = [], 0
        for kind, steps in sorted(group.items()):
            for i in range(0, len(steps), 40):
                tid += 1
                items.append((({"cfg": {"kind": kind}}, steps[i:i + 40]), tid))
        traces = framework.pool_map(record, items)
        n = ctx.pick(200, 4000)
        traces += framework.pool_map(random_trace, [(tid + i + 1, ctx.seed * 1000003 + i, 25) for i in range(n)])
        nredir = sum(1 for t in traces if t["cfg"]["kind"].startswith("static") for ev in t["ev"] if 300 <= ev["obs"]["st"] <= 399)
        ctx.note("static_redirects_observed", nredir)
        if not nredir:
            raise framework.Machinery("vacuity: the static handler never redirected")
        ctx.validate("webstatic", "Trace_SlashRedirect", "Trace_SlashRedirect.cfg", traces, shards=ctx.pick(2, None), sig_fn=_trace_sig, timeout=ctx.pick(900, 1500))
        ctx._phase("c2s", t0)
        ctx.cov["rule"] = ("requests: every path of <= 3 segments over the segment alphabet x queries x 7 handler configurations (GET), <= 2 "
                           "segments for HEAD/POST; TLC simulation walks; all of them plus random requests validated by TLC via Accept; "
                           "distinct = distinct (configuration, method, target)")
        ctx.cov["trusted_base"] += ["harness/httpsim.split_responses (transport splitter)"]
        ctx.assumptions.append("raw control characters and spaces in the request target are not generated")
    finally:
        _drop()


def replay(ctx, rec):
    d = rec["detail"]
    try:
        if "path" in d:
            r = replayer(d["extra"], d["path"])
            print("replay:", "diverges " + framework.jdump(r) if r else "follows the specification")
            return 1 if r else 0
        print("trace replays are validated with: ./check C28 (trace stored in the replay file)")
        return 0
    finally:
        _drop()
