"""C17 - WebSocket handshakes accept exactly the valid, permitted upgrades.

MC : specs/ws/WsHandshake.tla - the handshake as a decision table over header classes (server
     requests and server answers to the client); ServerExactly / ClientExactly on every row.
S2C: every row (at most MaxDev non-default fields) is a real upgrade request through an in-memory
     web.Application + WebSocketHandler, or a scripted answer to the real websocket_connect
     client; the verdict clauses (must / may complete, accept value recomputed with hashlib,
     subprotocol, extension response, upgrade really happened / did not happen) are judged against
     the row's TLC-computed verdict.  Origin rows include an empty Origin value and the hybi-08
     Sec-WebSocket-Origin header (alone, and contradicting Origin); extension rows include offers
     the server has to decline (window bits 7 / 16 / non-numeric), after which the server's own
     frames are inspected: no extension in the response => no RSV1 on the wire.

Binding demonstrated in a scratch worktree (see notes/ws.md): an `endswith` origin comparison, a
substring test for the Connection token and a client that does not compare the accept value are
each reported.
"""
import os
import time

from harness import framework
from harness.framework import canon
from harness import ws_driver as W


def judge_server(row, exp, obs):
    """Compare one observed server answer with the specification's verdict; returns list of clauses violated."""
    bad = []
    st = obs["status"]
    if exp["must101"] and st != 101:
        bad.append("refused-valid")
    if st == 101 and not exp["may101"]:
        bad.append("accepted-invalid")
    if st == 101:
        if obs["accept"] != W.accept_for(W.KEY):
            bad.append("accept-value")
        if (obs["upgrade"] or "").lower() != "websocket" or "upgrade" not in [t.strip().lower() for t in (obs["connection"] or "").split(",")]:
            bad.append("upgrade-headers")
        if obs["subprotocol"] != exp["subprotocol"]:
            bad.append("subprotocol")
        if obs["deflate"] != exp["deflate"]:
            bad.append("deflate")
        if not obs["opened"] or not obs["works"]:
            bad.append("not-upgraded")
        if not obs["deflate"] and any(r for r in obs.get("rsv_sent", [])):
            bad.append("rsv-without-extension")
    else:
        if st not in (400, 403, 426):
            bad.append("status")
        if obs["opened"] or obs["accept"] is not None:
            bad.append("upgraded-anyway")
    return bad


def judge_client(row, exp, obs):
    bad = []
    ok = obs["connect"] == "ok"
    if exp["mustConnect"] and not ok:
        bad.append("refused-valid")
    if ok and not exp["mayConnect"]:
        bad.append("accepted-invalid")
    if ok:
        if obs["subprotocol"] != exp["subprotocol"]:
            bad.append("subprotocol")
        if not obs["works"]:
            bad.append("not-upgraded")
    elif obs["connect"] in ("pending", "cancelled"):
        bad.append("unsettled")
    return bad


def deviations(row):
    if row["side"] == "server":
        return {"upgrade": row["upgrade"]["v"], "connection": row["connection"]["v"], "key": row["key"]["v"],
                "version": row["version"]["v"], "origin_rel": row["origin"]["rel"], "origin": row["origin"]["v"], "legacy_origin": row["origin"].get("legacy", "-"),
                "host": row["origin"]["host"], "sub_policy": row["sub"]["policy"], "sub_offer": row["sub"]["offer"],
                "ext": row["ext"]["v"], "enabled": row["enabled"]}
    return {"status": row["status"], "upgrade": row["upgrade"]["v"], "connection": row["connection"]["v"],
            "accept": row["accept"]["v"], "ext": row["ext"]["v"], "ext_offered": row["ext"]["offered"],
            "sub_offer": row["sub"]["offer"], "sub": row["sub"]["v"]}


def replayer(extra, path):
    from harness.httpsim import LogCapture
    s = path[0]
    row, exp = s["args"][0], s["exp"]
    with LogCapture():
        if row["side"] == "server":
            obs = canon(W.handshake_server_row(row))
            bad = judge_server(row, exp, obs)
        else:
            obs = canon(W.handshake_client_row(row))
            bad = judge_client(row, exp, obs)
    if bad:
        sig = {"side": row["side"], "clauses": sorted(bad)}
        sig.update(deviations(row))
        return {"step": 0, "act": "handshake", "args": [row], "exp": exp, "obs": obs, "sig": sig}
    return None


def run(ctx):
    # one TLC run enumerates the table, checks ServerExactly / ClientExactly on every row (INVARIANT
    # lines of the cfg) and dumps the rows with their verdicts
    t0 = time.time()
    rows = ctx.gen_states("ws", "WsHandshake", "MC_WsHandshake.cfg", overrides={"MaxDev": ctx.pick(2, 3)})
    if not any(r["row"]["side"] == "server" for r in rows) or not any(r["row"]["side"] == "client" for r in rows):
        raise framework.Machinery("vacuity: WsHandshake produced no server or no client rows")
    ctx._phase("mc+gen", t0)
    t0 = time.time()
    items = [({}, [{"act": "handshake", "args": [r["row"]], "exp": r["exp"]}]) for r in rows]
    ctx.replay(items, replayer, nontrivial=lambda e, p: True)
    ctx._phase("s2c", t0)
    ctx.cov["exhaustive"] = True
    ctx.cov["trusted_base"] += ["hashlib/base64 for the accept value", "class tags of header literals in WsHandshake.tla"]
    ctx.cov["rule"] = ("rows: every server request / client answer of the WsHandshake table with at most %d non-default fields; "
                       "distinct = distinct rows" % ctx.pick(2, 3))


def replay(ctx, rec):
    d = rec["detail"]
    if "path" in d:
        r = replayer(d["extra"], d["path"])
        print("replay:", "diverges " + framework.jdump(r) if r else "follows the specification")
        return 1 if r else 0
    return 0
