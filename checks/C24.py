"""C24 - XSRF protection accepts exactly the tokens issued for the cookie.

MC : specs/websec/Xsrf.tla.  TLC enumerates (cookie, token, carrier, method) scenarios - cookies
     and tokens issued under both versions and several masks (incl. one that masks the secret to
     zero), another session's tokens, every single-character edit / insertion / deletion of
     every issued string, all strings up to a bound over {2,|,0,a,z,7}, absent cookie / token -
     and issuance scenarios; invariants: issued tokens accepted, foreign tokens rejected,
     acceptance only on equal non-empty secrets, 200/403 only, safe methods unchecked, rendered
     tokens accepted with the cookie the client then holds.
S2C: every scenario is a real request (urlencoded form field, X-XSRFToken, X-CSRFToken) through
     HTTPServer + Application(xsrf_cookies=True) on the in-memory transport; status and "handler
     ran" are compared; issuances (GET rendering xsrf_token, urandom / clock shimmed at the
     tornado.web module boundary) must produce exactly the specified token and Set-Cookie.
C2S: seeded browser-like sessions with real 16-byte secrets, version switches, stale and foreign
     cookies, multi-character mutations; TLC validates every event against Trace_Xsrf.

Binding demonstrated during development (notes/websec.md): `if not token` dropped (empty secret
accepted), PUT added to the unchecked methods, and the mask applied reversed in xsrf_token were
each reported as VIOLATION.
"""
import time

from harness import framework
from harness import websec_driver as W
from harness import websec_xsrf as X


def _trace_sig(t, bad, l):
    if not bad:
        return {}
    if bad["a"] == "post":
        return {"what": "post-outcome", "obs_ran": bad["obs"]["ran"], "obs_status": bad["obs"]["status"],
                "carrier": bad["args"][2], "method": bad["args"][3], "handler": (bad["args"] + ["plain"])[4]}
    return {"what": "issuance", "outver": bad["args"][1]}


def run(ctx):
    if not ctx.quick:
        ctx.mc("websec", "Xsrf", "MC_Xsrf.cfg", required_actions=["Post", "IssueStep"],
               overrides={"ArbTokLen": 5, "Masks": "{1, 2, 3}"})
    # the scenario run is itself a full TLC model-checking run (all invariants of the cfg) with -dump
    subs = ctx.pick({"Ts": "{1234567}"}, {"ArbTokLen": 4, "Masks": "{1, 2, 3}", "EditBytes": "{48, 102, 103, 124, 50, 70, 57}"})
    r, states = W.tlc_states(ctx, "Xsrf", W.cfg_with(ctx, "Gen_Xsrf.cfg", subs), count=True, label="Gen_Xsrf.cfg",
                             coverage=True, required_actions=["Post", "IssueStep"], timeout=ctx.pick(900, 1500))
    scen = [(st, []) for st in states if st["sc"]["mode"] in ("post", "issue")]
    if not scen:
        raise framework.Machinery("no scenarios generated")
    t0 = time.time()
    ctx.replay(scen, X.replay_state, nontrivial=lambda e, p: True)
    ctx._phase("replay", t0)
    ctx.cov["exhaustive"] = True
    n = ctx.pick(100, 1000)
    t0 = time.time()
    traces = framework.pool_map(X.random_session, [(i + 1, ctx.seed * 1000003 + i, ctx.pick(20, 30)) for i in range(n)])
    ctx._phase("record", t0)
    t0 = time.time()
    ctx.validate("websec", "Trace_Xsrf", "Trace_Xsrf.cfg", traces, sig_fn=_trace_sig, shards=ctx.pick(6, None))
    ctx._phase("validate", t0)
    ctx.cov["rule"] = ("scenario = (cookie string, token string, carrier, method) or (cookie string, output version, mask, "
                       "clock) as enumerated by TLC, each one real HTTP request; distinct = distinct scenario records")
    ctx.cov["trusted_base"] += ["harness/httpsim.py request/response plumbing", "os.urandom / time.time shims at the tornado.web boundary"]
    ctx.assumptions += ["token / cookie alphabets are ASCII without whitespace, ';', '=' and '\"' (cookie and argument "
                        "normalisation is not part of C24); int() leniency of the version-2 timestamp field (sign, '_', spaces) is not generated",
                        "os.urandom(16) is replaced by a shim that returns the scenario's secret (2 bytes in TLC scenarios, 16 in recorded sessions)"]


def replay(ctx, rec):
    d = rec["detail"]
    if "extra" in d:
        r = X.replay_state(d["extra"])
        print("replay:", "diverges " + framework.jdump(r) if r else "follows the specification")
        return 1 if r else 0
    print("recorded session; re-validate with ./check C24")
    return 0
