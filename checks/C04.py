"""C04 - Server size limits bound what a peer can make the application buffer.

MC : HttpReader.tla with small absolute limits (max_header_size 27/46, max_body_size 2/3, per-request
     override 3) over framed requests incl. gzip members as opaque codec entries (HttpGz.tla) under all
     arrival schedules: BodyBounded (never more than the effective limit handed over per message),
     LimitsOnlyRefuse (a run not refused for a size equals the run without limits; a size refusal
     closes), Confluent, RefusalCloses.
S2C: TLC places the limits RELATIVE to each wire (Gen_HttpReader / GenL cfg): header block size -1/0/+1,
     body size -1/0/+1 as server limit and as per-request override (with a tiny and a large server
     limit), for Content-Length and chunked bodies with several chunk splits; gzip request bodies
     (real members built by zlib, 3 / 40 / 41 / 2000-byte "bomb" payloads) with limits around the decoded
     and the encoded size, as Content-Length and as two chunks.  Each case runs on a real HTTPServer
     (limits passed to HTTPServer, override via connection.set_max_body_size in headers_received,
     chunk_size 16 so that the decompress loop iterates) under every single cut, all-1-byte and random
     segmentations; the sum of delivered body bytes is part of the compared projection.
C2S: random request streams against random small limits, validated by TLC (Trace_HttpReader with the
     BodyBounded invariant evaluated at every step).

Binding demonstrated during development: on the tree without fix F36 the gzip/override cases diverge (48 behaviours); the seeded
off-by-one `total_size >= max_body_size` (M1) is reported by the S2C limit cases (notes/httpr.md).
"""
import random

from harness import framework
from harness import httpr_check as H
from harness import httpr_driver as D
from harness import httpr_gen as G
from harness import httpr_tokens as T

MC_Q = {"Modes": '{"server"}', "Responds": '{"sync"}', "Timeouts": "{FALSE}", "Shuts": "{FALSE}", "Heads": "{FALSE}",
        "RLs": "{1}", "HOSTs": "{1}", "FRs": "{1, 2, 3, 9}", "FR2s": "{1}", "XHs": "{1}", "BODYs": "{1, 2, 3, 6}", "TAILs": "{1, 2}",
        "Dev": 0, "Sizes": "{1, 2, 5}", "MaxBodies": "{2, 1000000}", "MaxHdrs": "{27, 65536}", "Overrides": "{2000000001, 3}"}
MC_GZ = dict(MC_Q, FRs="{1}", BODYs="{1}", TAILs="{1, 2}", Decomps="{TRUE}", MCGz="{2}", MaxBodies="{24, 39, 40, 1000000}",
             MaxHdrs="{65536}", Overrides="{2000000001, 40}", Sizes="{2, 7}")
GEN_Q = {"RLs": "{2}", "HOSTs": "{1}", "FRs": "{1, 2, 3}", "XHs": "{1}", "BODYs": "{1, 2, 3}", "TAILs": "{2}", "GzIdx": "{3, 4}"}
GEN_T = {"RLs": "{1, 2, 4}", "HOSTs": "{1}", "FRs": "{1, 2, 3, 9, 10, 13, 16}", "XHs": "{1, 2, 3}", "BODYs": "{1, 2, 3, 5, 6, 7, 8, 24}",
         "TAILs": "{1, 2, 3}", "GzIdx": "{1, 2, 3, 4}"}


def record_random(args):
    tid, seed = args
    rng = random.Random(seed)
    gz = rng.random() < 0.3
    table = [{"enc": list(e), "dec": list(d)} for e, d in T.gz_table()]
    cfg = dict(H.BASE_CFG, maxBody=rng.choice([0, 1, 2, 5, 16, 17, 64, 65, 129, 130, 131, 1000000]),
               maxHdr=rng.choice([65536, 65536, 120, 200, 300]),
               override=rng.choice([D.NONE, D.NONE, 4, 17, 65, 130]))
    if gz:
        e, d = rng.choice(T.gz_table()[:3])
        cfg.update(decompress=True, gz=table[:3], maxBody=rng.choice([len(d) - 1, len(d), len(d) + 1, len(e), 1000000]),
                   override=rng.choice([D.NONE, D.NONE, len(d), len(d) - 1]), maxHdr=65536)
        w = b"POST /g HTTP/1.1\r\nHost: h\r\nContent-Encoding: gzip\r\n"
        if rng.random() < 0.5:
            w += b"Content-Length: %d\r\n\r\n" % len(e) + e
        else:
            k = rng.randrange(1, len(e))
            w += b"Transfer-Encoding: chunked\r\n\r\n%x\r\n%s\r\n%x\r\n%s\r\n0\r\n\r\n" % (k, e[:k], len(e) - k, e[k:])
        w += G.gen_request_stream(rng, max_body=20, p_mut=0) if rng.random() < 0.5 else b""
    else:
        w = G.gen_request_stream(rng, max_body=131, p_mut=0.15)
    pcs = G.segmentation(rng, len(w))
    script = [(len(pcs) - 1, "eof")] if rng.random() < 0.5 else []
    return D.record_server_trace(tid, cfg, w, pcs, script, chunk_size=16 if gz else None)


def run(ctx):
    H.vacuity(ctx, dict(MC_Q, FRs="{2}", BODYs="{2}", TAILs="{1}", Sizes="{30}", MaxBodies="{2, 3}", MaxHdrs="{65536}",
                        Overrides="{2000000001}"), ["arrive", "eof"])
    mcq, mcg = dict(MC_Q), dict(MC_GZ)
    if not ctx.quick:
        mcq.update(RLs="{1, 2}", FRs="{1, 2, 3, 4, 9, 10, 13}", BODYs="{1, 2, 3, 4, 5, 6, 7, 8, 24}", XHs="{1, 2}", Sizes="{1, 2, 3, 4, 8}",
                   MaxBodies="{0, 2, 3, 4, 1000000}", MaxHdrs="{27, 28, 65536}", Overrides="{2000000001, 2, 3}")
        mcg.update(MCGz="{1, 2, 3}", MaxBodies="{3, 23, 24, 40, 41, 1000000}", Overrides="{2000000001, 40, 41}", Sizes="{1, 2, 7}")
    H.mc(ctx, "MC_HttpReader", "MC_HttpReader.cfg", overrides=mcq)
    H.mc(ctx, "MC_HttpReader", "MC_HttpReader.cfg", overrides=mcg)
    cases = H.gen_cases(ctx, GEN_Q if ctx.quick else GEN_T, cfg="GenL_HttpReader.cfg")
    plain = [c for c in cases if c["cfg"]["override"] == D.NONE]
    ovr = [c for c in cases if c["cfg"]["override"] != D.NONE]
    H.replay_server(ctx, plain, apps=("delegate", "callback"))
    H.replay_server(ctx, ovr, apps=("delegate",))          # a request callback cannot set a per-request limit
    ctx.cov["exhaustive"] = True
    n = ctx.pick(150, 5000)
    traces = framework.pool_map(record_random, [(i + 1, ctx.seed * 1000003 + 404 + i) for i in range(n)])
    H.validate(ctx, traces, H.classify_server)
    ctx.cov["rule"] = ("%d (wire, limit) cases: limits at header/body size -1/0/+1 (server limit and per-request override), gzip "
                       "members with limits around decoded / encoded size, x {delegate, callback} x {all single cuts, 1-byte, "
                       "8 random segmentations}; %d random runs with random small limits validated by TLC" % (len(cases), n))
    ctx.cov["trusted_base"] += ["harness/memstream.py", "harness/httpr_driver.py", "stdlib zlib (builds the gzip members; the "
                                "specification sees them as an opaque table enc -> dec)"]


def replay(ctx, rec):
    d = rec["detail"]
    if "path" in d:
        r = H.server_replayer(d["extra"], d["path"])
        print("replay:", "diverges " + framework.jdump(r)[:3000] if r else "follows the specification")
        return 1 if r else 0
    if "trace" in d:
        v = H.validate(ctx, [d["trace"]], H.classify_server)
        bad = [x for x in v.values() if x]
        print("replay:", "trace rejected by the specification: " + framework.jdump(bad[0]) if bad else "trace accepted")
        return 1 if bad else 0
    print("nothing to replay")
    return 2
