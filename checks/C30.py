"""C30 - Form bodies are parsed losslessly and untrusted bodies fail cleanly.

MC : specs/websec/Forms.tla - the encoder is the specification.  TLC enumerates abstract forms
     (names / filenames over {a, SP, ", \\, ;, =, e-acute} and, for RFC 2231 parameters, CR LF % ' *;
     contents over {a, CR, LF, -}; quoted-string and RFC 2231 parameters; one and two parts; files
     with and without Content-Type; urlencoded names / values over {a, SP, &, =, +, %, 0xE9, NUL}),
     renders them, and checks the encoder's own sanity (the boundary occurs only as delimiter,
     header lines carry no bare CR / LF, urlencoded bodies use only safe characters).  It also
     enumerates every single-byte edit / insertion / deletion of three encoded bodies, all short
     arbitrary bodies, and limit configurations around the part count and header size.
S2C: every body goes through the real parse_body_arguments; verdict "form" demands exactly the
     abstract form back, "clean" demands return-or-HTTPInputError, "error" demands HTTPInputError.
C2S: seeded random forms (up to 8 parts, long unicode names, binary contents, random boundaries)
     are encoded by the harness, parsed by the real code, and TLC checks both that the body equals
     the specification's encoding and that the parse result equals the form (Trace_Forms).

Binding demonstrated during development (notes/websec.md): `part[eoh + 4 : -2]` -> `-1`,
narrowing the `except Exception` -> HTTPInputError conversion, and removing the max_parts check
were each reported as VIOLATION.
"""
import json
import time

from harness import framework
from harness import websec_driver as W
from harness import websec_forms as F

_BASES = {}


def _replayer(st, _p):
    return F.replay_state(st, _BASES)


def _trace_sig(t, bad, l):
    if not bad:
        return {}
    form = bad["args"][2]
    return {"what": "lossy" if bad["obs"]["result"] in ("ok", "missing", "extra") else "rejected", "enc": bad["args"][0],
            "chars": F.char_classes(form), "result": bad["obs"]["result"]}


def run(ctx):
    subs = ctx.pick({}, {"TextSet": "Texts3", "DataSet": "Datas4", "ArbLen": 6})
    r, states = W.tlc_states(ctx, "Forms", W.cfg_with(ctx, "MC_Forms.cfg", subs), label="MC_Forms.cfg", coverage=True,
                             required_actions=["Mutate", "ArbPut", "Limits"], timeout=ctx.pick(900, 1500))
    _BASES.clear()
    scen = []
    for st in states:
        if st["sc"]["mode"] == "base":
            _BASES[json.dumps([st["sc"]["enc"], st["sc"]["form"]], sort_keys=True)] = st["body"]
        else:
            scen.append((st, []))
    t0 = time.time()
    ctx.replay(scen, _replayer, nontrivial=lambda e, p: True)
    ctx._phase("replay", t0)
    ctx.cov["exhaustive"] = True
    n = ctx.pick(1500, 10000)
    t0 = time.time()
    traces = framework.pool_map(F.random_form, [(i + 1, ctx.seed * 1000003 + i) for i in range(n)])
    for t in traces:
        t.pop("_quoteful", None)
    ctx._phase("record", t0)
    t0 = time.time()
    ctx.validate("websec", "Trace_Forms", "Trace_Forms.cfg", traces, sig_fn=_trace_sig, shards=ctx.pick(6, None))
    ctx._phase("validate", t0)
    ctx.cov["rule"] = ("case = (abstract form, encoding) | (base body, single-byte mutation) | arbitrary short body | "
                       "(form, limit configuration), enumerated by TLC; plus seeded random forms; distinct = distinct cases")
    ctx.assumptions += ["urlencoded names are byte strings (keys are documented as their latin-1 reading)",
                        "file uploads have a non-empty filename and every part a non-empty name (an empty filename is how "
                        "browsers submit an empty file input and is parsed as a plain field)",
                        "quoted-string parameters use backslash escaping (RFC 2616/7578), not the HTML5 %22 convention"]


def replay(ctx, rec):
    d = rec["detail"]
    dv = d.get("divergence")
    if dv:
        a = dv["args"]
        obs = F.real_parse(a["ctype"], a["body"], a["maxParts"], a["maxHdr"])
        print("body:", bytes(a["body"]))
        print("expected:", framework.jdump(dv["exp"])[:600])
        print("observed:", repr(obs)[:600])
        return 1
    print(framework.jdump(d)[:2000])
    return 1
