"""C46 - Locale formatting helpers render numbers and dates correctly.

MC : specs/text/LocaleFmt.tla - Group(n) is well formed and reads back as n for every integer
     built from the digit table (both signs); the date relation DateOk is satisfiable.
S2C: every enumerated integer through the real Locale.friendly_number (English and a non-English
     locale) compared with the TLC-computed grouped form; every enumerated (offset, options,
     argument form) through the real Locale.format_date with the clock pinned - the recorded
     outputs are judged by TLC against DateOk (relational: thresholds of the phrasing are not
     part of the property).
C2S: seeded random integers (to +-(10^9-1)) and offsets (sub-minute to two years, past and
     future) recorded from the real methods and validated by TLC.

Binding demonstrated during development (scratch worktree, notes/text.md): `minutes = seconds //
60` (floor instead of nearest), sign test `value <= 0` - each reported as VIOLATION.
"""
import random

from harness import text_driver as td

MODULE = "LocaleFmt"


def random_items(seed, n):
    rng = random.Random(seed)
    items = []
    for i in range(n):
        if i % 2 == 0:
            nd = rng.randint(1, 9)
            x = rng.randint(0, 10 ** nd - 1) * rng.choice([1, -1])
            items.append(({"kind": "num"}, [("friendly_number", x), ("friendly_number_fr", x)]))
        else:
            scale = rng.choice([70, 4000, 90000, 86400 * 8, 86400 * 400, 86400 * 800])
            d = rng.randint(0, scale) * rng.choice([1, 1, -1])
            if rng.random() < 0.2:
                d = -(rng.randint(1, 800) * 86400 + rng.randint(0, 120))
            x = {"d": d, "rel": rng.random() < 0.8, "shorter": rng.random() < 0.5, "full": rng.random() < 0.15,
                 "form": rng.choice(["int", "float", "naive", "aware"]), "gmt": rng.choice([0, 0, 300, -330, 720])}
            items.append(({"kind": "date"}, [("format_date", x)]))
    return items


def run(ctx):
    ctx.mc("text", MODULE, "MC_LocaleFmt.cfg", timeout=ctx.pick(900, 1500), overrides={"MaxDigits": ctx.pick(6, 8)},
           required_actions=["Digit", "Pick"])
    nd = ctx.pick(7, 8)
    states = ctx.gen_states("text", MODULE, "Gen_LocaleFmt.cfg", timeout=ctx.pick(900, 1500),
                            overrides={"MaxDigits": nd, "Digits": ctx.pick("{0, 1, 9}", "{0, 1, 5, 9}")})
    paths, rel_items = td.paths_from_states(states)
    ctx.replay(paths, td.make_replayer(MODULE))
    rel_traces = td.record(MODULE, rel_items)
    ctx.cov["exhaustive"] = True
    items = random_items(ctx.seed * 7919 + 46, ctx.pick(600, 20000))
    traces = td.record(MODULE, items)
    td.validate_both(ctx, MODULE, "Trace_LocaleFmt", "Trace_LocaleFmt.cfg", rel_traces, traces)
    ctx.cov["rule"] = ("numbers: every integer of <= %d digits over the digit table, both signs; dates: every offset of the "
                       "threshold table (70 offsets, past and future) x relative x shorter x full_format x 4 argument forms x 2 "
                       "gmt offsets; plus seeded random integers and offsets validated by TLC" % nd)
    ctx.cov["trusted_base"] += ["harness/text_driver.py adapters (pinned clock shim for tornado.locale.datetime)"]


def replay(ctx, rec):
    return td.replay_record(ctx, MODULE, "Trace_LocaleFmt", "Trace_LocaleFmt.cfg", rec)
