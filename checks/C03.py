"""C03 - Connection persistence follows the request's keep-alive semantics.

MC : specs/httpw/KeepAlive.tla - the decision `stays open <=> request allows /\\ ~no_keep_alive /\\
     self-delimiting response /\\ whole request body read` over the full factor product (version x
     Connection value x method x request framing x no_keep_alive x early finish x response style x
     status) with its consequences as invariants.
S2C/C2S: every row is played on the real in-memory HTTPServer (plain, flushing and
     stream_request_body early-finish handlers; no_keep_alive servers) followed by a second request;
     the raw bytes after each exchange are judged by TLC (Trace_KeepAlive): RespReader delimits
     response 1 (status, body, `Connection: close` told to HTTP/1.1 clients when closing, never
     `keep-alive` when closing), EOF iff the spec closes, and request 2 is answered iff the spec keeps
     the connection open.  Random variants: both requests pipelined in one piece under random
     segmentations, streaming handlers without early finish.

Binding demonstrated during development (scratch worktree, notes/httpw.md): `return connection_header
!= "close"` -> `return True`; dropping `or self.params.no_keep_alive`; not closing after an early
finish - each reported as VIOLATION.
"""
import random

from harness import framework
from harness import httpw_driver as drv

FAM = "httpw"


def _job(args):
    tid, row, kw = args
    return drv.ka_trace(tid, row, **kw)


def sig_of(t, bad, l):
    row = t["cfg"]
    sig = {k: row[k] for k in ("version", "conn", "method", "reqbody", "nka", "early", "style", "rstatus")}
    sig["at"] = bad["a"] if bad else None
    if bad and "out" in (bad.get("obs") or {}):
        out = bytes(bad["obs"]["out"])
        head = out.split(b"\r\n\r\n", 1)[0].lower()          # display / matching aid only
        sig["eof"] = bad["obs"]["eof"]
        sig["says_close"] = b"\r\nconnection: close" in head
        sig["says_keep_alive"] = b"\r\nconnection: keep-alive" in head
        sig["responses"] = out.count(b"HTTP/1.1 ")
    return sig


def run(ctx):
    ctx.mc(FAM, "KeepAlive", "MC_KeepAlive.cfg", required_actions=["Respond1", "Respond2"])
    paths = ctx.gen_paths(FAM, "Gen_KeepAlive", "Gen_KeepAlive.cfg")
    rows, seen = [], set()
    for extra, path in paths:          # rows whose allowance is free appear once per accepted decision
        k = framework.jdump(extra["cfg"])
        if len(path) == 2 and k not in seen:
            seen.add(k)
            rows.append(extra["cfg"])
    jobs = [(i + 1, row, {}) for i, row in enumerate(rows)]
    # every row again with the client's receive window closed while request 1 is handled: the response is
    # still being written when the handler (prepare() of an early-finishing handler) returns
    jobs += [(len(rows) + i + 1, row, {"stall": True}) for i, row in enumerate(rows)]
    ctx.cov["exhaustive"] = True
    # variants: pipelined in one piece / random segmentation / streaming handler without early finish
    n = ctx.pick(1500, 12000)
    base = len(jobs)
    vjobs = []
    for i in range(n):
        rng = random.Random(ctx.seed * 1000003 + i)
        row = rng.choice(rows)
        kw = {}
        if rng.random() < 0.7:
            kw["schedule"] = "pipelined"
            if rng.random() < 0.6:
                kw["cuts"] = sorted(rng.randrange(1, 160) for _ in range(rng.randint(1, 4)))
        if not row["early"] and rng.random() < 0.4:
            kw["streaming"] = True
        if rng.random() < 0.3:
            kw["stall"] = True
        vjobs.append((base + i + 1, row, kw))
    traces = framework.pool_map(_job, jobs + vjobs)
    ctx.validate(FAM, "Trace_KeepAlive", "Trace_KeepAlive.cfg", traces, label="s2c+c2s", sig_fn=drv.with_kind(sig_of, base + 1), timeout=900)
    ctx.cov["rule"] = ("rows: the full well-formed product version{1.0,1.1} x Connection{absent,close,Close,keep-alive,"
                       "Keep-Alive,'close, x','x, close',x,'keep-alive, x','keep-alive, close'} x method x request framing x no_keep_alive x early finish x "
                       "style{buffered,flushed,flushed+Content-Length} x status{200,204} (%d rows), each followed by a second "
                       "request; plus seeded variants (pipelined in one piece, random segmentation, streaming handlers)" % len(rows))
    ctx.cov["trusted_base"] += ["harness/httpw_driver.py (moves bytes only)", "specs/httpw/RespReader.tla (strict reader, TLA+)"]


def replay(ctx, rec):
    t = rec["detail"].get("trace")
    if not t:
        print("specification-level violation; rerun ./check C03")
        return 1
    has1 = any(e["a"] == "observe1" for e in t["ev"])
    t2 = drv.ka_trace(t["id"], t["cfg"], schedule="stepwise" if has1 else "pipelined", **t.get("kw", {}))
    v = ctx.validate(FAM, "Trace_KeepAlive", "Trace_KeepAlive.cfg", [t2], label="replay", sig_fn=sig_of, shards=1, timeout=900)
    bad = v[t2["id"]]
    for e in t2["ev"]:
        if "out" in e["obs"]:
            print("replay: %s wire=%r eof=%s" % (e["a"], bytes(e["obs"]["out"])[:700], e["obs"]["eof"]))
    print("replay: row=%s" % (t["cfg"],))
    print("replay:", ("REJECTED by the specification at event %d (%s)" % (bad["at"], bad["event"]["a"])) if bad else
          "accepted by the specification")
    ctx.violations.clear()
    return 1 if bad else 0
