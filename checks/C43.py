"""C43 - HTTP utility parsers and formatters are total and mutually consistent.

MC : specs/text/HttpUtil.tla - recognisers of the RFC 9112 request-line / status-line (HTTP/1.x),
     header-parameter encode/parse round trip on token values, HTTP-date formatting and parsing by
     civil-date arithmetic, re.escape / re_unescape, textual IPv4 / IPv6 grammar; round-trip theorems
     as invariants over every input assembled slot by slot from the tables.
S2C: every enumerated input through the real parse_request_start_line / parse_response_start_line
     (accept with the same components <=> grammar, HTTPInputError otherwise), _encode_header /
     _parse_header, split_host_and_port, format_timestamp (int, float, struct_time, tuple, naive and
     aware datetime), re_unescape, is_valid_ip (plain addresses accepted; names, empty, NUL
     rejected; other strings free); url_concat and the never-raise clause of _parse_header /
     parse_cookie / split_host_and_port are relational and judged by TLC on the recorded outputs.
C2S: seeded random lines with single-character mutations, random Unicode for the total parsers,
     random timestamps, URLs, addresses; TLC validates every recorded call.

Binding demonstrated during development (scratch worktree, notes/text.md): `[0-9]{3}` ->
`[0-9]{3,}` in status_code (status "1000" accepted), the HTTP/1 version test dropped from
parse_request_start_line (HTTP/2.0 accepted) - each reported as VIOLATION by S2C.
"""
import random

from harness import text_driver as td

MODULE = "HttpUtil"
FNS = {
    "reqline": ["parse_request_start_line"],
    "statusline": ["parse_response_start_line"],
    "total": ["parse_header_total", "parse_cookie_total", "split_host_and_port_total"],
    "hostport": ["split_host_and_port"],
    "date": ["format_timestamp_int", "format_timestamp_float", "format_timestamp_struct", "format_timestamp_tuple",
             "format_timestamp_naive", "format_timestamp_aware"],
    "urlconcat": ["url_concat"],
    "reesc": ["re_escape", "re_unescape_roundtrip", "re_unescape"],
    "ip": ["is_valid_ip"],
}


def _mutate(rng, s, pool):
    if not s or rng.random() < 0.3:
        return s
    i = rng.randrange(len(s))
    r = rng.random()
    c = rng.choice(pool)
    if r < 0.34:
        return s[:i] + c + s[i:]
    if r < 0.67:
        return s[:i] + s[i + 1:]
    return s[:i] + c + s[i + 1:]


def _rand_ip(rng):
    r = rng.random()
    if r < 0.3:
        return ".".join(str(rng.choice([0, 1, 9, 10, 99, 100, 199, 200, 249, 250, 255, rng.randint(0, 255)])) for _ in range(4))
    if r < 0.8:
        groups = ["%x" % rng.choice([0, 1, 0xffff, 0xabcd, rng.randint(0, 0xffff)]) for _ in range(8)]
        if rng.random() < 0.3:
            groups = [g.upper() for g in groups]
        tail = None
        if rng.random() < 0.25:
            groups = groups[:6]
            tail = ".".join(str(rng.randint(0, 255)) for _ in range(4))
        if rng.random() < 0.6:
            n = len(groups)
            a = rng.randint(0, n - 1)
            b = rng.randint(a + 1, n)
            left, right = groups[:a], groups[b:]
            s = ":".join(left) + "::" + ":".join(right + ([tail] if tail else []))
            return s
        return ":".join(groups + ([tail] if tail else []))
    return rng.choice(["localhost", "example.com", "a.b", "x1", "host-1.example.org", "", "1.2.3.4\x00", "a\x00", "::1\x00",
                       "dead.beef", "fe80.com", "abc", "f"])


def random_items(seed, n):
    rng = random.Random(seed)
    pool = list(" \t\r\n/:.%é\x00\x7fāa1Z-_~!(=;\"'*\\")
    items = []
    kinds = ["reqline", "statusline", "total", "hostport", "date", "urlconcat", "reesc", "ip"]
    for i in range(n):
        kind = kinds[i % len(kinds)]
        if kind == "reqline":
            s = "%s %s HTTP/1.%d" % (rng.choice(["GET", "POST", "M-SEARCH", "get", "PROPFIND", "!#$%&'*+-.^_`|~"]),
                                    rng.choice(["/", "/a/b?c=d&e", "*", "http://h:80/p?q", "/é\xff", "/%20;x=1"]), rng.randint(0, 9))
            x = [td.cps(_mutate(rng, s, pool))]
        elif kind == "statusline":
            s = "HTTP/1.%d %03d%s" % (rng.randint(0, 9), rng.randint(0, 999), rng.choice([" OK", " Not Found", " ", " é\tx", ""]))
            x = [td.cps(_mutate(rng, s, pool))]
        elif kind == "total":
            if rng.random() < 0.02:
                x = [td.cps("host:" + "1" * rng.choice([4299, 4300, 4301, 5000]))]
            else:
                x = [td.cps(td.rand_text(rng, ["a", "=", ";", '"', "\\", "*", "'", "%", ":", "0", " ", "é", "utf-8''", "a*=", "a*0=",
                                               "\x00", "\n", "%E9", "; ", "=\"", "\\\"", "\\012", ","], 30, 0.15))]
        elif kind == "hostport":
            x = [td.cps(td.rand_text(rng, ["a", ":", "0", "9", "[", "]", ".", " ", "8080", "::1", "example.com", "-"], 8, 0.0))]
        elif kind == "date":
            x = [[rng.choice([rng.randint(0, 2 ** 31 - 1), rng.randint(0, 86400 * 800), 86400 * rng.randint(0, 24855) - rng.randint(0, 1)])
                  ]]
            x[0][0] = max(0, x[0][0])
        elif kind == "urlconcat":
            base = rng.choice(["http://h/p", "/p", "/p;x", "https://u@h:8/a/b", ""])
            q = rng.choice([None, "", "a=b", "a=b&c=d", "a=%26&a=+", "a", "a=b&&c", "é=1", "a=%C3%A9", "a=%E9", "=x", "a==b", "a=b;c=d",
                            "%zz=1", "+=+"])
            f = rng.choice([None, None, "f", "", "f?x=1"])
            pairs = [(td.rand_text(rng, ["a", "b", " ", "&", "=", "é", "#", "?", "+", "%"], 3, 0.1) or "k",
                      td.rand_text(rng, ["a", "b", " ", "&", "=", "é", "#", "?", "+", "%"], 4, 0.1)) for _ in range(rng.randint(0, 3))]
            form = rng.choice([0, 1, 2, 3])
            if form == 1 and len({k for k, _ in pairs}) != len(pairs):
                form = 2
            part = []
            for j, (k, v) in enumerate(pairs):
                if j:
                    part.append(256)
                part += td.cps(k) + [257] + td.cps(v)
            x = [td.cps(base), [-1] if q is None else td.cps(q), [-1] if f is None else td.cps(f), part, [form]]
        elif kind == "reesc":
            x = [td.cps(td.rand_text(rng, ["a", ".", "\\", "*", "-", " ", "é", "0", "_", "\n", "~", "#", "/", "\\d", "\\.", "(", "]", "$"], 20, 0.2))]
        else:
            x = [td.cps(_mutate(rng, _rand_ip(rng), list(":.0g%/ 1f")))]
        items.append(({"kind": kind}, [(fn, x) for fn in FNS[kind]]))
    return items


def run(ctx):
    ctx.mc("text", MODULE, "MC_HttpUtil.cfg", timeout=ctx.pick(900, 1500), overrides=ctx.pick({"MaxFree": 1, "Level": 1, "Kinds": '{"params", "date", "reesc", "hostport", "urlconcat"}'},
                          {"MaxFree": 2, "Level": 2}),   # quick: coverage run on the small kinds; the gen run below checks
                                                         # the same invariants on every kind
           required_actions=["Extend"])
    mf = ctx.pick(3, 4)
    states = ctx.gen_states("text", MODULE, "Gen_HttpUtil.cfg", timeout=ctx.pick(900, 1500), overrides={"MaxFree": mf, "Level": ctx.pick(1, 2)})
    paths, rel_items = td.paths_from_states(states)
    ctx.replay(paths, td.make_replayer(MODULE))
    rel_traces = td.record(MODULE, rel_items)
    ctx.cov["exhaustive"] = True
    items = random_items(ctx.seed * 7919 + 43, ctx.pick(800, 24000))
    traces = td.record(MODULE, items)
    td.validate_both(ctx, MODULE, "Trace_HttpUtil", "Trace_HttpUtil.cfg", rel_traces, traces)
    ctx.cov["rule"] = ("inputs: request lines (6 methods x separators x 10 targets x separators x 12 versions), status lines "
                       "(12 versions x separators x 6 codes x separators x 8 reasons), parameter sets (<= 2 of 3 names x 6 token "
                       "values), 27 boundary timestamps x 6 argument forms, url_concat (3 bases x 10 queries x 3 fragments x 4 "
                       "argument lists x 4 forms), all strings of <= %d tokens for the never-raise parsers / split_host_and_port / "
                       "re_unescape / is_valid_ip; plus seeded random mutated lines, Unicode, timestamps, URLs, addresses" % mf)
    ctx.cov["trusted_base"] += ["stdlib re.escape / email.utils / urllib / socket.getaddrinfo (opaque)",
                                "harness/text_driver.py adapters"]


def replay(ctx, rec):
    return td.replay_record(ctx, MODULE, "Trace_HttpUtil", "Trace_HttpUtil.cfg", rec)
