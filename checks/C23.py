"""C23 - Signed values cannot be forged, replayed across names or crash the reader.

MC : specs/websec/SignedValue.tla.  Every scenario (create; one tamper operation - single-byte
     edit / insertion / deletion at every position, field swaps, delimiter moves, name/token
     boundary shifts; decode under a grid of names, clocks, max ages, min versions, plain and
     key-dictionary secrets) and every arbitrary string up to a bound carries two verdicts
     computed by TLC: res (the documented format's decoder) and want (what property C23 demands).
     Invariants: totality, round trip, NoForgeryV2, and for version 1 what does hold (key binding,
     single edits under the original name).  A second run checks NoForgeryV1, which TLC refutes
     (name / value / timestamp boundaries are not signed: finding F11, design-level).
S2C: every scenario state is replayed on the real create_signed_value / decode_signed_value:
     the issued token must equal the specified bytes (digest recomputed with the stdlib from the
     spec's flat message), the MAC input recorded at the tornado.web module boundary must be that
     flat message, and the decode result must equal res and want ("raised" is an observation).
C2S: seeded random sessions (long names / values, several tokens, multi-byte mutations, splices,
     random clocks and secrets) are recorded with the hmac shim and validated by TLC against
     Trace_SignedValue (format of every created token, result of every decode, no forgery for v2).

Binding demonstrated during development (see notes/websec.md): dropping the name comparison in
_decode_signed_value_v2, `<` -> `<=` in the v2 expiry test, and `version < min_version` -> `<=`
were each reported by the S2C replay (diverges-from-format); the unchanged tree shows only F11.
"""
import json
import random
import time

from harness import framework
from harness import websec_driver as W
from harness import websec_signed as S


_CREATES = {}


def _replayer(st, _path):
    return S.observe_scenario(st, _CREATES)


def _trace_sig(t, bad, l):
    if not bad:
        return {}
    if bad["a"] == "decode":
        return {"what": "decode-result", "obs": bad["obs"]["res"][:1] + bad["obs"]["res"][1:2] * (bad["obs"]["res"][0] == "raised"),
                "dict": bad["args"][0] in (3, 4)}
    return {"what": "create-format"}


def run(ctx):
    import os
    # 1. model checking.  Thorough: a separate run with small symbolic signatures over the full
    #    grid; quick: the scenario run below is itself a complete TLC run (all invariants of the cfg).
    if not ctx.quick:
        mc_cfg = W.cfg_with(ctx, "MC_SignedValue.cfg", {"ArbLen": 3, "EditBytes": "{48, 124, 58, 46}"})
        ctx.mc(W.SPEC_DIR, "SignedValue", os.path.relpath(mc_cfg, W.SPEC_DIR), required_actions=["Scenario", "ArbPut"],
               timeout=1500)
    # the version-1 format is refuted on the specification itself (F11)
    ctx.mc("websec", "SignedValue", "MC_SignedValue_v1.cfg", timeout=ctx.pick(900, 1500),
           spec_violation_sig=lambda r, states: {"version": 1})
    # 2. spec -> code: every scenario with real signature lengths
    subs = ctx.pick({"ArbLen": 3, "EditBytes": "{48, 124, 58, 46}"},
                    {"Values": "ValuesB", "EditBytes": "{48, 49, 124, 58, 97, 61, 45, 46}", "ArbLen": 5})
    r, states = W.tlc_states(ctx, "SignedValue", W.cfg_with(ctx, "Gen_SignedValue.cfg", subs), count=True,
                             label="Gen_SignedValue.cfg", timeout=ctx.pick(900, 1500), coverage=True,
                             required_actions=["Scenario", "ArbPut"])
    _CREATES.clear()
    scen = []
    for st in states:
        if st["sc"]["mode"] == "create":
            _CREATES[json.dumps(st["sc"]["cr"], sort_keys=True)] = (st["itok"], st["arb"])
        else:
            st.pop("itok", None)
            scen.append((st, []))
    if not scen:
        raise framework.Machinery("no scenarios generated")
    t0 = time.time()
    ctx.replay(scen, _replayer, nontrivial=lambda e, p: True)
    ctx._phase("replay", t0)
    ctx.cov["exhaustive"] = True
    # 3. code -> spec: recorded sessions validated by TLC
    n = ctx.pick(150, 2000)
    jobs = [(i + 1, ctx.seed * 1000003 + i, ctx.pick(14, 24)) for i in range(n)]
    t0 = time.time()
    traces = framework.pool_map(S.random_session, jobs)
    ctx._phase("record", t0)
    t0 = time.time()
    ctx.validate("websec", "Trace_SignedValue", "Trace_SignedValue.cfg", traces, sig_fn=_trace_sig, shards=ctx.pick(6, None))
    ctx._phase("validate", t0)
    ctx.cov["rule"] = ("scenario = (create parameters, one tamper operation, decode parameters) or (arbitrary string, "
                       "decode parameters) as enumerated by TLC; distinct = distinct scenario records")
    ctx.cov["trusted_base"] += ["stdlib hmac/hashlib (digests recomputed independently)",
                                "harness/websec_signed.py symbol<->byte mapping"]
    ctx.assumptions += ["HMAC is an injective function of (algorithm, key, flat message): no collisions, no forgery without the key",
                        "str inputs with lone surrogates are not generated",
                        "decode clocks earlier than the creation time are not generated"]


def replay(ctx, rec):
    d = rec["detail"]
    if "extra" in d:
        st = d["extra"]
        print("replay needs the issued token table; run ./check C23 (scenario stored in the replay file)")
        print(framework.jdump(d.get("divergence")))
        return 1
    print(framework.jdump(d)[:2000])
    return 1
